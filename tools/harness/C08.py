"""C08 — the type lattice obeys its laws.

P+A: coq/C08/Properties.v (model in coq/Types + coq/C08).
C:   a type universe is built by a REAL mypy build of a fixture module; every type inside the modelled
     language is mapped to a model term, the class table to model data (well-formedness checked by the
     extracted `wf_ct`); is_subtype / is_proper_subtype (two kinds) / is_same_type / join_types / meet_types /
     make_simplified_union are compared between mypy and the extracted OCaml model on all pairs, with cold
     and polluted TypeState subtype caches.
S:   the laws themselves on real mypy over a wider universe (protocols, TypedDicts, variadic tuples,
     callables, Type[...], recursive aliases, ParamSpec, bounded TypeVars ...).

The file doubles as the worker script (`C08.py --worker MODE K N SEED TIER`), run with vlib.py_env().
"""
from __future__ import annotations

import itertools
import json
import os
import random
import subprocess
import sys
import time
from typing import Any

HERE = os.path.dirname(os.path.abspath(__file__))
sys.path.insert(0, os.path.dirname(HERE))

FIXTURE = '''
from typing import *
from enum import Enum
class A: ...
class B(A): ...
class C(A): ...
class D(B, C): ...
class E: ...
class F(E, A): ...
class G(D, F): ...
class H(C, B): ...
T = TypeVar('T')
T_co = TypeVar('T_co', covariant=True)
T_contra = TypeVar('T_contra', contravariant=True)
S_co = TypeVar('S_co', covariant=True)
class Inv(Generic[T]): ...
class Co(Generic[T_co]): ...
class Contra(Generic[T_contra]): ...
class CoSub(Co[T_co]): ...
class IntCo(Co[int]): ...
class InvB(Inv[B]): ...
class Pair(Generic[T_co, T]): ...
class PairSub(Pair[S_co, T], Co[S_co]): ...
class CoCo(Co[Co[B]]): ...
class Color(Enum):
    R = 1
    G = 2
class Uno(Enum):
    X = 1
# ---- exotic (S oracle only)
class SupportsClose(Protocol):
    def close(self) -> None: ...
class Closer:
    def close(self) -> None: ...
class PBox(Protocol[T_co]):
    def get(self) -> T_co: ...
class BoxImpl(Generic[T]):
    def get(self) -> T: raise NotImplementedError
    def put(self, x: T) -> None: ...
class CB(Protocol):
    def __call__(self, x: int, *args: str, y: int = ..., **kw: int) -> None: ...
class TD(TypedDict):
    x: int
class TD2(TD):
    y: str
class TDopt(TypedDict, total=False):
    x: int
class NT(NamedTuple):
    x: int
    y: str
class NTsub(NT): ...
class Meta(type): ...
class WithMeta(metaclass=Meta): ...
class Callme:
    def __call__(self, x: int) -> str: raise NotImplementedError
TB = TypeVar('TB', bound=A)
TV = TypeVar('TV', int, str)
P = ParamSpec('P')
Ts = TypeVarTuple('Ts')
Nested = Union[int, List['Nested']]
JSON = Union[str, None, Dict[str, 'JSON'], List['JSON']]
RA = Union[Sequence['RA'], int]
RB = Union[Sequence['RB'], str]
def f_all(x: int, /, y: str = '', *a: int, k: int, **kw: str) -> None: ...
def f_pos(x: int, y: str) -> bool: raise NotImplementedError
def f_opt(x: int, y: str = '') -> bool: raise NotImplementedError
def f_star(*a: int) -> bool: raise NotImplementedError
def f_kw(*, k: int) -> None: ...
def f_gen(x: T) -> T: raise NotImplementedError
def f_bound(x: TB) -> TB: raise NotImplementedError
@overload
def f_ov(x: int) -> int: ...
@overload
def f_ov(x: str) -> str: ...
def f_ov(x: Any) -> Any: ...
def g_vars(a: T, b: TB, c: TV, d: Callable[P, int], e: Tuple[Unpack[Ts]], f: Callable[Concatenate[int, P], str], g: Type[TB]) -> None: ...
'''

# depth-0 atoms of the modelled fragment (annotation strings)
ATOMS = ["Any", "NoReturn", "None", "object", "A", "B", "C", "D", "E", "F", "G", "H", "int", "float", "complex",
         "bool", "str", "Color", "Uno", "Literal[1]", "Literal[0]", "Literal[True]", "Literal[False]",
         "Literal['a']", "Literal['']", "Literal[Color.R]", "Literal[Color.G]", "Literal[Uno.X]",
         "IntCo", "InvB", "CoCo", "Tuple[()]"]
# small set used as arguments at depth 1
ARGS = ["Any", "NoReturn", "None", "object", "A", "B", "D", "int", "float", "bool", "Literal[1]", "Color",
        "Literal[Color.R]"]
GEN1 = ["Inv", "Co", "Contra", "CoSub"]
EXOTIC = ["SupportsClose", "Closer", "PBox[int]", "PBox[object]", "BoxImpl[int]", "BoxImpl[bool]", "CB", "TD", "TD2",
          "TDopt", "NT", "NTsub", "Tuple[int, ...]", "Tuple[int, Unpack[Tuple[str, ...]]]",
          "Tuple[Unpack[Tuple[int, ...]], str]", "Tuple[int, str]", "Tuple[Any, ...]", "tuple",
          "Callable[[int], str]", "Callable[..., int]", "Callable[[int, str], None]", "Callable[[], None]",
          "Callable[[A], B]", "Callable[[B], A]", "Type[A]", "Type[B]", "Type[Any]", "type", "Type[Union[A, E]]",
          "Type[NT]", "Meta", "Type[WithMeta]", "WithMeta", "Callme", "Nested", "JSON", "List[Nested]", "List[int]",
          "List[Any]", "Sequence[int]", "Sequence[object]", "Iterable[int]", "Mapping[str, int]", "Mapping[str, object]",
          "Dict[str, int]", "Dict[str, Any]", "Hashable", "Sized", "Literal['x', 'y']", "Optional[TD]",
          "Union[NT, Tuple[int, str]]", "Union[Callable[[int], str], Callme]", "Awaitable[int]", "Coroutine[Any, Any, int]",
          "bytes", "bytearray", "memoryview", "LiteralString", "RA", "RB", "Sequence[RA]", "Sequence[RB]", "Container[RB]",
          "Final[int]"][:-1]
# universe of the directed cache-order oracle (one query asked right after another one, compared with its cold answer)
CACHE_ORDER_UNI = ["RA", "RB", "Sequence[RA]", "Sequence[RB]", "Container[RB]", "Nested", "JSON", "List[Nested]", "int", "str",
                   "Sequence[int]", "List[int]"]
# adversarial types of the modelled language (single-member enum, duplicate items, Never inside unions,
# the same union in two item orders below a generic / tuple)
ADVERSARIAL = ["Union[Literal[Uno.X], NoReturn]", "Union[Literal[Uno.X], Literal[Uno.X]]", "Union[Uno, None]", "Tuple[Uno]",
               "Co[Uno]", "Co[Literal[Uno.X]]", "Inv[Uno]", "Inv[Literal[Uno.X]]", "Co[Union[A, int]]", "Co[Union[int, A]]",
               "Inv[Union[A, int]]", "Inv[Union[int, A]]", "Contra[Union[A, int]]", "Contra[Union[int, A]]",
               "Inv[Union[Literal[1], int, Literal[2]]]", "Inv[Union[int, Literal[1], Literal[2]]]",
               "Tuple[Union[Literal[1], int, Literal[2]]]", "Tuple[Union[int, Literal[1]]]", "Co[Union[bool, int]]",
               "Co[Union[int, bool]]", "Union[int, NoReturn]", "Union[NoReturn, NoReturn]", "Co[Union[Literal[True], Literal[False]]]",
               "Inv[Union[Literal[True], Literal[False]]]", "Inv[bool]", "Co[bool]", "Union[Literal[Color.R], Literal[Color.G], Literal[Color.R]]"]
# fixed (seed-independent) part of the universe used by the S oracle
S_CORE = ["Any", "NoReturn", "None", "object", "A", "B", "D", "E", "G", "H", "int", "float", "bool", "str", "Color", "Uno",
          "Literal[1]", "Literal[0]", "Literal[True]", "Literal['a']", "Literal[Color.R]", "Literal[Uno.X]", "IntCo", "InvB",
          "Tuple[()]", "Inv[A]", "Inv[B]", "Inv[Any]", "Co[A]", "Co[B]", "Co[Any]", "Co[int]", "Contra[A]", "Contra[B]", "Contra[int]", "Contra[float]", "Co[float]", "Inv[float]",
          "CoSub[B]", "Pair[A, B]", "PairSub[bool, int]", "Union[int, None]", "Union[A, E]", "Union[B, C, D]",
          "Union[Literal[True], Literal[False]]", "Union[Literal[Color.R], Literal[Color.G]]", "Union[int, str, None]",
          "Union[Literal[1], int, Literal[2]]", "Union[object, A]", "Tuple[int]", "Tuple[A, B]", "Tuple[bool, int]",
          "Tuple[int, ...]", "Tuple[Any, ...]", "Tuple[B, Any]", "Tuple[object, NoReturn]", "Sequence[int]", "Sequence[object]",
          "Iterable[B]"] + ADVERSARIAL
# universe of the cache-key oracle (flag settings asked one after the other on the same pair)
FLAGS_UNI = ["List[bool]", "List[int]", "List[float]", "List[object]", "List[Any]", "Inv[bool]", "Inv[int]", "Inv[float]",
             "Co[bool]", "Co[int]", "Contra[int]", "Contra[float]", "Dict[str, bool]", "Dict[str, int]", "Pair[bool, int]",
             "Pair[int, int]", "Tuple[bool, int]", "Tuple[int, int]", "Sequence[bool]", "Sequence[int]", "int", "bool", "float",
             "None", "object", "Optional[int]", "Optional[bool]", "List[Optional[int]]", "List[Optional[bool]]",
             "Callable[[int], int]", "Callable[[bool], int]", "List[Callable[[int], int]]", "List[Callable[[bool], int]]",
             "TD", "TD2", "NT", "PBox[int]", "PBox[bool]", "BoxImpl[int]", "BoxImpl[bool]", "Literal[1]", "Type[A]", "Type[B]",
             "List[Tuple[bool, int]]", "List[Tuple[int, int]]"]
FLAGS_FUNCS = ["f_pos", "f_opt", "fn_a", "fn_b"]
FLAGS_DEFS = "def fn_a(x: int, y: str) -> bool: raise NotImplementedError\ndef fn_b(p: int, q: str) -> bool: raise NotImplementedError\n"


def tuple_universe() -> list[str]:
    """Variadic tuples with prefixes/suffixes of length 0-2 on both sides, and fixed tuples of length 0-3."""
    parts = [(), ("int",), ("str",), ("int", "str")]
    out = []
    for pre in parts:
        for suf in parts:
            for mid in ("int", "object", "str"):
                items = list(pre) + [f"Unpack[Tuple[{mid}, ...]]"] + list(suf)
                out.append("Tuple[" + ", ".join(items) + "]")
    out.append("Tuple[()]")
    for n in (1, 2, 3):
        for combo in itertools.product(("int", "str"), repeat=n):
            out.append("Tuple[" + ", ".join(combo) + "]")
    out += ["Tuple[object, object]", "Tuple[int, object]", "Sequence[object]", "Sequence[int]", "object"]
    return out


# classes of the protocol sub-universe (built only by the `subuni` worker)
PROTO_DEFS = '''
class HasItem(Protocol[T]):
    item: T
class HasItemRO(Protocol[T_co]):
    @property
    def item(self) -> T_co: ...
class HasGet(Protocol[T_co]):
    def get(self) -> T_co: ...
class HasPut(Protocol[T_contra]):
    def put(self, x: T_contra) -> None: ...
class HasBoth(Protocol[T]):
    item: T
    def get(self) -> T: ...
class HasName(Protocol):
    name: str
class HasSize(Protocol):
    def size(self) -> int: ...
class Box(Generic[T]):
    item: T
    name: str
    def get(self) -> T: raise NotImplementedError
    def put(self, x: T) -> None: ...
    def size(self) -> int: raise NotImplementedError
class IntBox(Box[int]): ...
class StrBox(Box[str]): ...
class BoolBox(Box[bool]): ...
class SubBox(Box[T]): ...
class IntSubBox(SubBox[int]): ...
class SwapBox(Generic[S, T], Box[T]): ...
class IntSwapBox(SwapBox[str, int]): ...
class PropBox(Generic[T_co]):
    @property
    def item(self) -> T_co: raise NotImplementedError
class IntPropBox(PropBox[int]): ...
class PlainBox:
    item: int
    name: str
    def get(self) -> int: raise NotImplementedError
    def put(self, x: int) -> None: ...
    def size(self) -> int: raise NotImplementedError
'''
# (empty-bodied subclass, the instantiated base it stands for)
PROTO_SAME = [("IntBox", "Box[int]"), ("StrBox", "Box[str]"), ("BoolBox", "Box[bool]"), ("IntSubBox", "SubBox[int]"),
              ("IntSubBox", "Box[int]"), ("IntPropBox", "PropBox[int]"), ("IntSwapBox", "SwapBox[str, int]"),
              ("IntSwapBox", "Box[int]"), ("SubBox[int]", "Box[int]"), ("SubBox[str]", "Box[str]"),
              ("SwapBox[str, int]", "Box[int]")]


def proto_universe() -> list[str]:
    """Protocols with attribute / property / method members and type parameters, and their implementations: generic
    classes, NON-generic subclasses of instantiated generics, classes inheriting the member from a generic grandparent."""
    out = []
    for p in ("HasItem", "HasItemRO", "HasGet", "HasPut", "HasBoth"):
        for a in ("int", "str", "object", "bool"):
            out.append(f"{p}[{a}]")
    out += ["HasName", "HasSize"]
    for a in ("int", "str", "object", "bool"):
        out += [f"Box[{a}]", f"SubBox[{a}]"]
    out += ["PropBox[int]", "PropBox[bool]", "PropBox[object]", "SwapBox[str, int]", "SwapBox[int, str]",
            "IntBox", "StrBox", "BoolBox", "IntSubBox", "IntSwapBox", "IntPropBox", "PlainBox", "object"]
    return out


TUPLE_SUPERS_GEN = ["Sequence", "Collection", "Iterable", "Container", "Reversible"]


def tuple_super_universe() -> list[str]:
    """Fixed tuples (0-3 items) against every typeshed supertype of tuple, instantiated at int/str/object."""
    out = ["Tuple[()]"]
    for n in (1, 2, 3):
        for combo in itertools.product(("int", "str"), repeat=n):
            out.append("Tuple[" + ", ".join(combo) + "]")
    out += ["Tuple[object]", "Tuple[int, object]", "Tuple[bool, int]", "Tuple[bool]"]
    for g in TUPLE_SUPERS_GEN:
        for a in ("int", "str", "object"):
            out.append(f"{g}[{a}]")
    out += ["Tuple[int, ...]", "Tuple[str, ...]", "Tuple[object, ...]", "Sized", "Hashable", "object"]
    return out


def callable_universe() -> list[str]:
    """Parameter lists (<= 3 parameters): positional-only / optional / positional / *args / **kwargs / keyword-only."""
    import ast
    A = ["", "x: int, /", "x: str, /", "x: str = '', /", "x: int = 0, /"]
    B = ["", "y: int", "y: int = 0", "y: str"]
    C = ["", "*args: int", "*args: str"]
    D = ["", "k: int", "**kw: int"]
    out = []
    for a in A:
        for b in B:
            for c in C:
                for d in D:
                    ps = [x for x in (a, b, c) if x]
                    if d == "k: int":
                        ps += (["k: int"] if c else ["*", "k: int"])
                    elif d:
                        ps.append(d)
                    n = sum(1 for x in ps if x != "*") + (0)
                    if n > 3:
                        continue
                    sig = ", ".join(ps)
                    try:
                        ast.parse(f"def f({sig}) -> None: ...")
                    except SyntaxError:
                        continue
                    out.append(sig)
    return list(dict.fromkeys(out))


FUNCS = ["f_all", "f_pos", "f_opt", "f_star", "f_kw", "f_gen", "f_bound", "f_ov"]


def gen_universe(seed: int, quick: bool) -> tuple[list[str], list[str]]:
    """Annotation strings: (core universe for C, extra strings for S)."""
    rng = random.Random(f"{seed}/c08-universe")
    u = list(ATOMS) + list(S_CORE)
    for g in GEN1:
        for a in ARGS:
            u.append(f"{g}[{a}]")
    for a, b in [("A", "B"), ("int", "Any"), ("Any", "int"), ("B", "B"), ("object", "float"), ("bool", "int")]:
        u.append(f"Pair[{a}, {b}]")
        u.append(f"PairSub[{a}, {b}]")
    un = ["None", "A", "B", "int", "bool", "float", "object", "Any", "Literal[1]", "Literal[True]", "Literal[False]",
          "Literal[Color.R]", "Literal[Color.G]", "Color", "str", "E", "Co[B]", "Tuple[int]"]
    pairs = [(a, b) for a in un for b in un if a != b]
    rng.shuffle(pairs)
    for a, b in pairs[: (25 if quick else 200)]:
        u.append(f"Union[{a}, {b}]")
    u += ["Union[Literal[True], Literal[False]]", "Union[Literal[False], Literal[True]]",
          "Union[Literal[Color.R], Literal[Color.G]]", "Union[Literal[Color.G], Literal[Color.R], None]",
          "Union[Literal[1], int, Literal[2]]", "Union[Literal[1], Literal[2]]", "Union[int, str, None]",
          "Union[B, C, D]", "Union[A, Union[B, None]]", "Union[Literal[Uno.X], None]"]
    tp = ["A", "B", "int", "bool", "float", "Any", "None", "Literal[1]", "object", "NoReturn"]
    for a in tp:
        u.append(f"Tuple[{a}]")
        u.append(f"Tuple[{a}, ...]")
    tps = [(a, b) for a in tp for b in tp]
    rng.shuffle(tps)
    for a, b in tps[: (10 if quick else 100)]:
        u.append(f"Tuple[{a}, {b}]")
    u += ["Sequence[int]", "Sequence[Any]", "Sequence[A]", "Iterable[B]"]

    # seeded random deeper types
    def deep(d: int) -> str:
        if d == 0 or rng.random() < 0.25:
            return rng.choice(ATOMS + ARGS)
        k = rng.random()
        if k < 0.3:
            return f"{rng.choice(GEN1)}[{deep(d - 1)}]"
        if k < 0.4:
            return f"{rng.choice(['Pair', 'PairSub'])}[{deep(d - 1)}, {deep(d - 1)}]"
        if k < 0.7:
            n = rng.choice([2, 2, 3])
            return "Union[" + ", ".join(deep(d - 1) for _ in range(n)) + "]"
        if k < 0.9:
            n = rng.choice([1, 2, 2, 3])
            return "Tuple[" + ", ".join(deep(d - 1) for _ in range(n)) + "]"
        return f"Tuple[{deep(d - 1)}, ...]"
    for _ in range(20 if quick else 250):
        u.append(deep(rng.choice([2, 2, 3])))
    seen: set[str] = set()
    core = [x for x in u if not (x in seen or seen.add(x))]
    return core, list(EXOTIC)


# =========================================================================================== worker

def worker(mode: str, k: int, n: int, seed: int, tier: str) -> None:
    import vlib
    sys.path.insert(0, vlib.REPO)
    from mypy import build
    from mypy.options import Options
    from mypy.modulefinder import BuildSource
    import mypy.types as mt
    import mypy.subtypes as ms
    import mypy.join as mj
    import mypy.meet as mm
    import mypy.typeops as mo
    from mypy.typestate import type_state
    from mypy.maptype import map_instance_to_supertype
    from mypy.typevars import fill_typevars
    from mypy.nodes import TypeInfo, INVARIANT, COVARIANT, CONTRAVARIANT
    from mypy import state as mstate  # noqa

    quick = tier == "quick"
    core, exotic = gen_universe(seed, quick)
    tup_uni = tuple_universe()
    call_uni = callable_universe()
    proto_uni = proto_universe()
    tsup_uni = tuple_super_universe()
    src = FIXTURE + "\n".join(f"u{i}: {a}" for i, a in enumerate(core)) + "\n" \
        + "\n".join(f"x{i}: {a}" for i, a in enumerate(exotic)) + "\n"
    if mode in ("flags", "subuni"):
        src += FLAGS_DEFS + "\n".join(f"z{i}: {a}" for i, a in enumerate(FLAGS_UNI)) + "\n" \
            + "\n".join(f"w{i}: {a}" for i, a in enumerate(tup_uni)) + "\n" \
            + "\n".join(f"def hh{i}({a}) -> None: ..." for i, a in enumerate(call_uni)) + "\n"
    if mode == "subuni":
        src += "S = TypeVar('S')\n" + PROTO_DEFS + "\n".join(f"pp{i}: {a}" for i, a in enumerate(proto_uni)) + "\n" \
            + "\n".join(f"tt{i}: {a}" for i, a in enumerate(tsup_uni)) + "\n"
    o = Options()
    o.incremental = False
    o.cache_dir = os.devnull
    o.python_version = (3, 12)
    o.show_traceback = True
    res = build.build([BuildSource("c08fx.py", "c08fx", src)], o)
    out: dict[str, Any] = {"errors": res.errors[:5]}
    tree = res.files["c08fx"]
    U = [tree.names[f"u{i}"].node.type for i in range(len(core))]          # type: ignore[union-attr]
    X = [tree.names[f"x{i}"].node.type for i in range(len(exotic))]       # type: ignore[union-attr]
    xnames = list(exotic)
    for fn in FUNCS:
        X.append(tree.names[fn].node.type)                                 # type: ignore[union-attr]
        xnames.append("<def " + fn + ">")
    gv = tree.names["g_vars"].node.type                                    # type: ignore[union-attr]
    for i, at in enumerate(gv.arg_types):
        X.append(at)
        xnames.append(f"<g_vars arg {i}: {at}>")

    # ---- structural-subtyping monitor (outside the modelled language)
    flag = {"proto": 0}
    orig_ipi = ms.is_protocol_implementation

    def ipi(*a: Any, **kw: Any) -> bool:
        flag["proto"] += 1
        return orig_ipi(*a, **kw)
    ms.is_protocol_implementation = ipi
    mj.is_protocol_implementation = ipi
    if hasattr(mm, "is_protocol_implementation"):
        mm.is_protocol_implementation = ipi

    # ---- class table
    infos: dict[str, TypeInfo] = {}

    def add_info(info: TypeInfo) -> None:
        if info.fullname in infos:
            return
        infos[info.fullname] = info
        for b in info.mro:
            add_info(b)
        for p in info._promote:
            pp = mt.get_proper_type(p)
            if isinstance(pp, mt.Instance):
                add_info(pp.type)

    def collect(t: mt.Type) -> None:
        t = mt.get_proper_type(t)
        if isinstance(t, mt.Instance):
            add_info(t.type)
            for a in t.args:
                collect(a)
        elif isinstance(t, mt.LiteralType):
            add_info(t.fallback.type)
        elif isinstance(t, mt.UnionType):
            for a in t.items:
                collect(a)
        elif isinstance(t, mt.TupleType):
            add_info(t.partial_fallback.type)
            for a in t.items:
                collect(a)
    for t in U:
        collect(t)
    bi = res.files["builtins"].names
    ty_mod = res.files["typing"].names
    for nm in ("object", "tuple", "bool", "int", "float", "complex", "str"):
        add_info(bi[nm].node)                                              # type: ignore[arg-type]
    add_info(ty_mod["Sized"].node)                                         # type: ignore[arg-type]
    names = sorted(infos)
    cid = {nm: i + 1 for i, nm in enumerate(names)}
    strs: set[str] = set()
    for info in infos.values():
        if info.is_enum:
            strs.update(info.enum_members)

    def lit_strs(t: mt.Type) -> None:
        t = mt.get_proper_type(t)
        if isinstance(t, mt.LiteralType) and isinstance(t.value, str):
            strs.add(t.value)
        for a in getattr(t, "args", []) or []:
            lit_strs(a)
        for a in getattr(t, "items", []) or []:
            if isinstance(a, mt.Type):
                lit_strs(a)
    for t in U:
        lit_strs(t)
    scode = {s: (0 if s == "" else 1000 + i) for i, s in enumerate(sorted(strs))}

    bad_class: dict[str, str] = {}

    def tok(t: mt.Type, tvmap: dict[Any, int] | None = None) -> list[str] | None:
        """Model term (token list) of a real type, or None when outside the modelled language."""
        if isinstance(t, mt.TypeAliasType):
            if t.is_recursive:
                return None
        t = mt.get_proper_type(t)
        if isinstance(t, mt.AnyType):
            return ["A"]
        if isinstance(t, mt.UninhabitedType):
            return ["N"]
        if isinstance(t, mt.NoneType):
            return ["O"]
        if isinstance(t, mt.Instance):
            if t.last_known_value is not None or t.extra_attrs is not None:
                return None
            if t.type.fullname not in cid or t.type.fullname in bad_class:
                return None
            if len(t.args) != len(t.type.defn.type_vars):
                return None
            r = ["I", str(cid[t.type.fullname]), str(len(t.args))]
            for a in t.args:
                x = tok(a)
                if x is None:
                    return None
                r += x
            return r
        if isinstance(t, mt.LiteralType):
            fb = t.fallback
            if fb.args or fb.type.fullname not in cid or fb.type.fullname in bad_class:
                return None
            v = t.value
            if isinstance(v, bool):
                code = int(v)
            elif isinstance(v, int):
                if abs(v) > 10 ** 6:
                    return None
                code = v
            elif isinstance(v, str):
                if v not in scode:
                    return None
                code = scode[v]
            else:
                return None
            return ["L", str(cid[fb.type.fullname]), str(code)]
        if isinstance(t, mt.UnionType):
            r = ["U", str(len(t.items))]
            for a in t.items:
                x = tok(a)
                if x is None:
                    return None
                r += x
            return r
        if isinstance(t, mt.TupleType):
            if t.partial_fallback.type.fullname != "builtins.tuple":
                return None
            r = ["T", str(len(t.items))]
            for a in t.items:
                if isinstance(a, mt.UnpackType):
                    return None
                x = tok(a)
                if x is None:
                    return None
                r += x
            return r
        return None

    def class_line(nm: str) -> str | None:
        info = infos[nm]
        vs = []
        for tv in info.defn.type_vars:
            if not isinstance(tv, mt.TypeVarType) or tv.values:
                return None
            ub = mt.get_proper_type(tv.upper_bound)
            if not (isinstance(ub, mt.Instance) and ub.type.fullname == "builtins.object"):
                return None
            if tv.variance not in (INVARIANT, COVARIANT, CONTRAVARIANT):
                return None
            vs.append({INVARIANT: "i", COVARIANT: "c", CONTRAVARIANT: "n"}[tv.variance])
        if info.fallback_to_any or info.alt_promote is not None or info.tuple_type is not None \
                or info.typeddict_type is not None or info.is_named_tuple or info.is_newtype:
            return None
        ps = []
        for p in info._promote:
            pp = mt.get_proper_type(p)
            if not isinstance(pp, mt.Instance) or pp.args:
                return None
            ps.append(cid[pp.type.fullname])
        if info.is_enum:
            en = [str(len(info.enum_members))] + [str(scode[m]) for m in info.enum_members]
        else:
            en = ["-1"]
        am = []
        inst = fill_typevars(info)
        if not isinstance(inst, mt.Instance):
            return None
        own = [a.id for a in inst.args if isinstance(a, mt.TypeVarType)]
        if len(own) != len(inst.args):
            return None
        for anc in info.mro[1:]:
            if not anc.defn.type_vars:
                continue
            mapped = map_instance_to_supertype(inst, anc)
            specs = []
            for a in mapped.args:
                pa = mt.get_proper_type(a)
                if isinstance(pa, mt.TypeVarType) and pa.id in own:
                    specs += ["P", str(own.index(pa.id))]
                else:
                    x = tok(a)
                    if x is None:
                        return None
                    specs += ["C"] + x
            am += [str(cid[anc.fullname]), str(len(mapped.args))] + specs
        n_am = sum(1 for anc in info.mro[1:] if anc.defn.type_vars)
        mro = [cid[b.fullname] for b in info.mro]
        bases = [cid[b.type.fullname] for b in info.bases]
        return " ".join(["class", str(cid[nm]), "mro", str(len(mro))] + [str(c) for c in mro]
                        + ["var", str(len(vs))] + vs + ["bases", str(len(bases))] + [str(c) for c in bases]
                        + ["promote", str(len(ps))] + [str(c) for c in ps] + ["enum"] + en
                        + ["proto", "1" if info.is_protocol else "0", "amap", str(n_am)] + am)

    # classes whose own description is outside the fragment poison themselves and their subclasses
    for _ in range(3):
        for nm in names:
            if nm in bad_class:
                continue
            if class_line(nm) is None:
                bad_class[nm] = "own description outside the fragment"
            elif any(b.fullname in bad_class for b in infos[nm].mro[1:]):
                bad_class[nm] = "ancestor outside the fragment"
    table_lines = [class_line(nm) for nm in names if nm not in bad_class]
    tl = [cid[x] for x in ("builtins.tuple", "typing.Iterable", "typing.Container", "typing.Sequence", "typing.Reversible")
          if x in cid and x not in bad_class]
    table_lines.append(" ".join(["table", str(cid["builtins.object"]), str(cid["builtins.tuple"]), str(cid["builtins.bool"]),
                                 str(cid["typing.Sized"]), str(len(tl))] + [str(c) for c in tl]))
    out["classes"] = len(names)
    out["bad_classes"] = bad_class

    UT = [tok(t) for t in U]
    out["universe"] = len(U)
    out["outside_fragment"] = [core[i] for i, x in enumerate(UT) if x is None]

    exe = os.path.join(vlib.BUILD, "c08", "run")

    def run_model(lines: list[str]) -> list[str]:
        p = subprocess.run([exe], input="\n".join(table_lines + lines) + "\n", text=True, capture_output=True, timeout=1200)
        res_l = p.stdout.splitlines()[len(table_lines):]
        if len(res_l) != len(lines):
            raise RuntimeError(f"driver returned {len(res_l)} lines for {len(lines)}: {p.stderr[-300:]}")
        return res_l

    def reset() -> None:
        type_state.reset_all_subtype_caches()

    def b2s(b: bool) -> str:
        return "true" if b else "false"

    def ts(t: mt.Type | None) -> str:
        if t is None:
            return "?"
        x = tok(t)
        return "?" if x is None else " ".join(x)

    # ------------------------------------------------------------------------------------- mode C
    if mode == "pairs":
        idx = [i for i, x in enumerate(UT) if x is not None]
        allpairs = [(i, j) for i in idx for j in idx]
        if quick:      # quick tier: a seeded 40% sample of the ordered pairs (thorough stays exhaustive)
            rs = random.Random(f"{seed}/c08-pair-sample")
            allpairs = [pq for pq in allpairs if pq[0] == pq[1] or rs.random() < 0.4]
        mine = allpairs[k::n]
        OPS = ["sub", "proper", "proper_np", "same", "join", "meet", "simpl"]

        def impl(op: str, a: mt.Type, b: mt.Type) -> str:
            if op == "sub":
                return b2s(ms.is_subtype(a, b))
            if op == "proper":
                return b2s(ms.is_proper_subtype(a, b))
            if op == "proper_np":
                return b2s(ms.is_proper_subtype(a, b, ignore_promotions=True))
            if op == "same":
                return b2s(ms.is_same_type(a, b))
            if op == "join":
                return ts(mj.join_types(a, b))
            if op == "meet":
                return ts(mm.meet_types(a, b))
            return ts(mo.make_simplified_union([a, b]))

        def query(op: str, i: int, j: int) -> str:
            a, b = " ".join(UT[i]), " ".join(UT[j])          # type: ignore[arg-type]
            if op == "sub":
                return f"sub 000 {a} {b}"
            if op == "proper":
                return f"sub 100 {a} {b}"
            if op == "proper_np":
                return f"sub 110 {a} {b}"
            if op == "simpl":
                return f"simpl 2 {a} {b}"
            return f"{op} {a} {b}"
        cold: list[tuple[str, int]] = []
        for (i, j) in mine:
            for op in OPS:
                reset()
                flag["proto"] = 0
                try:
                    r = impl(op, U[i], U[j])
                except Exception as e:  # noqa
                    r = "!EXC " + type(e).__name__
                cold.append((r, flag["proto"]))
        # polluted caches: first answer queries of OTHER kinds on the same pairs in shuffled order, then
        # answer everything without ever resetting
        reset()
        rng = random.Random(f"{seed}/c08-pollute/{k}")
        pol = list(mine)
        rng.shuffle(pol)
        for (i, j) in pol:
            ms.is_proper_subtype(U[j], U[i], ignore_promotions=True)
            ms.is_subtype(U[j], U[i], ignore_type_params=True)
            ms.is_subtype(U[j], U[i], ignore_promotions=True)
            ms.is_proper_subtype(U[i], U[j], subtype_context=ms.SubtypeContext(ignore_type_params=True))
        warm: list[str] = []
        order = list(range(len(mine)))
        rng.shuffle(order)
        warm_map: dict[int, list[str]] = {}
        for q in order:
            i, j = mine[q]
            rs = []
            for op in OPS:
                try:
                    rs.append(impl(op, U[i], U[j]))
                except Exception as e:  # noqa
                    rs.append("!EXC " + type(e).__name__)
            warm_map[q] = rs
        for q in range(len(mine)):
            warm += warm_map[q]
        model = run_model([query(op, i, j) for (i, j) in mine for op in OPS])
        mism = []
        cache_viol = []
        st = {"compared": 0, "structural_skipped": 0, "result_outside": 0, "true_sub": 0, "nontrivial": 0}
        q = 0
        for (i, j) in mine:
            for op in OPS:
                r, pf = cold[q]
                if warm[q] != r:
                    cache_viol.append({"op": op, "left": core[i], "right": core[j], "cold": r, "warm": warm[q]})
                if pf:
                    st["structural_skipped"] += 1
                elif r == "?":
                    st["result_outside"] += 1
                else:
                    st["compared"] += 1
                    if op == "sub" and r == "true" and i != j:
                        st["true_sub"] += 1
                    if op in ("join", "meet", "simpl") and r not in (" ".join(UT[i]), " ".join(UT[j])):   # type: ignore[arg-type]
                        st["nontrivial"] += 1
                    if model[q] != r:
                        mism.append({"op": op, "left": core[i], "right": core[j], "impl": r, "model": model[q]})
                q += 1
        out.update(st)
        out["pairs"] = len(mine)
        out["mismatches"] = mism[:40]
        out["n_mismatches"] = len(mism)
        out["cache_violations"] = cache_viol[:20]
        if k == 0:
            out["wf"] = run_model(["wf"])[0]
            out["chains_ok_3"] = run_model(["chains 3"])[0]
            out["wf_gen"] = run_model(["wfgen"])[0]
            out["wf_contr"] = run_model(["wfcontr"])[0]
            lo = run_model(["litsok " + " ".join(x) for x in UT if x is not None])
            nc = run_model(["nocontr " + " ".join(x) for x in UT if x is not None])
            cv = run_model(["covt " + " ".join(x) for x in UT if x is not None])
            fr2 = run_model(["frag2 " + " ".join(x) for x in UT if x is not None])
            out["in_frag2"] = sum(1 for x in fr2 if x == "true")
            out["in_frag2_lits_ok"] = sum(1 for x, y in zip(fr2, lo) if x == "true" and y == "true")
            out["in_frag2_no_contr"] = sum(1 for x, y in zip(fr2, nc) if x == "true" and y == "true")
            out["in_frag2_x2_x3"] = sum(1 for x, y, z in zip(fr2, lo, cv) if x == "true" and y == "true" and z == "true")
            out["not_in_frag2"] = [core[i] for i, x in zip([i for i, t in enumerate(UT) if t is not None], fr2) if x != "true"]
            fr = run_model(["frag1 " + " ".join(x) for x in UT if x is not None])
            out["in_frag1"] = sum(1 for x in fr if x == "true")
            fr = run_model(["fragup " + " ".join(x) for x in UT if x is not None])
            out["in_frag_up"] = sum(1 for x in fr if x == "true")
            out["sample"] = {"left": core[mine[1][0]], "right": core[mine[1][1]], "model_terms": [" ".join(UT[mine[1][0]]), " ".join(UT[mine[1][1]])]}  # type: ignore[arg-type]
            # simplified unions of 3 items in every order, model vs mypy
            rng3 = random.Random(f"{seed}/c08-triples")
            trip_m = []
            trip_q = []
            for _ in range(150 if quick else 3000):
                tr = [rng3.choice(idx) for _ in range(3)]
                for perm in itertools.permutations(tr):
                    reset()
                    flag["proto"] = 0
                    r = ts(mo.make_simplified_union([U[x] for x in perm]))
                    if not flag["proto"] and r != "?":
                        trip_q.append((perm, r))
            mres = run_model(["simpl 3 " + " ".join(" ".join(UT[x]) for x in perm) for perm, _ in trip_q])  # type: ignore[arg-type]
            for (perm, r), mr in zip(trip_q, mres):
                if mr != r:
                    trip_m.append({"op": "simpl3", "items": [core[x] for x in perm], "impl": r, "model": mr})
            out["simpl3_compared"] = len(trip_q)
            out["mismatches"] = (out["mismatches"] + trip_m)[:40]
            out["n_mismatches"] += len(trip_m)

    # ------------------------------------------------------------------------------------- mode S
    if mode in ("laws", "flags", "subuni"):
        # whole universe: a subset of the core + everything exotic
        rng = random.Random("c08-laws")          # the S universe and its evaluation order do not depend on the seed
        take = [core.index(a) for a in dict.fromkeys(S_CORE)]
        if os.environ.get("C08_S_ALL"):           # exploration only: every core type of this seed
            take = list(range(len(core)))
        W = [U[i] for i in take] + X
        WN = [core[i] for i in take] + xnames
        if mode == "flags":
            W = [tree.names[f"z{i}"].node.type for i in range(len(FLAGS_UNI))] + [tree.names[f].node.type for f in FLAGS_FUNCS]  # type: ignore[union-attr]
            WN = list(FLAGS_UNI) + ["<def " + f + ">" for f in FLAGS_FUNCS]
        if mode == "subuni":
            n_tup = len(tup_uni)
            W = [tree.names[f"w{i}"].node.type for i in range(n_tup)] + [tree.names[f"hh{i}"].node.type for i in range(len(call_uni))]  # type: ignore[union-attr]
            WN = list(tup_uni) + [f"def ({a})" for a in call_uni]
            n_call = len(W)
            W += [tree.names[f"pp{i}"].node.type for i in range(len(proto_uni))]   # type: ignore[union-attr]
            WN += list(proto_uni)
            n_proto = len(W)
            W += [tree.names[f"tt{i}"].node.type for i in range(len(tsup_uni))]    # type: ignore[union-attr]
            WN += list(tsup_uni)

        def has_any(t: mt.Type, depth: int = 0) -> bool:
            if depth > 6:
                return False
            if isinstance(t, mt.TypeAliasType) and t.is_recursive:
                return t.alias is not None and has_any(t.alias.target, depth + 3) or any(has_any(a, depth + 1) for a in t.args)
            t = mt.get_proper_type(t)
            if isinstance(t, mt.AnyType):
                return True
            if isinstance(t, mt.Instance):
                # bare builtins.type is treated by mypy as Type[Any]
                # ... and instances of metaclasses are callable through type.__call__(*Any, **Any) -> Any
                return t.type.has_base("builtins.type") or any(has_any(a, depth + 1) for a in t.args)
            if isinstance(t, (mt.UnionType, mt.Overloaded)):
                return any(has_any(a, depth + 1) for a in t.items)
            if isinstance(t, mt.TupleType):
                return any(has_any(a, depth + 1) for a in t.items) or \
                    (t.partial_fallback.type.fullname != "builtins.tuple" and has_any(t.partial_fallback, depth + 1))
            if isinstance(t, mt.CallableType):
                return t.is_ellipsis_args or any(has_any(a, depth + 1) for a in t.arg_types) or has_any(t.ret_type, depth + 1)
            if isinstance(t, mt.TypeType):
                return has_any(t.item, depth + 1)
            if isinstance(t, mt.TypedDictType):
                return any(has_any(a, depth + 1) for a in t.items.values())
            if isinstance(t, mt.UnpackType):
                return has_any(t.type, depth + 1)
            if isinstance(t, mt.TypeVarLikeType):
                return has_any(t.upper_bound, depth + 1) or any(has_any(v, depth + 1) for v in getattr(t, "values", []))
            if isinstance(t, mt.Parameters):
                return any(has_any(a, depth + 1) for a in t.arg_types)
            return False
        anyfree = [not has_any(t) for t in W]
        m = len(W)
        viol: list[dict[str, Any]] = []
        exc: list[dict[str, Any]] = []
        stat = {"law_evaluations": 0, "pairs": 0, "triples_anyfree": 0, "exceptions": 0}

        def safe(f: Any, *a: Any, **kw: Any) -> Any:
            try:
                return f(*a, **kw)
            except Exception as e:  # noqa
                stat["exceptions"] += 1
                if len(exc) < 10:
                    exc.append({"f": getattr(f, "__name__", "?"), "args": [str(x) for x in a], "exc": repr(e)[:200]})
                return None

        def kind_tag(t: mt.Type) -> str:
            if isinstance(t, mt.TypeAliasType) and t.is_recursive:
                return "RecursiveAlias"
            t = mt.get_proper_type(t)
            if isinstance(t, mt.Instance):
                if t.type.is_protocol:
                    return "ProtocolInstance"
                return "Instance"
            if isinstance(t, mt.TupleType):
                tag = "Tuple"
                if t.partial_fallback.type.fullname != "builtins.tuple":
                    tag = "NamedTuple"
                if any(isinstance(a, mt.UnpackType) for a in t.items):
                    tag += "Variadic"
                return tag
            if isinstance(t, mt.CallableType):
                return "TypeObjCallable" if t.is_type_obj() else ("GenericCallable" if t.variables else "Callable")
            if isinstance(t, mt.UnionType):
                return "Union"
            nm = type(t).__name__
            return nm[:-4] if nm.endswith("Type") and len(nm) > 4 else nm

        def v(law: str, ixs: list[int], detail: str, key_ixs: list[int] | None = None) -> None:
            viol.append({"law": law, "types": [WN[i] for i in ixs], "strs": [str(W[i]) for i in ixs], "detail": detail,
                         "kinds": [kind_tag(W[i]) for i in (ixs if key_ixs is None else key_ixs)],
                         "core": [tok(W[i]) is not None for i in ixs]})
        if mode == "flags":
            # ------------------------------------------------------------------ cache-key oracle
            from mypy.state import state as mypy_state
            SC = ms.SubtypeContext

            def mk(proper: bool, strict: bool = True, **kw: Any) -> Any:
                def q(a: mt.Type, b: mt.Type) -> bool:
                    def run() -> bool:
                        if proper:
                            return ms.is_proper_subtype(a, b, subtype_context=SC(**kw)) if kw else ms.is_proper_subtype(a, b)
                        return ms.is_subtype(a, b, **kw)
                    if strict:
                        return run()
                    with mypy_state.strict_optional_set(False):
                        return run()
                return q
            settings = [("sub", mk(False)), ("sub+ignore_type_params", mk(False, ignore_type_params=True)),
                        ("sub+ignore_pos_arg_names", mk(False, ignore_pos_arg_names=True)),
                        ("sub+ignore_declared_variance", mk(False, ignore_declared_variance=True)),
                        ("sub+always_covariant", mk(False, always_covariant=True)),
                        ("sub+ignore_promotions", mk(False, ignore_promotions=True)),
                        ("sub+no_strict_optional", mk(False, strict=False)),
                        ("proper", mk(True)), ("proper+ignore_promotions", mk(True, ignore_promotions=True)),
                        ("proper+erase_instances", mk(True, erase_instances=True)),
                        ("proper+keep_erased_types", mk(True, keep_erased_types=True)),
                        ("proper+ignore_type_params", mk(True, ignore_type_params=True)),
                        ("proper+always_covariant", mk(True, always_covariant=True)),
                        ("proper+no_strict_optional", mk(True, strict=False))]
            ns = len(settings)
            nq = 0
            for i in range(m):
                for j in range(m):
                    cold = []
                    for _, q in settings:
                        reset()
                        cold.append(safe(q, W[i], W[j]))
                    for a in range(ns):
                        for b in range(ns):
                            if a == b or cold[a] is None or cold[b] is None:
                                continue
                            reset()
                            safe(settings[a][1], W[i], W[j])
                            got = safe(settings[b][1], W[i], W[j])
                            nq += 2
                            if got is not None and got != cold[b]:
                                v(f"cache_flags[{settings[a][0]}->{settings[b][0]}]", [i, j],
                                  f"after asking '{settings[a][0]}' the answer to '{settings[b][0]}' is {got}, with cold caches it is {cold[b]}")
            reset()
            stat["law_evaluations"] = nq
            out.update(stat)
            out["S_universe"] = m
            out["violations"] = viol
            out["exception_samples"] = exc
            out["flag_settings"] = [n for n, _ in settings]
            print("C08-RESULT " + json.dumps(out, default=str))
            return
        if mode == "subuni":
            # ------------------------------------------------------------------ laws inside the two sub-universes
            SUBm: dict[tuple[int, int], Any] = {}
            PROPm: dict[tuple[int, int], Any] = {}
            for lo, hi in ((0, n_tup), (n_tup, n_call), (n_call, n_proto), (n_proto, m)):
                for i in range(lo, hi):
                    for j in range(lo, hi):
                        reset()
                        SUBm[i, j] = safe(ms.is_subtype, W[i], W[j])
                        reset()
                        PROPm[i, j] = safe(ms.is_proper_subtype, W[i], W[j])
                        stat["law_evaluations"] += 2
                for i in range(lo, hi):
                    if SUBm[i, i] is False:
                        v("subtype_refl", [i], "is_subtype(t, t) is False")
                    if PROPm[i, i] is False:
                        v("proper_subtype_refl", [i], "is_proper_subtype(t, t) is False")
                    for j in range(lo, hi):
                        stat["pairs"] += 1
                        if PROPm[i, j] and SUBm[i, j] is False:
                            v("proper_implies_subtype", [i, j], "is_proper_subtype but not is_subtype")
                        if i < j:
                            su = safe(mo.make_simplified_union, [W[i], W[j]])
                            su2 = safe(mo.make_simplified_union, [W[j], W[i]])
                            raw = mt.UnionType([W[i], W[j]])
                            stat["law_evaluations"] += 6
                            if su is not None:
                                if safe(ms.is_subtype, su, raw) is False or safe(ms.is_subtype, raw, su) is False:
                                    v("simplified_union_equiv", [i, j], f"simplified={su} not equivalent to the plain union")
                                if su2 is not None and (safe(ms.is_subtype, su, su2) is False or safe(ms.is_subtype, su2, su) is False):
                                    v("simplified_union_order", [i, j], f"{su} vs {su2} (items swapped) not equivalent")
                af2 = [i for i in range(lo, hi) if anyfree[i]]
                for i in af2:
                    for j in af2:
                        if i == j:
                            continue
                        sij, pij = SUBm[i, j], PROPm[i, j]
                        if not sij and not pij:
                            continue
                        for l in af2:
                            if sij and SUBm[j, l]:
                                stat["triples_anyfree"] += 1
                                if SUBm[i, l] is False:
                                    v("subtype_trans", [i, j, l], "a <: b and b <: c but not a <: c (all Any-free)")
                            if pij and PROPm[j, l] and PROPm[i, l] is False:
                                v("proper_subtype_trans", [i, j, l], "proper: a <: b and b <: c but not a <: c (all Any-free)")
            # ---- single-step checks
            # (1) an empty-bodied subclass C(G[args]) (or a generic child instantiated accordingly) has exactly the
            #     members of G[args]: both must give the same answers against every PROTOCOL of the sub-universe
            ix = {nm: i for i, nm in enumerate(WN) if n_call <= i < n_proto}
            for sub_nm, base_nm in PROTO_SAME:
                a, b = ix[sub_nm], ix[base_nm]
                for j in range(n_call, n_proto):
                    pj = mt.get_proper_type(W[j])
                    if not (isinstance(pj, mt.Instance) and pj.type.is_protocol):
                        continue
                    stat["law_evaluations"] += 2
                    if SUBm[a, j] is not None and SUBm[b, j] is not None and SUBm[a, j] != SUBm[b, j]:
                        v("inherited_member_step", [a, b, j], f"C inherits every member from B unchanged, but is_subtype(C, P)={SUBm[a, j]} "
                                                               f"and is_subtype(B, P)={SUBm[b, j]}")
                    if PROPm[a, j] is not None and PROPm[b, j] is not None and PROPm[a, j] != PROPm[b, j]:
                        v("inherited_member_step", [a, b, j], f"proper: is_proper_subtype(C, P)={PROPm[a, j]} and is_proper_subtype(B, P)={PROPm[b, j]}")
            # (2) a fixed tuple is below G[X] (G a covariant typeshed supertype of tuple) iff every item is below X,
            #     and always below Sized / Hashable / object
            for i in range(n_proto, m):
                ti = mt.get_proper_type(W[i])
                if not isinstance(ti, mt.TupleType) or any(isinstance(x, mt.UnpackType) for x in ti.items):
                    continue
                for j in range(n_proto, m):
                    rj = mt.get_proper_type(W[j])
                    if not isinstance(rj, mt.Instance):
                        continue
                    if len(rj.args) == 1 and rj.type.name in TUPLE_SUPERS_GEN:
                        reset()
                        want = all(safe(ms.is_subtype, x, rj.args[0]) for x in ti.items)
                    elif not rj.args:
                        want = True
                    else:
                        continue
                    stat["law_evaluations"] += 1
                    if SUBm[i, j] is not None and SUBm[i, j] != want:
                        v("tuple_super_step", [i, j], f"is_subtype={SUBm[i, j]} but 'every item is a subtype of the argument' is {want}")
            reset()
            out.update(stat)
            out["S_universe"] = m
            out["S_sub_universes"] = {"tuples": n_tup, "callables": n_call - n_tup, "protocols": n_proto - n_call, "tuple_supers": m - n_proto}
            out["S_anyfree"] = sum(1 for x in anyfree if x)
            out["violations"] = viol
            out["exception_samples"] = exc
            print("C08-RESULT " + json.dumps(out, default=str))
            return
        # subtype matrix, cold and warm
        SUB = [[None] * m for _ in range(m)]
        PROP = [[None] * m for _ in range(m)]
        for i in range(m):
            for j in range(m):
                reset()
                SUB[i][j] = safe(ms.is_subtype, W[i], W[j])
                reset()
                PROP[i][j] = safe(ms.is_proper_subtype, W[i], W[j])
        # warm pass (no reset; other kinds interleaved)
        reset()
        order = [(i, j) for i in range(m) for j in range(m)]
        rng.shuffle(order)
        for (i, j) in order:
            safe(ms.is_proper_subtype, W[i], W[j], ignore_promotions=True)
            a = safe(ms.is_subtype, W[i], W[j])
            b = safe(ms.is_proper_subtype, W[i], W[j])
            stat["law_evaluations"] += 2
            if a is not None and SUB[i][j] is not None and a != SUB[i][j]:
                v("cache_is_subtype", [i, j], f"cold={SUB[i][j]} warm={a}")
            if b is not None and PROP[i][j] is not None and b != PROP[i][j]:
                v("cache_is_proper_subtype", [i, j], f"cold={PROP[i][j]} warm={b}")
        reset()
        for i in range(m):
            stat["law_evaluations"] += 1
            if SUB[i][i] is False:
                v("subtype_refl", [i], "is_subtype(t, t) is False")
            if PROP[i][i] is False:
                v("proper_subtype_refl", [i], "is_proper_subtype(t, t) is False")
            for j in range(m):
                stat["pairs"] += 1
                stat["law_evaluations"] += 4
                if PROP[i][j] and SUB[i][j] is False:
                    v("proper_implies_subtype", [i, j], "is_proper_subtype but not is_subtype")
                jn = safe(mj.join_types, W[i], W[j])
                if jn is not None:
                    if safe(ms.is_subtype, W[i], jn) is False:
                        v("join_upper_l", [i, j], f"join={jn}: left is not a subtype of the join")
                    if safe(ms.is_subtype, W[j], jn) is False:
                        v("join_upper_r", [i, j], f"join={jn}: right is not a subtype of the join")
                mtt = safe(mm.meet_types, W[i], W[j])
                if mtt is not None:
                    if safe(ms.is_subtype, mtt, W[i]) is False:
                        v("meet_lower_l", [i, j], f"meet={mtt}: meet is not a subtype of left")
                    if safe(ms.is_subtype, mtt, W[j]) is False:
                        v("meet_lower_r", [i, j], f"meet={mtt}: meet is not a subtype of right")
                if i < j:
                    jn2 = safe(mj.join_types, W[j], W[i])
                    if jn is not None and jn2 is not None:
                        if safe(ms.is_subtype, jn, jn2) is False or safe(ms.is_subtype, jn2, jn) is False:
                            v("join_comm_equiv", [i, j], f"join(l,r)={jn} join(r,l)={jn2} not equivalent")
                    mt2 = safe(mm.meet_types, W[j], W[i])
                    if mtt is not None and mt2 is not None:
                        if safe(ms.is_subtype, mtt, mt2) is False or safe(ms.is_subtype, mt2, mtt) is False:
                            v("meet_comm_equiv", [i, j], f"meet(l,r)={mtt} meet(r,l)={mt2} not equivalent")
                    su = safe(mo.make_simplified_union, [W[i], W[j]])
                    su2 = safe(mo.make_simplified_union, [W[j], W[i]])
                    raw = mt.UnionType([W[i], W[j]])
                    if su is not None:
                        if safe(ms.is_subtype, su, raw) is False or safe(ms.is_subtype, raw, su) is False:
                            v("simplified_union_equiv", [i, j], f"simplified={su} not equivalent to the plain union")
                        if su2 is not None and (safe(ms.is_subtype, su, su2) is False or safe(ms.is_subtype, su2, su) is False):
                            v("simplified_union_order", [i, j], f"{su} vs {su2} (items swapped) not equivalent")
        # directed cache-order oracle: reset, ask query p, ask query q; q must get its cold answer (recursive aliases are
        # compared under assumptions, and positive answers obtained under an assumption must not outlive it)
        R = [WN.index(nm) for nm in CACHE_ORDER_UNI if nm in WN]
        Q = [(a, b) for a in R for b in R]
        for fn, M, nm in ((ms.is_subtype, SUB, "is_subtype"), (ms.is_proper_subtype, PROP, "is_proper_subtype")):
            for (a, b) in Q:
                for (c, d) in Q:
                    if (a, b) == (c, d) or M[c][d] is None:
                        continue
                    reset()
                    safe(fn, W[a], W[b])
                    got = safe(fn, W[c], W[d])
                    stat["law_evaluations"] += 1
                    if got is not None and got != M[c][d]:
                        v("cache_after_query", [a, b, c, d], f"{nm}: after asking (t1, t2) the answer for (t3, t4) is {got}, with cold caches it is {M[c][d]}", key_ixs=[c, d])
        reset()
        # cache keys are compared with Type.__eq__ (unions as sets): types that are == must get the same answers,
        # otherwise a cache hit for one of them would change the answer for the other
        for i in range(m):
            for j in range(i + 1, m):
                try:
                    same = W[i] == W[j] and str(W[i]) != str(W[j])
                except Exception:  # noqa
                    same = False
                if not same:
                    continue
                stat["law_evaluations"] += 2 * m
                for l in range(m):
                    if SUB[i][l] != SUB[j][l] or PROP[i][l] != PROP[j][l]:
                        v("eq_invariance", [i, j, l], f"a == b (as cache keys) but is_subtype(a, c)={SUB[i][l]} and is_subtype(b, c)={SUB[j][l]}")
                    if SUB[l][i] != SUB[l][j] or PROP[l][i] != PROP[l][j]:
                        v("eq_invariance", [l, i, j], f"b == c (as cache keys) but is_subtype(a, b)={SUB[l][i]} and is_subtype(a, c)={SUB[l][j]}")
        # transitivity on Any-free triples, from the cold matrix
        af = [i for i in range(m) if anyfree[i]]
        for i in af:
            for j in af:
                if not SUB[i][j] or i == j:
                    continue
                for l in af:
                    if SUB[j][l] and SUB[i][l] is False:
                        stat["triples_anyfree"] += 1
                        v("subtype_trans", [i, j, l], "a <: b and b <: c but not a <: c (all Any-free)")
                    elif SUB[j][l]:
                        stat["triples_anyfree"] += 1
        for i in af:
            for j in af:
                if not PROP[i][j] or i == j:
                    continue
                for l in af:
                    if PROP[j][l] and PROP[i][l] is False:
                        v("proper_subtype_trans", [i, j, l], "proper: a <: b and b <: c but not a <: c (all Any-free)")
        # ---- guards of Properties.subtype_trans_guarded / meet_lower_guarded / meet_comm_equiv_guarded, evaluated by the
        # EXTRACTED functions on the real class table; a type without a model term is outside the guard by definition
        terms = [tok(W[i]) for i in range(m)]
        mod = [i for i in range(m) if terms[i] is not None]
        gstat = {"table_guard": run_model(["tableguard"])[0] == "true", "types_modelled": len(mod)}
        tgv = run_model(["typeguard " + " ".join(terms[i]) for i in mod])     # type: ignore[arg-type]
        gstat["types_type_guard_true"] = sum(1 for x in tgv if x == "true")
        prem = [(i, j, l) for i in mod for j in mod if i != j and SUB[i][j] for l in mod if SUB[j][l] and SUB[i][l] is not None]
        gres = run_model(["transguard " + " ".join(terms[i] + terms[j] + terms[l]) for (i, j, l) in prem])   # type: ignore[operator]
        gstat["trans_triples_premises_true_modelled"] = len(prem)
        gstat["trans_triples_guard_true"] = sum(1 for x in gres if x == "true")
        gstat["trans_counterexamples_modelled"] = sum(1 for (i, j, l) in prem if SUB[i][l] is False)
        gstat["trans_triples_premises_true_modelled_anyfree"] = sum(1 for (i, j, l) in prem if anyfree[i] and anyfree[j] and anyfree[l])
        gstat["trans_counterexamples_modelled_anyfree"] = sum(1 for (i, j, l) in prem if SUB[i][l] is False and anyfree[i] and anyfree[j] and anyfree[l])
        gstat["trans_counterexamples_guard_true"] = 0
        for (i, j, l), g in zip(prem, gres):
            if g == "true" and SUB[i][l] is False:
                gstat["trans_counterexamples_guard_true"] += 1
                v("trans_guard_counterexample", [i, j, l], "trans_guard holds, a <: b and b <: c but not a <: c: contradicts Properties.subtype_trans_guarded")
        # counterexamples with a type outside the modelled language (guard false by definition)
        gstat["trans_counterexamples_all"] = sum(1 for x in viol if x["law"] == "subtype_trans")
        mpairs = [(i, j) for i in mod for j in mod]
        mres = run_model(["meetguard " + " ".join(terms[i] + terms[j]) for (i, j) in mpairs])                  # type: ignore[operator]
        mg = {pq for pq, g in zip(mpairs, mres) if g == "true"}
        gstat["meet_pairs_modelled"] = len(mpairs)
        gstat["meet_pairs_guard_true"] = len(mg)
        gstat["meet_counterexamples_all"] = 0
        gstat["meet_counterexamples_guard_true"] = 0
        for x in list(viol):
            if x["law"] in ("meet_lower_l", "meet_lower_r", "meet_comm_equiv"):
                gstat["meet_counterexamples_all"] += 1
                i, j = WN.index(x["types"][0]), WN.index(x["types"][1])
                if (i, j) in mg:
                    gstat["meet_counterexamples_guard_true"] += 1
                    v("meet_guard_counterexample", [i, j], f"meet_guard holds but {x['law']} fails: contradicts Properties.meet_lower_guarded / meet_comm_equiv_guarded")
        out["guards"] = gstat
        # replay of the Coq witness Properties.subtype_trans_refuted on real mypy
        try:
            wa, wb, wc = (U[core.index(a)] for a in ("Uno", "Union[Literal[Uno.X], NoReturn]", "Literal[Uno.X]"))
            reset()
            out["trans_witness"] = [ms.is_subtype(wa, wb), ms.is_subtype(wb, wc), ms.is_subtype(wa, wc),
                                    ms.is_proper_subtype(wa, wb), ms.is_proper_subtype(wb, wc), ms.is_proper_subtype(wa, wc)]
        except Exception as e:  # noqa
            out["trans_witness"] = repr(e)
        # replay of Properties.meet_lower_refuted: meet(Contra[float], Contra[int])
        try:
            wf_, wi = U[core.index("Contra[float]")], U[core.index("Contra[int]")]
            m1, m2 = mm.meet_types(wf_, wi), mm.meet_types(wi, wf_)
            out["meet_lower_witness"] = [str(m1), str(m2), ms.is_subtype(m1, wf_), ms.is_subtype(wf_, wi)]
        except Exception as e:  # noqa
            out["meet_lower_witness"] = repr(e)
        # replay of Properties.join_comm_equiv_refuted: D(B, C) vs H(C, B)
        try:
            wd, wh = U[core.index("D")], U[core.index("H")]
            j1, j2 = mj.join_types(wd, wh), mj.join_types(wh, wd)
            out["join_comm_witness"] = [str(j1), str(j2), ms.is_subtype(j1, j2), ms.is_subtype(j2, j1)]
        except Exception as e:  # noqa
            out["join_comm_witness"] = repr(e)
        out.update(stat)
        out["S_universe"] = m
        out["S_anyfree"] = len(af)
        out["violations"] = viol
        out["exception_samples"] = exc
    print("C08-RESULT " + json.dumps(out, default=str))


# =========================================================================================== driver

def spawn(mode: str, k: int, n: int, seed: int, tier: str) -> subprocess.Popen:  # type: ignore[type-arg]
    import vlib
    return subprocess.Popen([vlib.PY, os.path.abspath(__file__), "--worker", mode, str(k), str(n), str(seed), tier],
                            env=vlib.py_env(), stdout=subprocess.PIPE, stderr=subprocess.STDOUT, text=True)


def collect_result(p: subprocess.Popen, timeout: float) -> dict[str, Any] | str:  # type: ignore[type-arg]
    try:
        outp, _ = p.communicate(timeout=timeout)
    except subprocess.TimeoutExpired:
        p.kill()
        return "timeout"
    for line in outp.splitlines():
        if line.startswith("C08-RESULT "):
            return json.loads(line[len("C08-RESULT "):])
    return outp[-3000:]


FAMILY = {"join_upper_l": "join_upper", "join_upper_r": "join_upper", "meet_lower_l": "meet_lower", "meet_lower_r": "meet_lower",
          "cache_is_subtype": "cache", "cache_is_proper_subtype": "cache", "cache_after_query": "cache_order",
          "simplified_union_equiv": "simplified_union", "simplified_union_order": "simplified_union"}


def law_key(v: dict[str, Any]) -> str:
    """Stable identity of a class of violations: the law and the sorted multiset of the kinds of all types
    involved (all instances are kept in the replay file)."""
    fam = FAMILY.get(v["law"], v["law"])
    return "C08:" + fam + ":" + "+".join(sorted(v["kinds"]))


BASELINE = os.path.join(os.path.dirname(os.path.dirname(HERE)), "corpus", "C08", "known_instances.json")


def instance_id(v: dict[str, Any]) -> str:
    return v["law"] + " :: " + " ; ".join(v["strs"])


def load_baseline() -> dict[str, list[str]]:
    """Committed data file (never written by the check): per known class key, the exact violating instances."""
    try:
        return json.load(open(BASELINE))["instances"]
    except FileNotFoundError:
        return {}


def classify(ctx: Any, viols: list[dict[str, Any]]) -> dict[str, int]:
    """Report violations: a known class (law x kind multiset) absorbs only the instances listed in the baseline;
    any other instance of that class gets its own key `<class>#new:<hash>`."""
    import hashlib
    base = load_baseline()
    groups: dict[str, list[dict[str, Any]]] = {}
    for v in viols:
        k = law_key(v)
        if k in base and instance_id(v) not in set(base[k]):
            k = k + "#new:" + hashlib.sha1(instance_id(v).encode()).hexdigest()[:10]
        groups.setdefault(k, []).append(v)
    for key, vs in sorted(groups.items()):
        vs.sort(key=lambda v: (len(" ".join(v["strs"])), v["strs"]))
        v0 = vs[0]
        ctx.violation(key, f"{v0['law']} violated ({len(vs)} instances), e.g. on {v0['strs']}: {v0['detail']}",
                      {"instances": vs[:10], "n": len(vs)})
    seen = {instance_id(v) for v in viols}
    gone = sum(1 for k, ids in base.items() for i in ids if i not in seen)
    ctx.cov["S_baseline_instances"] = sum(len(x) for x in base.values())
    ctx.cov["S_baseline_instances_not_reproduced"] = gone
    ctx.cov["S_instances_outside_baseline"] = sum(len(vs) for k, vs in groups.items() if "#new:" in k or law_key(vs[0]) not in base)
    return {k2: len(v2) for k2, v2 in groups.items()}


def s_violations(seed: int, tier: str, timeout: float) -> tuple[list[dict[str, Any]], dict[str, Any], list[str]]:
    """Run the three S workers; return all violation instances, the results by mode, and failures."""
    procs = {md: spawn(md, 0, 1, seed, tier) for md in ("laws", "flags", "subuni")}
    res: dict[str, Any] = {}
    fails = []
    viols: list[dict[str, Any]] = []
    for md, p in procs.items():
        r = collect_result(p, timeout)
        if not isinstance(r, dict):
            fails.append(f"{md}: {r}")
            continue
        res[md] = r
        viols += r["violations"]
    return viols, res, fails


def write_baseline() -> None:
    """Maintenance command (python tools/harness/C08.py --write-baseline): regenerate the baseline from the tree given
    by VERIF_REPO for seeds 0,1,2; refuses to write if the seeds disagree."""
    sets = []
    for sd in (0, 1, 2):
        viols, _, fails = s_violations(sd, "quick", 3000)
        if fails:
            raise SystemExit("worker failed: " + str(fails))
        d: dict[str, set[str]] = {}
        for v in viols:
            d.setdefault(law_key(v), set()).add(instance_id(v))
        sets.append(d)
    if not (sets[0] == sets[1] == sets[2]):
        raise SystemExit("seeds 0,1,2 disagree; baseline not written")
    os.makedirs(os.path.dirname(BASELINE), exist_ok=True)
    with open(BASELINE, "w") as f:
        json.dump({"comment": "C08: exact violating instances of the known finding classes on the unchanged tree "
                              "(law :: canonical type strings); generated by tools/harness/C08.py --write-baseline",
                   "instances": {k: sorted(x) for k, x in sorted(sets[0].items())}}, f, indent=1)
    print("written", BASELINE, "classes", len(sets[0]), "instances", sum(len(x) for x in sets[0].values()))


def run(ctx: Any) -> None:
    import vlib
    ctx.cov["rule"] = ("universe = annotation strings (atoms, every generic class applied to 13 arguments, seeded unions/tuples, "
                       "seeded random depth<=3) analysed by a real mypy build; C compares 7 operations on ALL ordered pairs of "
                       "in-fragment types (cold and polluted caches) + simplified unions of random triples in all 6 orders; "
                       "a case is non-trivial when join/meet/union returns neither argument or is_subtype holds between "
                       "different types; S evaluates the laws on real mypy over core subset + exotic kinds, all pairs, all Any-free triples")
    ctx.assumptions += [
        "model hand-written from mypy/subtypes.py, join.py, meet.py, typeops.py, typestate.py; tied by correspondence on the fixture universe only",
        "fuel: model functions return None when out of fuel (depth 64 in the driver); theorems are statements about defined answers; "
        "on fragment F1 definedness is proved (fuel_sufficient_partial) from chains_ok, which is evaluated on the real class table",
        "fragments: F1 = None, Never, non-generic non-protocol classes other than bool/enums, their literals, flat unions of these; "
        "F1up = F1 with all ancestors plain; F2 = None, Never, generic instances with per-parameter variance (unbounded nesting), "
        "promotions, literals incl. bool/enum with the contraction rule, flat unions; family X2 (excluded from transitivity / "
        "simplified-union theorems) = literals of bool/enum whose value is not a member or whose class has < 2 distinct members; "
        "the numbers of universe types inside are reported (universe_types_in_fragment_*); the boolean hypotheses wf_ct, wf_gen, "
        "wf_contr, chains_ok are evaluated on the real class table by the extracted code",
        "family X3 (excluded from meet_lower_F2) = types mentioning a class with an invariant or contravariant parameter",
        "F2 theorems hold for the kinds is_subtype(...) without ignore_type_params and is_proper_subtype(ignore_promotions=True); "
        "is_proper_subtype with promotions is covered on F1 only",
        "not modelled: protocols/structural subtyping (cases that reach is_protocol_implementation are counted and skipped), "
        "last_known_value, extra_attrs, TypeVars, callables, Type[...], TypedDict, variadic tuples, named tuples, recursive aliases, "
        "InstanceJoiner.seen_instances recursion guard, alt_promote (native ints), strict_optional=False",
        "extraction: ExtrOcamlBasic; OCaml driver tools/ocaml/c08_driver.ml (I/O only)",
    ]
    # T: which flags enter the subtype-cache key (regenerates coq/gen/SubtypeKind.v, fail-closed)
    try:
        from extractors import t08
        t08.generate()
    except Exception as e:  # noqa
        ctx.broke("T", "t08 SubtypeKind extractor", repr(e))
    # P + A
    ctx.prove("C08/Properties.v", ["C08", "Types", "gen", "lib"])
    # model
    exe = vlib.build_extracted("c08", "C08/Extract.v", "tools/ocaml/c08_driver.ml")
    if exe is None:
        ctx.broke("C", "extraction", "building the extracted model failed")
        return
    nw = 10
    t = time.time()
    procs = [spawn("pairs", k, nw, ctx.seed, ctx.tier) for k in range(nw)]
    procs_s = {md: spawn(md, 0, 1, ctx.seed, ctx.tier) for md in ("laws", "flags", "subuni")}
    tot: dict[str, int] = {}
    n_mism = 0
    for k, p in enumerate(procs):
        r = collect_result(p, 900 if ctx.quick else 1700)
        if not isinstance(r, dict):
            ctx.broke("C", f"worker {k}", str(r))
            continue
        if r.get("errors"):
            ctx.broke("C", "fixture", "fixture does not type-check cleanly: " + str(r["errors"]))
        for key in ("compared", "structural_skipped", "result_outside", "true_sub", "nontrivial", "pairs", "simpl3_compared"):
            tot[key] = tot.get(key, 0) + int(r.get(key, 0))
        n_mism += r["n_mismatches"]
        for mmm in r["mismatches"][:5]:
            ctx.broke("C", f"{mmm['op']} model != mypy", json.dumps(mmm), mmm)
        for cv in r["cache_violations"]:
            ctx.violation(f"C08:cache:{cv['op']}:{cv['left']} ; {cv['right']}",
                          f"{cv['op']}({cv['left']}, {cv['right']}) depends on the subtype caches: cold={cv['cold']} warm={cv['warm']}", cv)
        if k == 0:
            ctx.cov["universe_types"] = r["universe"]
            ctx.cov["universe_outside_modelled_language"] = r["outside_fragment"]
            ctx.cov["classes_in_table"] = r["classes"]
            ctx.cov["classes_outside_fragment"] = r["bad_classes"]
            ctx.sample(r.get("sample"))
            ctx.cov["universe_types_in_fragment_F1"] = r.get("in_frag1")
            ctx.cov["universe_types_in_fragment_F1up"] = r.get("in_frag_up")
            ctx.cov["class_table_wf_ct"] = r.get("wf")
            ctx.cov["class_table_wf_gen"] = r.get("wf_gen")
            ctx.cov["universe_types_in_fragment_F2"] = r.get("in_frag2")
            ctx.cov["universe_types_in_F2_outside_family_X2"] = r.get("in_frag2_lits_ok")
            ctx.cov["universe_types_in_F2_outside_family_X1"] = r.get("in_frag2_no_contr")
            ctx.cov["universe_types_in_F2_outside_families_X2_X3"] = r.get("in_frag2_x2_x3")
            ctx.cov["class_table_wf_contr"] = r.get("wf_contr")
            if r.get("wf_contr") != "true":
                ctx.broke("C", "wf_contr", "the extracted predicate wf_contr rejects the real class table")
            nf2 = r.get("not_in_frag2") or []

            def why(a: str) -> str:
                import re
                if re.search(r"\bAny\b", a):
                    return "contains Any"
                if "Tuple[" in a and not re.search(r"Tuple\[[^\[\]]*, \.\.\.\]$", a):
                    return "fixed tuple"
                if "NoReturn" in a:
                    return "Never inside a union"
                return "other (protocol class / nested union)"
            cats: dict[str, int] = {}
            for a in nf2:
                cats[why(a)] = cats.get(why(a), 0) + 1
            ctx.cov["universe_types_outside_F2_by_reason"] = cats
            if r.get("wf_gen") != "true":
                ctx.broke("C", "wf_gen", "the extracted coherence/variance predicate wf_gen rejects the real class table: "
                          "the hypotheses of subtype_trans_F2 do not hold for it")
            ctx.cov["class_table_chains_ok_3"] = r.get("chains_ok_3")
            if r.get("chains_ok_3") != "true":
                ctx.broke("C", "chains_ok", "promotion chains of the real class table are longer than 3: the fuel bound of "
                          "fuel_sufficient_partial (driver fuel 64 > 3 + 3) is not established for it")
            if r.get("wf") != "true":
                ctx.broke("C", "wf_ct", "the extracted well-formedness predicate rejects the class table of the real fixture")
    ctx.cov.update({"C_" + k2: v2 for k2, v2 in tot.items()})
    ctx.add("evaluations", 2 * 7 * tot.get("pairs", 0) + tot.get("simpl3_compared", 0))
    ctx.add("traces_validated_against_impl", tot.get("compared", 0) + tot.get("simpl3_compared", 0))
    ctx.cov["distinct_nontrivial"] = tot.get("nontrivial", 0) + tot.get("true_sub", 0)
    ctx.log(f"C: {tot} mismatches={n_mism} ({time.time()-t:.1f}s)")
    # S
    all_viol: list[dict[str, Any]] = []
    for md, p in procs_s.items():
        r = collect_result(p, 900 if ctx.quick else 1700)
        if not isinstance(r, dict):
            ctx.broke("S", md + " worker", str(r))
            continue
        all_viol += r["violations"]
        ctx.add("evaluations", r["law_evaluations"] + r["triples_anyfree"])
        ctx.cov[f"S_{md}_universe"] = r["S_universe"]
        ctx.cov[f"S_{md}_evaluations"] = r["law_evaluations"] + r["triples_anyfree"]
        ctx.cov[f"S_{md}_exceptions"] = r["exceptions"]
        ctx.log(f"S[{md}]: universe={r['S_universe']} evaluations={r['law_evaluations']} triples={r['triples_anyfree']} "
                f"violations={len(r['violations'])} exceptions={r['exceptions']} ({time.time()-t:.1f}s)")
        if md == "flags":
            ctx.cov["S_flag_settings"] = r.get("flag_settings")
        if md == "subuni":
            ctx.cov["S_sub_universes"] = r.get("S_sub_universes")
        if md == "laws":
            g = r.get("guards") or {}
            ctx.cov["guards_evaluated_by_extracted_code"] = g
            if not g.get("table_guard"):
                ctx.broke("C", "table_guard", "the table part of trans_guard / meet_guard is false on the real class table: "
                                               "the guarded theorems say nothing about this build")
            ctx.log(f"guards: {g}")
        if md != "laws":
            continue
        ctx.cov["S_universe"] = r["S_universe"]
        ctx.cov["trans_refuted_witness_on_mypy"] = r.get("trans_witness")
        ctx.cov["meet_lower_refuted_witness_on_mypy"] = r.get("meet_lower_witness")
        if r.get("meet_lower_witness") != ["c08fx.Contra[int]", "c08fx.Contra[int]", False, True]:
            ctx.broke("C", "meet_lower_refuted replay",
                      f"the model's counterexample meet(Contra[float], Contra[int]) = Contra[int] does not behave the same on mypy: {r.get('meet_lower_witness')}")
        ctx.cov["join_comm_refuted_witness_on_mypy"] = r.get("join_comm_witness")
        if r.get("join_comm_witness") != ["c08fx.B", "c08fx.C", False, False]:
            ctx.broke("C", "join_comm_equiv_refuted replay",
                      f"the model's counterexample join(D,H)=B / join(H,D)=C does not behave the same on mypy: {r.get('join_comm_witness')}")
        if r.get("trans_witness") != [True, True, False, True, True, False]:
            ctx.broke("C", "subtype_trans_refuted replay",
                      f"the model's transitivity counterexample (Uno <: Literal[Uno.X]|Never <: Literal[Uno.X]) does not behave the same on mypy: {r.get('trans_witness')}")
        ctx.cov["S_anyfree"] = r["S_anyfree"]
        ctx.cov["S_exception_samples"] = r["exception_samples"][:3]
        ctx.sample({"S_law_sample": "join_upper_l/r, meet_lower_l/r, simplified_union_equiv on all pairs", "universe": r["S_universe"]})
    ctx.cov["S_violation_groups"] = classify(ctx, all_viol)


def replay(ctx: Any, path: str) -> None:
    """Re-evaluate a recorded law violation on the current tree."""
    data = json.load(open(path))
    viols, _, fails = s_violations(data.get("seed", 0), data.get("tier", "quick"), 1700)
    for fmsg in fails:
        ctx.broke("S", "replay", fmsg)
    want = data.get("key", "")
    ids = {instance_id(x) for x in data.get("replay", {}).get("instances", [])}
    for v in viols:
        if law_key(v) == want.split("#new:")[0] and (not ids or instance_id(v) in ids):
            ctx.violation(want, f"{v['law']} violated on {v['strs']}: {v['detail']}", v)
            return
    ctx.log("replay: the recorded violation does not reproduce")


if __name__ == "__main__":
    if len(sys.argv) == 2 and sys.argv[1] == "--write-baseline":
        write_baseline()
    if len(sys.argv) >= 7 and sys.argv[1] == "--worker":
        worker(sys.argv[2], int(sys.argv[3]), int(sys.argv[4]), int(sys.argv[5]), sys.argv[6])
