"""C03 — the daemon's fine-grained updates equal a full check after every edit.

T  -                (hand-written model: coq/C03/Model.v)
P+A coq/C03/Properties.v
C  in-process daemon (mypy.dmypy_server.Server) driven through edit histories; update.py is
   instrumented from outside (monkey-patching in the child); every call of find_targets_recursive
   and of propagate_changes_using_dependencies is replayed on the Coq model (vm_compute) with the
   OBSERVED deps map and the observed answers of reprocess_nodes; contract monitors.
S  after EVERY step: daemon diagnostics + status  ==  fresh non-incremental mypy.build.build in a
   clean process on the files as they are (same options).

This file is also the child program:  python C03.py --worker   (reads a JSON job on stdin).
"""
from __future__ import annotations

import io
import json
import os
import re
import shutil
import struct
import subprocess
import sys
import tempfile
import time
import traceback
from typing import Any

HERE = os.path.dirname(os.path.abspath(__file__))

# ====================================================================== child side (imports mypy)

BUILTINS_FIXTURE = '''
import _typeshed
from typing import (Generic, Iterator, Iterable, Sequence, Mapping, TypeVar, Tuple, Union, Optional,
                    Any, Callable, overload)
_T = TypeVar('_T')
_KT = TypeVar('_KT')
_VT = TypeVar('_VT')
class object:
    def __init__(self) -> None: pass
    def __eq__(self, o: object) -> bool: pass
    def __ne__(self, o: object) -> bool: pass
class type:
    def __init__(self, x: object) -> None: pass
    def __call__(self, *a: Any, **kw: Any) -> Any: pass
class int:
    def __init__(self, x: object = ...) -> None: pass
    def __add__(self, other: int) -> int: pass
    def __sub__(self, other: int) -> int: pass
    def __mul__(self, other: int) -> int: pass
    def __neg__(self) -> int: pass
    def __lt__(self, other: int) -> bool: pass
    def __gt__(self, other: int) -> bool: pass
class float:
    def __add__(self, other: float) -> float: pass
class complex: pass
class bool(int): pass
class str:
    def __init__(self, x: object = ...) -> None: pass
    def __add__(self, other: str) -> str: pass
    def upper(self) -> str: pass
    def __len__(self) -> int: pass
class bytes: pass
class function:
    __name__: str
class ellipsis: pass
class tuple(Sequence[_T], Generic[_T]):
    def __getitem__(self, x: int) -> _T: pass
    def __iter__(self) -> Iterator[_T]: pass
class list(Sequence[_T], Generic[_T]):
    def __init__(self) -> None: pass
    def __contains__(self, item: object) -> bool: pass
    def __getitem__(self, key: int) -> _T: pass
    def __iter__(self) -> Iterator[_T]: pass
    def __len__(self) -> int: pass
    def append(self, x: _T) -> None: pass
class dict(Mapping[_KT, _VT]):
    def __init__(self) -> None: pass
    def __getitem__(self, key: _KT) -> _VT: pass
    def __setitem__(self, k: _KT, v: _VT) -> None: pass
    def __iter__(self) -> Iterator[_KT]: pass
    def __len__(self) -> int: pass
class property(object):
    def __init__(self, fget: Any = ...) -> None: pass
    def setter(self, f: Any) -> Any: pass
class classmethod: pass
class staticmethod: pass
class BaseException: pass
class Exception(BaseException): pass
def isinstance(x: object, t: Union[type, Tuple[type, ...]]) -> bool: pass
def len(x: object) -> int: pass
def print(*a: object) -> None: pass
'''

T0 = 1_500_000_000


def _send(fd: int, obj: Any) -> None:
    b = json.dumps(obj).encode()
    os.write(fd, struct.pack("<I", len(b)))
    off = 0
    while off < len(b):
        off += os.write(fd, b[off:off + 65536])


def _recv(fd: int) -> Any:
    def rd(n: int) -> bytes:
        buf = b""
        while len(buf) < n:
            c = os.read(fd, n - len(buf))
            if not c:
                raise EOFError
            buf += c
        return buf
    (n,) = struct.unpack("<I", rd(4))
    return json.loads(rd(n).decode())


def make_options(h: dict[str, Any], daemon: bool):
    """The SAME options for the daemon and for the fresh run, except what Server.__init__ itself
    forces (incremental / fine_grained_incremental / cache_dir) and incremental=False for the oracle."""
    import mypy.main
    flags = list(h.get("flags", []))
    flags += ["--no-error-summary", "--hide-error-context", "--no-color-output", "--no-pretty",
              "--follow-imports=" + h.get("follow", "error")]
    if daemon:
        from mypy.dmypy_server import process_start_options
        opts = process_start_options(flags, allow_sources=False)
    else:
        _, opts = mypy.main.process_options(flags + ["--no-incremental"], require_targets=False,
                                            server_options=True)
        opts.incremental = False
        opts.cache_dir = os.devnull
        opts.local_partial_types = True     # forced by the daemon (documented requirement of dmypy)
    if h.get("lib", "fixture") == "fixture":
        opts.use_builtins_fixtures = True
    for k, v in h.get("opt_attrs", {}).items():
        setattr(opts, k, v)
    opts.show_traceback = True
    return opts


def make_sources(h: dict[str, Any], opts, fscache=None):
    """BuildSources for the command as it would be typed now: h['cmd'] lists paths (files that do
    not exist at the moment are left out); the special entry 'main:<path>' is a program file
    checked as module __main__ (layout of mypy's own test cases)."""
    from mypy.find_sources import create_source_list
    from mypy.modulefinder import BuildSource
    srcs = []
    paths = []
    for c in h["cmd"]:
        if c.startswith("main:"):
            srcs.append(BuildSource(c[5:], "__main__", None))
        elif c == "@all":
            for root, _dirs, files in os.walk("."):
                for f in sorted(files):
                    if f.endswith((".py", ".pyi")):
                        paths.append(os.path.normpath(os.path.join(root, f)))
        elif os.path.exists(c):
            paths.append(c)
    paths = sorted(set(paths))
    if paths:
        srcs += create_source_list(paths, opts, fscache)
    return srcs


def status_of(messages: list[str], blockers: bool) -> int:
    # mypy/main.py: run_build + main: `if messages and n_notes < len(messages): code = 2 if blockers else 1`
    from mypy.util import count_stats
    _, n_notes, _ = count_stats(messages)
    if messages and n_notes < len(messages):
        return 2 if blockers else 1
    return 0


def fresh_run(h: dict[str, Any]) -> dict[str, Any]:
    """mypy.build.build with incremental off, in a process that has never built anything."""
    import mypy.build
    from mypy.errors import CompileError
    from mypy.fscache import FileSystemCache
    opts = make_options(h, daemon=False)
    fsc = FileSystemCache()
    try:
        srcs = make_sources(h, opts, fsc)
    except Exception as e:  # InvalidSourceList
        return {"msgs": [f"<source-list> {e}"], "status": 2, "targets": None}
    blockers = False
    per_target = None
    try:
        res = mypy.build.build(srcs, opts, fscache=fsc)
        msgs = list(res.errors)
        if h.get("monitor"):
            per_target = {}
            for path, infos in res.manager.errors.error_info_map.items():
                for info in infos:
                    if info.hidden:
                        continue
                    per_target.setdefault(info.target or "?", []).append(
                        f"{info.line}:{info.severity}:{info.message}")
    except CompileError as e:
        msgs = list(e.messages)
        blockers = True
    return {"msgs": msgs, "status": status_of(msgs, blockers), "targets": per_target}


def oracle_server(rfd: int, wfd: int) -> None:
    """Clean process: for every request fork a grandchild that performs one fresh build."""
    while True:
        try:
            req = _recv(rfd)
        except EOFError:
            os._exit(0)
        r, w = os.pipe()
        pid = os.fork()
        if pid == 0:
            os.close(r)
            try:
                out = fresh_run(req)
            except BaseException:
                out = {"crash": traceback.format_exc()[-3000:]}
            _send(w, out)
            os._exit(0)
        os.close(w)
        try:
            out = _recv(r)
        except EOFError:
            out = {"crash": "oracle child died"}
        os.close(r)
        os.waitpid(pid, 0)
        _send(wfd, out)


def apply_step(step: dict[str, Any], k: int) -> None:
    for p in step.get("delete", []):
        if os.path.isdir(p):
            shutil.rmtree(p)
        elif os.path.exists(p):
            os.remove(p)
    for p, text in step.get("write", {}).items():
        d = os.path.dirname(p)
        if d:
            os.makedirs(d, exist_ok=True)
        with open(p, "w", encoding="utf8") as f:
            f.write(text)
        # explicit mtime discipline: every write moves the mtime forward by whole seconds
        os.utime(p, (T0 + 10 * k, T0 + 10 * k))


class Recorder:
    """Instrumentation of mypy.server.update from outside (no change to /repo)."""

    def __init__(self) -> None:
        self.calls: list[dict[str, Any]] = []      # propagate calls of the current step
        self.cur: dict[str, Any] | None = None
        self.in_ftr = False
        self.ftr: dict[str, Any] | None = None
        self.enabled = False

    def install(self) -> None:
        import mypy.server.update as U
        rec = self
        orig_prop, orig_ftr, orig_lookup, orig_rep = (U.propagate_changes_using_dependencies,
                                                      U.find_targets_recursive, U.lookup_target,
                                                      U.reprocess_nodes)

        def prop(manager, graph, deps, triggered, up_to_date_modules, targets_with_errors, processed_targets):
            if not rec.enabled:
                return orig_prop(manager, graph, deps, triggered, up_to_date_modules, targets_with_errors, processed_targets)
            call = {"F": sorted(triggered), "U": sorted(up_to_date_modules), "E": sorted(targets_with_errors),
                    "deps0": {k: sorted(v) for k, v in deps.items()} if rec.want_deps else None,
                    "iters": []}
            outer, rec.cur = rec.cur, call
            try:
                return orig_prop(manager, graph, deps, triggered, up_to_date_modules, targets_with_errors, processed_targets)
            finally:
                rec.cur = outer
                rec.calls.append(call)

        def ftr(manager, graph, triggers, deps, up_to_date_modules):
            if not rec.enabled or rec.cur is None:
                return orig_ftr(manager, graph, triggers, deps, up_to_date_modules)
            it = {"triggers": sorted(triggers), "U": sorted(up_to_date_modules), "looked": [], "err_looked": [],
                  "graph": sorted(graph.keys()),
                  "deps": {k: sorted(v) for k, v in deps.items()} if rec.want_deps else None,
                  "groups": []}
            rec.cur["iters"].append(it)
            rec.in_ftr = True
            try:
                res = orig_ftr(manager, graph, triggers, deps, up_to_date_modules)
            finally:
                rec.in_ftr = False
            it["unloaded"] = sorted(res[1])
            return res

        def lookup(manager, target, module_id):
            res = orig_lookup(manager, target, module_id)
            if rec.enabled and rec.cur is not None and rec.cur["iters"]:
                it = rec.cur["iters"][-1]
                names = []
                for d in res[0]:
                    n = U.target_from_node(module_id, d.node)
                    names.append(n if n is not None else "?" + d.node.fullname)
                (it["looked"] if rec.in_ftr else it["err_looked"]).append([target, module_id, names])
            return res

        def rep(manager, graph, module_id, nodeset, deps, processed_targets):
            if not rec.enabled or rec.cur is None or not rec.cur["iters"]:
                return orig_rep(manager, graph, module_id, nodeset, deps, processed_targets)
            before = {k: set(v) for k, v in deps.items()} if rec.want_deps else None
            n0 = len(processed_targets)
            fired = orig_rep(manager, graph, module_id, nodeset, deps, processed_targets)
            nodes = []
            for d in nodeset:
                n = U.target_from_node(module_id, d.node)
                nodes.append(n if n is not None else "?" + d.node.fullname)
            new = None
            if before is not None:
                new = {}
                for k, v in deps.items():
                    add = v - before.get(k, set())
                    if add:
                        new[k] = sorted(add)
            rec.cur["iters"][-1]["groups"].append({"module": module_id, "nodes": sorted(nodes),
                                                   "in_graph": module_id in graph,
                                                   "processed": list(processed_targets[n0:]),
                                                   "fired": sorted(fired), "new_deps": new})
            return fired

        U.propagate_changes_using_dependencies = prop
        U.find_targets_recursive = ftr
        U.lookup_target = lookup
        U.reprocess_nodes = rep

        orig_update = U.FineGrainedBuildManager.update

        def upd(self, changed_modules, removed_modules, followed=False):
            try:
                return orig_update(self, changed_modules, removed_modules, followed)
            finally:
                # one request makes several update() calls when imports are followed; each call clears these lists
                rec.acc_processed += list(self.processed_targets)
                rec.acc_updated += list(self.updated_modules) if changed_modules or removed_modules else []
                rec.acc_changed += [m for m, _ in self.changed_modules]
                rec.acc_triggered |= set(self.triggered)
        U.FineGrainedBuildManager.update = upd

    acc_processed: list = []
    acc_updated: list = []
    acc_changed: list = []
    acc_triggered: set = set()

    want_deps = False


def stored_errors_by_target(server) -> dict[str, list[str]]:
    out: dict[str, list[str]] = {}
    fgm = server.fine_grained_manager
    if fgm is None:
        return out
    for path, infos in fgm.manager.errors.error_info_map.items():
        for info in infos:
            if info.hidden:
                continue
            out.setdefault(info.target or "?", []).append(f"{info.line}:{info.severity}:{info.message}")
    return out


def run_history(h: dict[str, Any]) -> dict[str, Any]:
    """Runs in a forked child with clean mypy state.  Returns the per-step observations."""
    tmp = tempfile.mkdtemp(prefix="c03-")
    out: dict[str, Any] = {"id": h.get("id"), "steps": []}
    opid = None
    try:
        os.chdir(tmp)
        # oracle server forked before anything is built here
        r1, w1 = os.pipe()
        r2, w2 = os.pipe()
        opid = os.fork()
        if opid == 0:
            os.close(w1)
            os.close(r2)
            try:
                oracle_server(r1, w2)
            finally:
                os._exit(0)
        os.close(r1)
        os.close(w2)

        from mypy.dmypy_server import Server
        import mypy.server.update as U
        rec = Recorder()
        rec.want_deps = bool(h.get("trace"))
        if h.get("trace") or h.get("monitor"):
            rec.install()
        if h.get("lib", "fixture") == "fixture" and not h.get("own_builtins"):
            apply_step({"write": {"builtins.pyi": BUILTINS_FIXTURE}}, 0)
        apply_step({"write": h["files0"]}, 0)
        opts = make_options(h, daemon=True)
        server = Server(opts, os.path.join(tmp, ".dmypy.json"))
        steps = [{}] + list(h["steps"])
        for k, step in enumerate(steps):
            if k > 0:
                apply_step(step, k)
            obs: dict[str, Any] = {"k": k}
            rec.calls = []
            rec.acc_processed, rec.acc_updated, rec.acc_changed, rec.acc_triggered = [], [], [], set()
            rec.enabled = k > 0
            t0 = time.time()
            try:
                how = step.get("how", "check")
                if k == 0 or how == "check" or server.fine_grained_manager is None:
                    srcs = make_sources(h, server.options, server.fscache)
                    resp = server.check(srcs, False, False, 80)
                elif how == "recheck":
                    resp = server.cmd_recheck(False, 80, False)
                else:  # recheck with explicit --update / --remove lists (non-following mode only)
                    upd = sorted(p for p in step.get("write", {}) if os.path.exists(p))
                    rem = sorted(step.get("delete", []))
                    resp = server.cmd_recheck(False, 80, False, remove=rem or None, update=upd or None)
                dm = (resp.get("out", "") + resp.get("err", "")).splitlines() if "error" not in resp else ["<error> " + str(resp["error"])]
                obs["daemon"] = {"msgs": dm, "status": resp.get("status")}
            except BaseException:
                tb = traceback.format_exc()
                obs["daemon"] = {"crash": tb[-3000:]}
            obs["t_daemon"] = round(time.time() - t0, 3)
            rec.enabled = False
            t0 = time.time()
            _send(w1, h)
            obs["fresh"] = _recv(r2)
            obs["t_fresh"] = round(time.time() - t0, 3)
            fgm = server.fine_grained_manager
            if fgm is not None and k > 0 and "crash" not in obs["daemon"]:
                if h.get("trace") or h.get("monitor"):
                    obs["processed"] = list(rec.acc_processed)
                    obs["triggered"] = sorted(rec.acc_triggered)
                    obs["changed"] = list(rec.acc_changed)
                    obs["updated"] = list(rec.acc_updated)
                else:
                    obs["processed"] = list(fgm.processed_targets)
                    obs["triggered"] = sorted(set(fgm.triggered))
                    obs["changed"] = [m for m, _ in fgm.changed_modules]
                    obs["updated"] = list(fgm.updated_modules)
                if h.get("trace"):
                    obs["calls"] = rec.calls
                    obs["deps_after"] = {k2: sorted(v) for k2, v in fgm.deps.items()}
                elif h.get("monitor"):
                    obs["ncalls"] = len(rec.calls)
                    obs["niters"] = sum(len(c["iters"]) for c in rec.calls)
            if h.get("monitor") and fgm is not None and "crash" not in obs["daemon"]:
                obs["stored"] = stored_errors_by_target(server)
            out["steps"].append(obs)
            if "crash" in obs["daemon"]:
                break
    except BaseException:
        out["harness_crash"] = traceback.format_exc()[-3000:]
    finally:
        try:
            if opid:
                os.close(w1)
                os.waitpid(opid, 0)
        except Exception:
            pass
        os.chdir("/")
        shutil.rmtree(tmp, ignore_errors=True)
    return out



def mini_real(job: dict[str, Any]) -> dict[str, Any]:
    """Real server/deps.py and server/astdiff.py on a mini-language program (two versions)."""
    from mypy.dmypy_server import Server
    from mypy.server.astdiff import snapshot_symbol_table, compare_symbol_table_snapshots
    out: dict[str, Any] = {"id": job["id"]}
    tmp = tempfile.mkdtemp(prefix="c03m-")
    try:
        os.chdir(tmp)
        h = {"follow": "error", "lib": "fixture", "cmd": ["@all"], "flags": []}
        apply_step({"write": {"builtins.pyi": BUILTINS_FIXTURE}}, 0)
        snaps = []
        for k, files in enumerate([job["files_a"], job["files_b"]]):
            for f in list(os.listdir(".")):
                if f.endswith(".py"):
                    os.remove(f)
            apply_step({"write": files}, k + 1)
            opts = make_options(h, daemon=True)
            server = Server(opts, os.path.join(tmp, f".dmypy{k}.json"))
            resp = server.check(make_sources(h, server.options, server.fscache), False, False, 80)
            fgm = server.fine_grained_manager
            if fgm is None:
                out["error"] = "no fine-grained manager: " + str(resp)[:300]
                return out
            mods = [m for m in fgm.manager.modules if m + ".py" in files]
            snaps.append({m: snapshot_symbol_table(m, fgm.manager.modules[m].names) for m in mods})
            if k == 0:
                out["deps"] = {t: sorted(v) for t, v in fgm.deps.items()}
                out["msgs_a"] = (resp.get("out", "") + resp.get("err", "")).splitlines()
        diff = {}
        for m in set(snaps[0]) | set(snaps[1]):
            diff[m] = sorted(compare_symbol_table_snapshots(m, snaps[0].get(m, {}), snaps[1].get(m, {})))
        out["diff"] = diff
    except BaseException:
        out["error"] = traceback.format_exc()[-2000:]
    finally:
        os.chdir("/")
        shutil.rmtree(tmp, ignore_errors=True)
    return out


def worker_main() -> None:
    sys.path.insert(0, os.environ.get("VERIF_REPO", "/repo"))
    import mypy.build  # noqa: F401  (import once; every history runs in a fork of this clean process)
    import mypy.dmypy_server  # noqa: F401
    import mypy.main  # noqa: F401
    job = json.load(sys.stdin)
    results = []
    for h in job["histories"]:
        if h.get("mini"):
            # same isolation: one fork per program
            r, w = os.pipe()
            pid = os.fork()
            if pid == 0:
                os.close(r)
                sys.stdout = io.StringIO()
                sys.stderr = io.StringIO()
                try:
                    res = mini_real(h)
                except BaseException:
                    res = {"id": h.get("id"), "error": traceback.format_exc()[-2000:]}
                _send(w, res)
                os._exit(0)
            os.close(w)
            try:
                res = _recv(r)
            except EOFError:
                res = {"id": h.get("id"), "error": "child died"}
            os.close(r)
            os.waitpid(pid, 0)
            results.append(res)
            continue
        r, w = os.pipe()
        pid = os.fork()
        if pid == 0:
            os.close(r)
            try:
                sys.stdout = io.StringIO()
                sys.stderr = io.StringIO()
                res = run_history(h)
            except BaseException:
                res = {"id": h.get("id"), "harness_crash": traceback.format_exc()[-3000:], "steps": []}
            _send(w, res)
            os._exit(0)
        os.close(w)
        try:
            res = _recv(r)
        except EOFError:
            res = {"id": h.get("id"), "harness_crash": "history child died", "steps": []}
        os.close(r)
        os.waitpid(pid, 0)
        results.append(res)
    sys.__stdout__.write(json.dumps({"results": results}))
    sys.__stdout__.flush()


if __name__ == "__main__" and "--worker" in sys.argv:
    worker_main()
    sys.exit(0)


# ====================================================================== parent side

sys.path.insert(0, os.path.dirname(HERE))
import vlib  # noqa: E402

HEADER = ("from typing import (Any, Callable, Generic, List, Optional, Protocol, TypeVar, Union, NamedTuple,\n"
          "                    Final, NewType, TYPE_CHECKING, overload)\n")

TY = ["int", "str"]


def render_item(it: dict[str, Any], q: Any) -> str:
    """Text of one top-level item.  q(ref) -> the name by which another item is referred to."""
    k, n = it["kind"], it["name"]
    p = it.get("p", {})
    if k == "func":
        v = p["v"]
        return [f"def {n}(a: int) -> int:\n    return a\n",
                f"def {n}(a: int) -> str:\n    return ''\n",
                f"def {n}(a: str) -> int:\n    return 1\n",
                f"def {n}(a: int, b: int) -> int:\n    return a\n",
                f"def {n}(a, b=1):\n    return a\n",
                f"def {n}(a: int) -> Optional[int]:\n    return None\n",
                f"@overload\ndef {n}(a: int) -> int: ...\n@overload\ndef {n}(a: str) -> str: ...\ndef {n}(a: Any) -> Any:\n    return a\n",
                f"{n} = 1\n",
                f"async def {n}(a: int) -> int:\n    return a\n",
                ][v]
    if k == "class":
        base = q(p["base"]) if p.get("base") else ""
        gen = p.get("generic")
        bases = ", ".join(b for b in [base, "Generic[T]" if gen else ""] if b)
        s = f"class {n}({bases}):\n" if bases else f"class {n}:\n"
        body = []
        if p.get("x"):
            body.append(f"    x: {p['x']} = {'0' if p['x'] == 'int' else repr('')}\n")
        if p.get("y") or p.get("init"):
            args = "self" + (", a: int" if p.get("init") else "")
            body.append(f"    def __init__({args}) -> None:\n")
            if base and not p.get("init"):
                body.append("        super().__init__()\n")
            body.append(f"        self.y = {'0' if p.get('y') == 'int' else repr('') if p.get('y') == 'str' else 'None'}\n"
                        if p.get("y") else "        pass\n")
        if p.get("m"):
            deco = {"method": "", "property": "    @property\n", "classmethod": "    @classmethod\n",
                    "staticmethod": "    @staticmethod\n"}[p.get("mk", "method")]
            arg = {"method": "self", "property": "self", "classmethod": "cls", "staticmethod": ""}[p.get("mk", "method")]
            ret = "T" if gen and p["m"] == "T" else p["m"]
            val = {"int": "1", "str": "''"}.get(ret, "None  # type: ignore")
            body.append(f"{deco}    def m({arg}) -> {ret}:\n        return {val}\n")
        if p.get("abstract"):
            body.append("    def am(self) -> int: ...\n")
        if not body:
            body.append("    pass\n")
        return s + "".join(body)
    if k == "special":
        v = p["v"]
        f1, f2 = p.get("f1", "int"), p.get("f2", "str")
        return [f"class {n}(NamedTuple):\n    x: {f1}\n    b: {f2}\n",
                f"class {n}(Protocol):\n    def m(self) -> {f1}: ...\n",
                f"class {n}(Protocol):\n    x: {f1}\n",
                f"{n} = NewType('{n}', {f1})\n",
                f"def {n}(f: Callable[[int], int]) -> Callable[[int], {f1}]:\n    return f  # type: ignore\n",
                f"class {n}:\n    x: {f1}\n    def __init__(self, x: {f1}, b: {f2} = {'0' if f2 == 'int' else repr('')}) -> None:\n        self.x = x\n        self.b = b\n",
                ][v]
    if k == "value":
        v = p["v"]
        ref = q(p["ref"]) if p.get("ref") else "int"
        return [f"{n} = int\n", f"{n} = str\n", f"{n} = List[int]\n", f"{n}: int = 0\n", f"{n}: str = ''\n",
                f"{n}: Final = 1\n", f"{n}: Final = ''\n", f"{n} = {ref}(1)\n", f"{n} = {ref}()\n",
                f"{n} = {ref}\n", f"{n}: Optional[int] = None\n", f"{n} = [{ref}]\n"][v]
    if k == "use":
        r = q(it["ref"])
        t = it["t"]
        return USES[t].replace("{n}", n).replace("{q}", r)
    if k == "raw":
        return it["text"]
    raise AssertionError(k)


USES = [
    "def {n}() -> int:\n    return {q}(1)\n",
    "{n}: int = {q}(1)\n",
    "reveal_type({q})\n",
    "class {n}:\n    def go(self) -> int:\n        return {q}(1)\n",
    "def {n}(a: int = {q}(1)) -> None:\n    pass\n",
    "def {n}():\n    return {q}(1, 2)\n",
    "@{q}\ndef {n}(a: int) -> int:\n    return a\nreveal_type({n})\n",
    "def {n}() -> int:\n    return {q}().x\n",
    "def {n}(c: {q}) -> int:\n    return c.m()\n",
    "def {n}(c: {q}) -> int:\n    return c.y\n",
    "def {n}(o: object) -> int:\n    if isinstance(o, {q}):\n        return o.x\n    return 0\n",
    "def {n}(c: {q}) -> None:\n    c.x = 1\n",
    "def {n}(a: List[{q}]) -> int:\n    return a[0].x\n",
    "class P{n}(Protocol):\n    def m(self) -> int: ...\ndef {n}(p: P{n}) -> None:\n    pass\n{n}({q}())\n",
    "def {n}() -> None:\n    c = {q}()\n    c.z = 1\n",
    "{n}: {q} = 1\n",
    "def {n}() -> int:\n    return {q}\n",
    "def {n}(a: {q}) -> int:\n    return a\n",
    "def {n}() -> str:\n    return {q}.y\n",
    "def {n}() -> int:\n    x, b = {q}(1, '')\n    return x\n",
    "def {n}(a: {q}) -> int:\n    return a.x\n",
    "class {n}:\n    def __init__(self) -> None:\n        self.f = {q}(1)\n    def go(self) -> int:\n        return self.f\n",
    "def {n}() -> int:\n    return {q}.m()\n",
    "async def {n}() -> int:\n    return await {q}(1)\n",
    "def {n}(c: Optional[{q}]) -> int:\n    if c:\n        return c.m()\n    return {q}().m()\n",
    "{n} = [{q}(1)]\nreveal_type({n})\n",
    "def {n}() -> int:\n    for e in {q}:\n        return e\n    return 0\n",
    "class {n}({q}):\n    x = 1\n",
    "def {n}(c: {q}) -> None:\n    reveal_type(c.x)\n",
]
USES_FOR = {"func": [0, 1, 2, 3, 4, 5, 6, 21, 23, 25], "class": [7, 8, 9, 10, 11, 12, 13, 14, 18, 22, 24, 27, 28, 2],
            "special": [7, 8, 13, 17, 19, 20, 6, 2, 15, 28], "value": [15, 16, 17, 18, 2, 26, 20, 9]}


class Gen:
    """Programs are kept structured (modules -> imports + items) so that edits are meaningful:
    an edit re-samples one parameter of a definition, adds/removes definitions or uses, changes
    how a module is imported, deletes / re-creates a file, breaks / repairs the syntax."""

    def __init__(self, rng: vlib.Rng, nmods: int, wild: bool = True, roots: tuple[str, ...] = ()):
        self.r = rng
        self.wild = wild
        self.roots = set(roots)
        self.mods: dict[str, dict[str, Any]] = {}
        self.ctr = 0
        self.history: dict[str, list[str]] = {}
        for i in range(nmods):
            self.new_module(f"m{i}")
        # uses are added once all providers exist, so that references go in both directions (cycles)
        for m in list(self.mods):
            for _ in range(self.r.randint(1, 4)):
                self.add_use(m)
            for _ in range(self.r.randint(0, 2)):
                self.add_derived(m)

    def fresh(self, pre: str) -> str:
        self.ctr += 1
        return f"{pre}{self.ctr}"

    def new_provider(self) -> dict[str, Any]:
        k = self.r.choice(["func", "func", "class", "class", "class", "special", "value"])
        if k == "func":
            return {"kind": k, "name": self.fresh("f"), "p": {"v": self.r.choice([0, 0, 1, 2, 3, 4, 5, 6, 8])}}
        if k == "class":
            return {"kind": k, "name": self.fresh("C"), "p": self.class_params()}
        if k == "special":
            return {"kind": k, "name": self.fresh("S"), "p": {"v": self.r.randrange(6), "f1": self.r.choice(TY), "f2": self.r.choice(TY)}}
        return {"kind": k, "name": self.fresh("v"), "p": {"v": self.r.choice([0, 1, 2, 3, 4, 5, 6, 10])}}

    def class_params(self) -> dict[str, Any]:
        r = self.r
        return {"x": r.choice(["int", "int", "str", None]), "y": r.choice(["int", "str", None]),
                "m": r.choice(["int", "int", "str", None]),
                "mk": r.choice(["method", "method", "method", "property", "classmethod", "staticmethod"] if self.wild else ["method", "method", "property"]),
                "init": r.random() < 0.2, "base": None, "generic": False, "abstract": False}

    def new_module(self, name: str) -> None:
        self.mods[name] = {"imports": {}, "items": [self.new_provider() for _ in range(self.r.randint(2, 4))],
                           "deleted": False, "broken": False}

    def providers(self, kinds: tuple[str, ...] = ("func", "class", "special", "value"), exclude_mod: str | None = None):
        out = []
        for m, d in self.mods.items():
            if m == exclude_mod:
                continue
            for it in d["items"]:
                if it["kind"] in kinds:
                    out.append((m, it))
        return out

    def pick_ref(self, m: str, kinds=("func", "class", "special", "value")):
        # mostly other modules (cross-module propagation), sometimes the same module
        cands = self.providers(kinds, exclude_mod=m if (self.r.random() < 0.85 or not self.wild) else None)
        if not self.wild:
            # tame programs: acyclic imports (a module only refers to modules with a larger index)
            cands = [c for c in cands if int(c[0][1:]) >= int(m[1:])]
        if not cands and self.wild:
            cands = self.providers(kinds)
        if not cands:
            return None
        pm, it = self.r.choice(cands)
        if pm != m and pm not in self.mods[m]["imports"]:
            self.mods[m]["imports"][pm] = self.r.choice(["import", "import", "from", "from", "star", "as", "local"] if self.wild
                                                        else ["import", "import", "from", "from", "as"])
        return (pm, it)

    def add_use(self, m: str) -> None:
        ref = self.pick_ref(m)
        if ref is None:
            return
        pm, it = ref
        t = self.r.choice(USES_FOR[it["kind"]]) if (self.r.random() < 0.85 or not self.wild) else self.r.randrange(len(USES))
        if not self.wild and t in (13, 27, 2, 6, 25, 28):
            # tame: no protocol-argument / attribute-overriding templates, no reveal_type (notes-only output)
            t = {"func": 0, "class": 7, "special": 8, "value": 16}[it["kind"]]
        self.mods[m]["items"].insert(self.r.randint(0, len(self.mods[m]["items"])),
                                     {"kind": "use", "name": self.fresh("u"), "t": t, "ref": [pm, it["name"]]})

    def add_derived(self, m: str) -> None:
        """A provider that itself depends on another provider: subclass, inferred variable, alias chain."""
        r = self.r
        what = r.choice(["sub", "sub", "var", "inst", "alias", "lst"])
        if what == "sub":
            ref = self.pick_ref(m, ("class",))
            if ref is None:
                return
            p = self.class_params()
            p["base"] = [ref[0], ref[1]["name"]]
            if not self.wild:
                p["m"] = None          # tame: no incompatible overrides (their notes are a known divergence)
            if r.random() < 0.5:
                p["x"] = None
                p["y"] = None
            item = {"kind": "class", "name": self.fresh("C"), "p": p}
        else:
            ref = self.pick_ref(m, ("func",) if what in ("var", "lst") else ("class", "special") if what == "inst" else ("value", "class"))
            if ref is None:
                return
            item = {"kind": "value", "name": self.fresh("v"),
                    "p": {"v": {"var": 7, "inst": 8, "alias": 9, "lst": 11}[what], "ref": [ref[0], ref[1]["name"]]}}
        self.mods[m]["items"].append(item)

    # ---- rendering
    def render_module(self, m: str) -> str:
        d = self.mods[m]
        lines = [HEADER, "T = TypeVar('T')\n"]
        local_imports: list[str] = []
        for pm, style in sorted(d["imports"].items()):
            names = sorted({it["ref"][1] for it in d["items"] if it["kind"] == "use" and it["ref"][0] == pm} |
                           {it["p"]["base"][1] for it in d["items"] if it["kind"] == "class" and it["p"].get("base") and it["p"]["base"][0] == pm} |
                           {it["p"]["ref"][1] for it in d["items"] if it["kind"] == "value" and it["p"].get("ref") and it["p"]["ref"][0] == pm})
            if style == "import" or (style in ("from", "local") and not names):
                lines.append(f"import {pm}\n")
            elif style == "as":
                lines.append(f"import {pm} as {pm}_\n")
            elif style == "from":
                lines.append(f"from {pm} import {', '.join(names)}\n")
            elif style == "star":
                lines.append(f"from {pm} import *\n")
            elif style == "local":
                lines.append(f"if TYPE_CHECKING:\n    from {pm} import {', '.join(names)}\n")
                lines.append(f"else:\n    {' = '.join(names)} = None\n")

        def q(ref: Any) -> str:
            pm, name = ref
            if pm == m:
                return name
            st = d["imports"].get(pm, "import")
            return f"{pm}.{name}" if st == "import" else f"{pm}_.{name}" if st == "as" else name
        for it in d["items"]:
            lines.append(render_item(it, q))
        if d["broken"]:
            lines.append("def (:\n")
        return "".join(lines)

    def files(self) -> dict[str, str]:
        return {m + ".py": self.render_module(m) for m, d in self.mods.items() if not d["deleted"]}

    # ---- edits
    def edit(self) -> str:
        r = self.r
        live = [m for m, d in self.mods.items() if not d["deleted"]]
        m = r.choice(live) if live else None
        kind = r.choices(["param", "param", "param", "del_item", "add_use", "add_prov", "add_derived", "import_style",
                          "del_mod", "undel_mod", "new_mod", "reorder", "break", "touch", "revert", "two"],
                         [8, 8, 8, 4, 4, 3, 3, 3, 3, 3, 1, 1, 1, 1, 3, 3])[0]
        if m is None:
            kind = "undel_mod"
        if not self.wild and kind in ("break", "reorder"):
            kind = "param"
        if kind == "two":
            return self.edit() + "+" + self.edit()
        if kind == "param":
            provs = [it for it in self.mods[m]["items"] if it["kind"] != "use"]
            if not provs:
                return self.edit()
            it = r.choice(provs)
            if it["kind"] == "class":
                key = r.choice(["x", "y", "m", "mk", "init", "base", "abstract", "generic"])
                old = dict(it["p"])
                new = self.class_params()
                if key == "base":
                    if it["p"].get("base"):
                        it["p"]["base"] = None
                    else:
                        ref = self.pick_ref(m, ("class",))
                        if ref and ref[1] is not it and not self.inherits(ref[1], it):
                            it["p"]["base"] = [ref[0], ref[1]["name"]]
                elif key in ("abstract", "generic"):
                    it["p"][key] = not it["p"].get(key)
                    if key == "generic" and it["p"][key] and it["p"].get("m"):
                        it["p"]["m"] = r.choice(["T", "int"])
                else:
                    it["p"][key] = new[key]
                    if not self.wild and key == "m" and it["p"].get("base"):
                        it["p"]["m"] = None
                if it["p"].get("m") == "T" and not it["p"].get("generic"):
                    it["p"]["m"] = "int"
                return f"{m}.{it['name']}.{key}" + ("(same)" if old == it["p"] else "")
            elif it["kind"] == "func":
                it["p"]["v"] = r.choice([0, 1, 2, 3, 4, 5, 6, 7, 8] if self.wild else [0, 1, 2, 3, 4, 5, 6, 8])
            elif it["kind"] == "special":
                key = r.choice(["v", "f1", "f2"])
                it["p"][key] = r.randrange(6) if key == "v" else r.choice(TY)
            else:
                if it["p"].get("ref"):
                    # re-point the reference
                    ref = self.pick_ref(m, ("func", "class", "special", "value"))
                    if ref and ref[1] is not it:
                        it["p"]["ref"] = [ref[0], ref[1]["name"]]
                else:
                    it["p"]["v"] = r.choice([0, 1, 2, 3, 4, 5, 6, 10])
            return f"{m}.{it['name']}.{it['kind']}-param"
        if kind == "del_item":
            items = self.mods[m]["items"]
            if len(items) <= 1:
                return self.edit()
            it = items.pop(r.randrange(len(items)))
            return f"del {m}.{it['name']}"
        if kind == "add_use":
            self.add_use(m)
            return f"add use in {m}"
        if kind == "add_prov":
            self.mods[m]["items"].insert(r.randint(0, len(self.mods[m]["items"])), self.new_provider())
            return f"add provider in {m}"
        if kind == "add_derived":
            self.add_derived(m)
            return f"add derived in {m}"
        if kind == "import_style":
            imps = self.mods[m]["imports"]
            if not imps:
                return self.edit()
            pm = r.choice(sorted(imps))
            imps[pm] = r.choice(["import", "from", "star", "as", "local"] if self.wild else ["import", "from", "as"])
            return f"import style {m}<-{pm}"
        if kind == "del_mod":
            if len(live) <= 1 or m in self.roots:
                return self.edit()
            self.mods[m]["deleted"] = True
            return f"delete file {m}"
        if kind == "undel_mod":
            dead = [x for x, d in self.mods.items() if d["deleted"]]
            if not dead:
                return self.edit()
            x = r.choice(dead)
            self.mods[x]["deleted"] = False
            return f"re-create file {x}"
        if kind == "new_mod":
            name = f"m{len(self.mods)}"
            self.new_module(name)
            for _ in range(2):
                self.add_use(name)
            other = r.choice(live)
            if name in self.mods[other]["imports"] or not self.wild and self.mods[name]["imports"]:
                pass
            self.mods[other]["imports"].setdefault(name, "import")
            for _ in range(2):
                cands = self.providers(exclude_mod=None)
                cands = [c for c in cands if c[0] == name]
                if cands:
                    pm, it = r.choice(cands)
                    self.mods[other]["items"].append({"kind": "use", "name": self.fresh("u"),
                                                      "t": r.choice(USES_FOR[it["kind"]]), "ref": [pm, it["name"]]})
            return f"new module {name}"
        if kind == "reorder":
            r.shuffle(self.mods[m]["items"])
            return f"reorder {m}"
        if kind == "break":
            self.mods[m]["broken"] = not self.mods[m]["broken"]
            return f"syntax {'broken' if self.mods[m]['broken'] else 'repaired'} {m}"
        if kind == "touch":
            return f"touch {m}"
        if kind == "revert":
            return f"revert {m}"
        return "noop"

    def inherits(self, a: dict[str, Any], b: dict[str, Any]) -> bool:
        """does class item a (transitively) inherit from b?"""
        seen = 0
        cur = a
        while cur is not None and seen < 50:
            if cur is b:
                return True
            base = cur["p"].get("base") if cur["kind"] == "class" else None
            cur = None
            if base:
                for it in self.mods.get(base[0], {"items": []})["items"]:
                    if it["name"] == base[1]:
                        cur = it
            seen += 1
        return False


def gen_history(seed: int, idx: int, mode: dict[str, Any]) -> dict[str, Any]:
    rng = vlib.Rng(seed, f"hist/{idx}")
    g = Gen(rng, rng.choice([2, 3, 3, 4, 5]), wild=bool(mode.get("wild", True)),
            roots=tuple(c[:-3] for c in mode.get("cmd", []) if c.endswith(".py")))
    files0 = g.files()
    past: dict[str, list[str]] = {p: [t] for p, t in files0.items()}
    cur = dict(files0)
    steps = []
    nsteps = rng.randint(3, mode.get("max_steps", 8))
    for k in range(nsteps):
        desc = g.edit()
        new = g.files()
        if desc.startswith("revert") or "+revert" in desc:
            mm = desc.split("revert ")[-1].split("+")[0] + ".py"
            if mm in past and len(past[mm]) >= 2 and mm in new:
                new[mm] = past[mm][-2]
        st: dict[str, Any] = {"write": {}, "delete": [], "desc": desc}
        for p, t in new.items():
            if cur.get(p) != t or desc.startswith("touch " + p[:-3]):
                st["write"][p] = t
        for p in cur:
            if p not in new:
                st["delete"].append(p)
        for p, t in st["write"].items():
            past.setdefault(p, []).append(t)
        cur = new
        if not st["delete"]:
            del st["delete"]
        st["how"] = rng.choice(["check", "check", "recheck", "recheck_lists"])
        steps.append(st)
    h = {"id": f"g{idx}", "files0": files0, "steps": steps}
    h.update(mode)
    h.pop("max_steps", None)
    h["id"] = ("w" if h.get("wild", True) else "t") + h["follow"][0] + str(idx)
    fix_how(h)
    return h


def fix_how(h: dict[str, Any]) -> None:
    """Make every step ask, in a legal form, for 'the command on the files as they are now':
    `check` (explicit source list) is always legal; a bare `recheck` re-uses the previous source list,
    so it is the same command only if no file named by the command was created or deleted;
    `recheck --update/--remove` lists exist only when imports are not followed."""
    follow = h.get("follow", "error") == "normal"
    roots = [c for c in h["cmd"] if not c.startswith(("main:", "@"))]
    allmode = "@all" in h["cmd"]
    existing = set(h["files0"])
    for st in h["steps"]:
        st["delete"] = [p for p in st.get("delete", []) if p in existing]
        adds = [p for p in st.get("write", {}) if p not in existing]
        dels = st["delete"]
        existing = (existing - set(dels)) | set(st.get("write", {}))
        if not st["delete"]:
            del st["delete"]
        how = st.get("how", "check")
        cmd_changes = bool(adds or dels) if allmode else bool((set(adds) | set(dels)) & set(roots))
        if follow:
            if how == "recheck_lists":
                how = "recheck"
            if how == "recheck" and cmd_changes:
                how = "check"
        else:
            if how == "recheck" and cmd_changes:
                how = "recheck_lists"
            if how == "recheck_lists" and not allmode:
                how = "check"
        if any(c.startswith("main:") for c in h["cmd"]):
            how = "check"
        st["how"] = how


MODES = [
    {"follow": "error", "cmd": ["@all"], "lib": "fixture"},
    {"follow": "skip", "cmd": ["@all"], "lib": "fixture"},
    {"follow": "normal", "cmd": ["m0.py"], "lib": "fixture"},
    {"follow": "normal", "cmd": ["m0.py", "m1.py"], "lib": "fixture"},
]


# ---------------------------------------------------------------------- running jobs

JOBS = int(os.environ.get("VERIF_C03_JOBS", "6"))


def run_jobs(hists: list[dict[str, Any]], nproc: int = 0, timeout: float = 3000) -> list[dict[str, Any]]:
    """Distribute histories over at most JOBS worker processes (one python child per chunk, each in its
    own session so that a timeout kills exactly our own process group)."""
    import signal
    import threading
    if not hists:
        return []
    nproc = max(1, min(nproc or JOBS, JOBS, len(hists)))
    chunks: list[list[dict[str, Any]]] = [[] for _ in range(nproc)]
    order = sorted(range(len(hists)), key=lambda i: -((1 + len(hists[i].get("steps", []))) * (40 if hists[i].get("lib") == "typeshed" else 1)))
    for j, i in enumerate(order):
        chunks[j % nproc].append(hists[i])
    procs = []
    for ch in chunks:
        p = subprocess.Popen([vlib.PY, os.path.abspath(__file__), "--worker"], stdin=subprocess.PIPE,
                             stdout=subprocess.PIPE, stderr=subprocess.PIPE, env=vlib.py_env({"VERIF_REPO": vlib.REPO}),
                             cwd="/", start_new_session=True)
        procs.append((p, ch))
    outs: dict[int, tuple[bytes, bytes]] = {}

    def comm(i: int, p: subprocess.Popen, ch: list[dict[str, Any]]) -> None:
        try:
            outs[i] = p.communicate(json.dumps({"histories": ch}).encode(), timeout=timeout)
        except subprocess.TimeoutExpired:
            try:
                os.killpg(p.pid, signal.SIGKILL)      # our own session only
            except OSError:
                pass
            try:
                p.communicate(timeout=10)
            except Exception:
                pass
            outs[i] = (b"", b"timeout")
    ths = [threading.Thread(target=comm, args=(i, p, ch)) for i, (p, ch) in enumerate(procs)]
    for t in ths:
        t.start()
    for t in ths:
        t.join()
    by_id: dict[str, dict[str, Any]] = {}
    for i, (p, ch) in enumerate(procs):
        so, se = outs[i]
        try:
            for r in json.loads(so.decode())["results"]:
                by_id[r["id"]] = r
        except Exception:
            for h in ch:
                by_id.setdefault(h["id"], {"id": h["id"], "steps": [], "harness_crash": "worker failed: " + se.decode(errors="replace")[-1500:]})
    return [by_id[h["id"]] for h in hists]


# ---------------------------------------------------------------------- the S oracle

LINE = re.compile(r"^(?P<file>[^:\n]+):(?P<line>\d+):(?:\d+:)? (?P<sev>error|note|warning): (?P<msg>.*)$")


def by_file(msgs: list[str]) -> dict[str, list[str]]:
    out: dict[str, list[str]] = {}
    last = "?"
    for m in msgs:
        mm = LINE.match(m)
        if mm:
            last = os.path.normpath(mm.group("file"))
            out.setdefault(last, []).append(m[len(mm.group("file")):])
        else:
            out.setdefault(last if m.startswith(" ") else "?", []).append(m)
    return out


def template(m: str) -> str:
    mm = LINE.match(m)
    t = (mm.group("sev") + ": " + mm.group("msg")) if mm else m
    t = re.sub(r'"[^"]*"', '"_"', t)
    t = re.sub(r"\b[0-9]+\b", "N", t)
    t = re.sub(r"\b[muvfCSP]+[0-9N]+(_)?\b", "X", t)
    return t[:100]


def code_of(m: str) -> str:
    mm = LINE.match(m)
    if not mm:
        return "text"
    c = re.search(r"\[([a-z0-9-]+)\]$", mm.group("msg")) if mm.group("sev") != "note" else None   # notes print no code
    if c:
        return c.group(1)
    if mm.group("sev") == "note":
        # notes carry no code: classify by their first words (names and punctuation removed)
        w = re.sub(r'"[^"]*"|[^A-Za-z ]', " ", mm.group("msg")).split()
        if w[:1] == ["def"] or mm.group("msg").startswith("    "):
            return "note:signature-listing"            # indented continuation lines of a signature / member listing
        return "note:" + "-".join(w[:3])
    return mm.group("sev")


EDIT_PRIORITY = ["syntax", "file", "import", "base", "del", "add", "decl", "other"]


def edit_kind(desc: str) -> str:
    """ONE primary, coarse and stable class of the edit(s) of a step: the first, in the fixed order
    EDIT_PRIORITY, of the classes of its parts.  syntax = syntax error introduced / repaired; file = file deleted,
    re-created or added; import = import form changed; base = base class changed; del / add = definition or use
    deleted / added; decl = a declaration changed (signature, attribute, method kind, alias, value ...);
    other = revert / touch / reorder."""
    d0 = desc.replace("(same)", "")
    if d0.startswith(("dk:", "test-suite")):
        return d0

    def one(d: str) -> str:
        for pre, k in (("del ", "del"), ("add use", "add"), ("add provider", "add"), ("add derived", "add"),
                       ("import style", "import"), ("delete file", "file"), ("re-create file", "file"),
                       ("new module", "file"), ("reorder", "other"), ("syntax", "syntax"), ("touch", "other"),
                       ("revert", "other"), ("noop", "other")):
            if d.startswith(pre):
                return k
        return "base" if d.rsplit(".", 1)[-1] == "base" else "decl"
    kinds = {one(d) for d in d0.split("+")}
    return next(k for k in EDIT_PRIORITY if k in kinds)


def norm_msg(m: str) -> str:
    mm = LINE.match(m)
    if not mm:
        return m
    return f"{os.path.normpath(mm.group('file'))}: {mm.group('sev')}: {re.sub(r'line [0-9]+', 'line N', mm.group('msg'))}"


def compare_step(obs: dict[str, Any], prev: dict[str, Any] | None = None, kind: str = "") -> Any:
    """None if the daemon's answer equals the fresh run (or differs exactly as it already did after the
    previous step); else (stable key, description).  The key names the kind of difference, the error
    codes of the NEW stale / missed diagnostics, and the kind of edit that made them appear."""
    d, f = obs["daemon"], obs["fresh"]
    prev = prev if prev is not None else {}
    at = ("@" + kind) if kind else ""
    state: dict[str, Any] = {"extra": set(), "missing": set(), "status": None, "order": False}
    obs["_state"] = state
    if "crash" in f:
        if "crash" in d:
            return None
        frames_f = re.findall(r'File "[^"]*/mypy/([^"]+)", line \d+, in (\w+)', f["crash"])
        inner = [fr for fr in frames_f if fr[1] not in ("report_internal_error", "accept")]
        where_f = "/".join(inner[-1]) if inner else "?"
        return (f"oracle:fresh-run-internal-error:{where_f}",
                "the fresh non-incremental run itself dies with an INTERNAL ERROR (" + where_f + ") where the daemon answers: " + str(d.get("msgs", [])[:2]))
    if "crash" in d:
        tb = d["crash"]
        exc = tb.strip().splitlines()[-1].split(":")[0]
        frames = re.findall(r'File "[^"]*/mypy/([^"]+)", line \d+, in (\w+)', tb)
        where = "/".join(frames[-1]) if frames else "?"
        return (f"crash:{exc}:{where}", "daemon raised " + tb.strip().splitlines()[-1][:200] + f" in {where}; fresh run reports {len(f['msgs'])} message(s)")
    df, ff = by_file(d["msgs"]), by_file(f["msgs"])
    if df != ff:
        if sorted(d["msgs"]) == sorted(f["msgs"]):
            state["order"] = True
            if prev.get("order"):
                return None
            desc_codes = set()
            for lines in df.values():
                last = -1
                for ln in lines:
                    mm2 = re.match(r":(\d+):", ln)
                    n = int(mm2.group(1)) if mm2 else last
                    if n < last:
                        desc_codes.add(code_of("f" + ln))
                    last = n
            what_o = ("same diagnostics, different order within a file (the daemon reports these after later lines): daemon "
                      + str(d["msgs"][:4]) + " fresh " + str(f["msgs"][:4]))
            return [(f"diag:order-within-file[{c}]", what_o) for c in sorted(desc_codes)] or [("diag:order-within-file[]", what_o)]
        fset, dset = set(f["msgs"]), set(d["msgs"])
        extra_l = [x for x in d["msgs"] if x not in fset]          # exact: file, line, severity, text
        missing_l = [x for x in f["msgs"] if x not in dset]
        state["extra"] = {norm_msg(x) for x in extra_l}
        state["missing"] = {norm_msg(x) for x in missing_l}
        new_extra = [x for x in extra_l if norm_msg(x) not in prev.get("extra", set())]
        new_missing = [x for x in missing_l if norm_msg(x) not in prev.get("missing", set())]
        if not extra_l and not missing_l:
            state["mult"] = True
            if prev.get("mult"):
                return None
            return ("diag:multiplicity", "same set of diagnostics, different multiplicity: daemon " + str(len(d["msgs"])) + " fresh " + str(len(f["msgs"])))
        if not new_extra and not new_missing:
            return None
        # one finding per (stale|missed, code); notes carry no edit kind (they follow re-reporting, not the edit)
        found = []
        for tag, lines in (("stale", new_extra), ("missed", new_missing)):
            for c in sorted({code_of(x) for x in lines}):
                ex = [x for x in lines if code_of(x) == c][:2]
                found.append((f"diag:{tag}[{c}]" + ("" if c.startswith("note") else at),
                              ("daemon reports, fresh run does not: " if tag == "stale" else "fresh run reports, daemon does not: ") + str(ex)))
        return found
    if d["status"] != f["status"]:
        state["status"] = (d["status"], f["status"])
        if prev.get("status") == state["status"]:
            return None
        notes_only = bool(f["msgs"]) and all((LINE.match(m) and LINE.match(m).group("sev") == "note") or not LINE.match(m) for m in f["msgs"])
        kind_ = "notes-only" if notes_only and f["status"] == 0 else "blocker" if f["status"] == 2 else "other"
        return (f"status:{kind_}:daemon={d['status']}:fresh={f['status']}", f"same diagnostics {f['msgs'][:2]} but status {d['status']} (daemon) vs {f['status']} (fresh run)")
    return None


def step_kind(h: dict[str, Any], k: int) -> str:
    if k == 0:
        return "initial"
    st = h["steps"][k - 1]
    return edit_kind(st.get("desc") or h.get("stream_kind") or "test-suite")


def history_findings(h: dict[str, Any], res: dict[str, Any]) -> list[tuple[int, str, str]]:
    """All (step, key, description) of one history, each difference reported at the step where it appears."""
    out = []
    prev: dict[str, Any] = {}
    for obs in res["steps"]:
        c = compare_step(obs, prev, step_kind(h, obs["k"]))
        prev = obs.get("_state", {})
        obs.pop("_state", None)
        if c is not None:
            for key, what in (c if isinstance(c, list) else [c]):
                out.append((obs["k"], key, what))
            if not isinstance(c, list) and c[0].startswith("crash:"):
                break
    return out


def has_key(h: dict[str, Any], res: dict[str, Any], key: str) -> int | None:
    for k, kk, _ in history_findings(h, res):
        if kk == key:
            return k
    return None


def shrink(h: dict[str, Any], key: str, budget: int) -> dict[str, Any]:
    """Delta-debug the history: cut after the failing step, drop steps, drop modules, plain check
    instead of recheck.  The key (incl. the edit kind of the failing step) must be preserved."""
    def norm(c: dict[str, Any]) -> dict[str, Any]:
        c = json.loads(json.dumps(c))
        c.pop("trace", None)
        fix_how(c)
        return c
    best = norm(h)
    r = run_jobs([best], 1)[0]
    k = has_key(best, r, key)
    if k is None:
        return h
    best["steps"] = best["steps"][:k]
    used = 1
    progress = True
    while progress and used < budget:
        progress = False
        cands = []
        for i in range(len(best["steps"]) - 1):            # drop one earlier step
            c = norm(best)
            del c["steps"][i]
            cands.append(c)
        mods = sorted({p for p in best["files0"]} | {p for st in best["steps"] for p in st.get("write", {})})
        for m in mods:                                       # drop one module everywhere
            if m in best["cmd"] or ("main:" + m) in best["cmd"] or m in ("builtins.pyi", "typing.pyi"):
                continue
            c = norm(best)
            c["files0"].pop(m, None)
            for st in c["steps"]:
                st.get("write", {}).pop(m, None)
                if m in st.get("delete", []):
                    st["delete"].remove(m)
            cands.append(norm(c))
        for i, st in enumerate(best["steps"]):               # plain check instead of recheck
            if st.get("how") != "check":
                c = norm(best)
                c["steps"][i]["how"] = "check"
                cands.append(c)
        cands = cands[:max(0, budget - used)]
        if not cands:
            break
        for j, c in enumerate(cands):
            c["id"] = f"shr{j}"
        results = run_jobs(cands)
        used += len(cands)
        for c, rr in zip(cands, results):
            if has_key(c, rr, key) is not None:
                best = c
                progress = True
                break
    best["id"] = h["id"] + "-min"
    return best


# ---------------------------------------------------------------------- mypy's own fine-grained test programs

def parse_test_file(path: str) -> list[dict[str, Any]]:
    """Multi-step programs of test-data/unit/fine-grained*.test as histories (expected output ignored:
    the oracle is the fresh run)."""
    cases = []
    text = open(path, encoding="utf8").read()
    for block in re.split(r"^\[case ", text, flags=re.M)[1:]:
        name, _, rest = block.partition("]\n")
        name = name.split("-")[0] if "-only_when" in name or "-skip" in name else name
        if "-skip" in block.split("]\n")[0] or "only_when_cache" in block.split("]\n")[0]:
            continue
        parts = re.split(r"^\[([^\]\n]+)\]\n", rest, flags=re.M)
        main = parts[0]
        secs = list(zip(parts[1::2], parts[2::2]))
        files: dict[int, dict[str, str]] = {1: {}}
        deletes: dict[int, list[str]] = {}
        own_builtins = False
        ok = True
        for hd, body in secs:
            body = re.sub(r"\n+\Z", "\n", body)
            if hd.startswith("file "):
                fn = hd[5:].strip()
                m = re.match(r"^(.*)\.(\d+)$", fn)
                step, fn = (int(m.group(2)), m.group(1)) if m else (1, fn)
                if fn.endswith((".ini", ".toml", ".cfg")) or "\\" in fn:
                    ok = False
                files.setdefault(step, {})[fn] = body.replace("\\r\\n", "\r\n") if False else body
            elif hd.startswith("delete "):
                m = re.match(r"^(.*)\.(\d+)$", hd[7:].strip())
                if m:
                    deletes.setdefault(int(m.group(2)), []).append(m.group(1))
            elif hd.startswith("builtins "):
                files[1]["builtins.pyi"] = open(os.path.join(vlib.REPO, "test-data/unit", hd[9:].strip()), encoding="utf8").read()
                own_builtins = True
            elif hd.startswith("typing "):
                files[1]["typing.pyi"] = open(os.path.join(vlib.REPO, "test-data/unit", hd[7:].strip()), encoding="utf8").read()
            elif hd.split()[0] in ("out", "triggered", "stale", "rechecked", "targets", "out2", "out3") or re.match(r"^(out|stale|rechecked|targets|triggered)\d*$", hd.split()[0]):
                pass
            else:
                ok = False
        if not ok or re.search(r"# (suggest|inspect)\d*:", main) or "# cmd" in main and "-m " in main:
            continue
        flags = []
        m = re.search(r"# flags: (.*)$", main, flags=re.M)
        if m:
            flags = m.group(1).split()
        if any(re.search(r"# flags\d+:", main) for _ in [0]) or any(f.startswith(("--config-file", "--python-version", "--cache", "--platform", "--always", "--custom")) for f in flags):
            continue
        follow = "error"
        for f in list(flags):
            if f.startswith("--follow-imports="):
                follow = f.split("=")[1]
                flags.remove(f)
            elif f == "--follow-imports":
                ok = False
        if not ok or follow == "silent" or re.search(r"# cmd\d+:", main):
            continue
        m = re.search(r"# cmd: mypy ([a-zA-Z0-9_./ ]+)$", main, flags=re.M)
        cmd = m.group(1).split() if m else ["main:main", "@all"]
        files[1]["main"] = main
        last = max(list(files) + list(deletes))
        steps = []
        for k in range(2, last + 1):
            steps.append({"write": files.get(k, {}), "delete": deletes.get(k, []), "how": "check"})
        if not steps:
            continue
        cases.append({"id": os.path.basename(path)[:-5] + ":" + name, "files0": files[1], "steps": steps, "cmd": cmd,
                      "follow": follow, "flags": flags, "lib": "fixture", "own_builtins": own_builtins,
                      "opt_attrs": {"allow_empty_bodies": not name.endswith("_no_empty")}})
    return cases


# ---------------------------------------------------------------------- one scenario per dependency kind

TYP = "from typing import Any, Callable, Generic, List, Optional, Protocol, TypeVar, NamedTuple, Final, NewType, cast\n"

# (name, p.py before, p.py after, q.py, c.py).  The edit changes p.py only; q.py passes the thing on
# (subclass / re-export / instance); the diagnostics that must appear / disappear are inside a FUNCTION
# BODY (or method / class body) of c.py that is connected to the change by exactly one kind of
# dependency generated by server/deps.py.
DK = [
    ("attr-class-var", "class A:\n    x: int = 0\n", "class A:\n    x: str = ''\n",
     "from p import A\nclass B(A):\n    pass\ndef mk() -> B:\n    return B()\n",
     "import q\ndef f() -> None:\n    y: int = q.mk().x\n"),
    ("attr-instance-var", "class A:\n    def __init__(self) -> None:\n        self.x = 0\n", "class A:\n    def __init__(self) -> None:\n        self.x = ''\n",
     "from p import A\nclass B(A):\n    pass\n",
     "from q import B\ndef f(b: B) -> None:\n    y: int = b.x\n"),
    ("attr-deleted", "class A:\n    x: int = 0\n", "class A:\n    z: int = 0\n",
     "from p import A\ndef mk() -> A:\n    return A()\n",
     "import q\ndef f() -> int:\n    return q.mk().x\n"),
    ("attr-assign-lvalue", "class A:\n    x: int = 0\n", "class A:\n    x: str = ''\n",
     "from p import A\nclass B(A):\n    pass\n",
     "from q import B\ndef f(b: B) -> None:\n    b.x = 1\n"),
    ("attr-class-object", "class A:\n    x: int = 0\n", "class A:\n    x: str = ''\n",
     "from p import A\nclass B(A):\n    pass\n",
     "from q import B\ndef f() -> None:\n    y: int = B.x\n"),
    ("method-return", "class A:\n    def m(self) -> int:\n        return 1\n", "class A:\n    def m(self) -> str:\n        return ''\n",
     "from p import A\nclass B(A):\n    pass\n",
     "from q import B\ndef f(b: B) -> int:\n    return b.m()\n"),
    ("method-args", "class A:\n    def m(self, a: int) -> int:\n        return 1\n", "class A:\n    def m(self, a: int, b: int) -> int:\n        return 1\n",
     "from p import A\nclass B(A):\n    pass\n",
     "from q import B\ndef f(b: B) -> int:\n    return b.m(1)\n"),
    ("method-override", "class A:\n    def m(self) -> int:\n        return 1\n", "class A:\n    def m(self) -> str:\n        return ''\n",
     "from p import A\nclass B(A):\n    pass\n",
     "from q import B\nclass C(B):\n    def m(self) -> int:\n        return 2\n"),
    ("super-call", "class A:\n    def m(self) -> int:\n        return 1\n", "class A:\n    def m(self) -> str:\n        return ''\n",
     "from p import A\nclass B(A):\n    pass\n",
     "from q import B\nclass C(B):\n    def g(self) -> int:\n        return super().m()\n"),
    ("property", "class A:\n    @property\n    def x(self) -> int:\n        return 1\n", "class A:\n    @property\n    def x(self) -> str:\n        return ''\n",
     "from p import A\nclass B(A):\n    pass\n",
     "from q import B\ndef f(b: B) -> None:\n    y: int = b.x\n"),
    ("classmethod", "class A:\n    @classmethod\n    def cm(cls) -> int:\n        return 1\n", "class A:\n    @classmethod\n    def cm(cls) -> str:\n        return ''\n",
     "from p import A\nclass B(A):\n    pass\n",
     "from q import B\ndef f() -> int:\n    return B.cm()\n"),
    ("init-signature", "class A:\n    def __init__(self, a: int) -> None:\n        pass\n", "class A:\n    def __init__(self, a: str) -> None:\n        pass\n",
     "from p import A\nclass B(A):\n    pass\n",
     "from q import B\ndef f() -> None:\n    B(1)\n"),
    ("base-class-changed", "class X:\n    x: int = 0\nclass Y:\n    x: str = ''\nclass A(X):\n    pass\n", "class X:\n    x: int = 0\nclass Y:\n    x: str = ''\nclass A(Y):\n    pass\n",
     "from p import A\nclass B(A):\n    pass\n",
     "from q import B\ndef f(b: B) -> None:\n    y: int = b.x\n"),
    ("base-class-subtype", "class X:\n    pass\nclass A(X):\n    pass\n", "class X:\n    pass\nclass A:\n    pass\n",
     "from p import A, X\nclass B(A):\n    pass\ndef want(x: X) -> None:\n    pass\n",
     "from q import B, want\ndef f(b: B) -> None:\n    want(b)\n"),
    ("abstract-status", "import abc\nclass A:\n    def m(self) -> int:\n        return 1\n", "import abc\nclass A(metaclass=abc.ABCMeta):\n    @abc.abstractmethod\n    def m(self) -> int:\n        return 1\n",
     "from p import A\nclass B(A):\n    pass\n",
     "from q import B\ndef f() -> None:\n    B()\n"),
    ("function-return", "def g(a: int) -> int:\n    return a\n", "def g(a: int) -> str:\n    return ''\n",
     "from p import g\n",
     "import q\ndef f() -> None:\n    y: int = q.g(1)\n"),
    ("function-args", "def g(a: int, b: int = 0) -> int:\n    return a\n", "def g(a: int) -> int:\n    return a\n",
     "from p import g\n",
     "from q import g\ndef f() -> int:\n    return g(1, b=2)\n"),
    ("function-deleted", "def g(a: int) -> int:\n    return a\n", "def h(a: int) -> int:\n    return a\n",
     "import p\n",
     "import q\ndef f() -> int:\n    return q.p.g(1)\n"),
    ("function-to-class", "def g(a: int) -> int:\n    return a\n", "class g:\n    def __init__(self, a: int) -> None:\n        pass\n",
     "from p import g\n",
     "from q import g\ndef f() -> int:\n    return g(1)\n"),
    ("decorator", TYP + "def deco(f: Callable[[int], int]) -> Callable[[int], int]:\n    return f\n", TYP + "def deco(f: Callable[[int], int]) -> Callable[[int], str]:\n    return f  # type: ignore\n",
     "from p import deco\n@deco\ndef g(a: int) -> int:\n    return a\n",
     "import q\ndef f() -> None:\n    y: int = q.g(1)\n"),
    ("namedtuple-field", TYP + "class N(NamedTuple):\n    a: int\n", TYP + "class N(NamedTuple):\n    a: str\n",
     "from p import N\ndef mk() -> N:\n    return N(*[])\n",
     "import q\ndef f() -> None:\n    y: int = q.mk().a\n"),
    ("namedtuple-ctor", TYP + "class N(NamedTuple):\n    a: int\n", TYP + "class N(NamedTuple):\n    a: int\n    b: int\n",
     "from p import N\n",
     "from q import N\ndef f() -> None:\n    N(1)\n"),
    ("dataclass-field", "from dataclasses import dataclass\n@dataclass\nclass D:\n    a: int\n", "from dataclasses import dataclass\n@dataclass\nclass D:\n    a: str\n",
     "from p import D\nclass E(D):\n    pass\n",
     "from q import E\ndef f(e: E) -> None:\n    y: int = e.a\n"),
    ("dataclass-ctor", "from dataclasses import dataclass\n@dataclass\nclass D:\n    a: int\n", "from dataclasses import dataclass\n@dataclass\nclass D:\n    a: int\n    b: int\n",
     "from p import D\n",
     "from q import D\ndef f() -> None:\n    D(1)\n"),
    ("module-attr", "v: int = 0\n", "v: str = ''\n",
     "import p\n",
     "import q\ndef f() -> int:\n    return q.p.v\n"),
    ("module-attr-inferred", "def g() -> int:\n    return 1\n", "def g() -> str:\n    return ''\n",
     "import p\nv = p.g()\n",
     "import q\ndef f() -> int:\n    return q.v\n"),
    ("import-from-var", "v: int = 0\n", "v: str = ''\n",
     "from p import v\n",
     "from q import v\ndef f() -> int:\n    return v\n"),
    ("import-from-deleted", "v: int = 0\n", "w: int = 0\n",
     "import p\n",
     "from p import v\ndef f() -> int:\n    return v\n"),
    ("type-alias", "Al = int\n", "Al = str\n",
     "from p import Al\n",
     "from q import Al\ndef f(a: Al) -> int:\n    return a\n"),
    ("type-alias-generic", TYP + "Al = List[int]\n", TYP + "Al = List[str]\n",
     "from p import Al\ndef mk() -> Al:\n    return []\n",
     "import q\ndef f() -> int:\n    return q.mk()[0]\n"),
    ("newtype", TYP + "N = NewType('N', int)\n", TYP + "N = NewType('N', str)\n",
     "from p import N\n",
     "from q import N\ndef f() -> None:\n    N(1)\n"),
    ("final-const", TYP + "K: Final = 1\n", TYP + "K: Final = ''\n",
     "from p import K\n",
     "import q\ndef f() -> None:\n    y: int = q.K\n"),
    ("typevar-bound", TYP + "class X:\n    pass\nclass Y:\n    pass\nT = TypeVar('T', bound=X)\ndef ident(a: T) -> T:\n    return a\n",
     TYP + "class X:\n    pass\nclass Y:\n    pass\nT = TypeVar('T', bound=Y)\ndef ident(a: T) -> T:\n    return a\n",
     "from p import ident, X\n",
     "from q import ident, X\ndef f() -> None:\n    ident(X())\n"),
    ("generic-method", TYP + "T = TypeVar('T')\nclass G(Generic[T]):\n    def get(self) -> T:\n        return None  # type: ignore\n",
     TYP + "T = TypeVar('T')\nclass G(Generic[T]):\n    def get(self) -> List[T]:\n        return []\n",
     "from p import G\nclass H(G[int]):\n    pass\n",
     "from q import H\ndef f(h: H) -> int:\n    return h.get()\n"),
    ("protocol-member", TYP + "class P(Protocol):\n    def m(self) -> int: ...\n", TYP + "class P(Protocol):\n    def m(self) -> str: ...\n",
     "from p import P\ndef use(x: P) -> None:\n    pass\n",
     "from q import use\nclass Impl:\n    def m(self) -> int:\n        return 1\ndef f() -> None:\n    use(Impl())\n"),
    ("protocol-impl", "class Impl:\n    def m(self) -> int:\n        return 1\n", "class Impl:\n    def m(self) -> str:\n        return ''\n",
     TYP + "from p import Impl\nclass P(Protocol):\n    def m(self) -> int: ...\ndef use(x: P) -> None:\n    pass\n",
     "from q import use, Impl\ndef f() -> None:\n    use(Impl())\n"),
    ("op-add", "class A:\n    def __add__(self, o: int) -> int:\n        return 1\n", "class A:\n    def __add__(self, o: int) -> str:\n        return ''\n",
     "from p import A\nclass B(A):\n    pass\n",
     "from q import B\ndef f(b: B) -> int:\n    return b + 1\n"),
    ("op-radd", "class A:\n    def __radd__(self, o: int) -> int:\n        return 1\n", "class A:\n    def __radd__(self, o: int) -> str:\n        return ''\n",
     "from p import A\nclass B(A):\n    pass\n",
     "from q import B\ndef f(b: B) -> None:\n    y: int = 1 + b\n"),
    ("op-lt", "class A:\n    def __lt__(self, o: int) -> int:\n        return 1\n", "class A:\n    def __lt__(self, o: str) -> int:\n        return 1\n",
     "from p import A\nclass B(A):\n    pass\n",
     "from q import B\ndef f(b: B) -> None:\n    b < 1\n"),
    ("op-neg", "class A:\n    def __neg__(self) -> int:\n        return 1\n", "class A:\n    def __neg__(self) -> str:\n        return ''\n",
     "from p import A\nclass B(A):\n    pass\n",
     "from q import B\ndef f(b: B) -> int:\n    return -b\n"),
    ("op-getitem", "class A:\n    def __getitem__(self, i: int) -> int:\n        return 1\n", "class A:\n    def __getitem__(self, i: int) -> str:\n        return ''\n",
     "from p import A\nclass B(A):\n    pass\n",
     "from q import B\ndef f(b: B) -> int:\n    return b[0]\n"),
    ("op-setitem", "class A:\n    def __setitem__(self, i: int, v: int) -> None:\n        pass\n", "class A:\n    def __setitem__(self, i: int, v: str) -> None:\n        pass\n",
     "from p import A\nclass B(A):\n    pass\n",
     "from q import B\ndef f(b: B) -> None:\n    b[0] = 1\n"),
    ("op-contains", "class A:\n    def __contains__(self, i: int) -> bool:\n        return True\n", "class A:\n    def __contains__(self, i: str) -> bool:\n        return True\n",
     "from p import A\nclass B(A):\n    pass\n",
     "from q import B\ndef f(b: B) -> None:\n    1 in b\n"),
    ("op-iadd", "class A:\n    def __iadd__(self, o: int) -> 'A':\n        return self\n", "class A:\n    def __iadd__(self, o: str) -> 'A':\n        return self\n",
     "from p import A\nclass B(A):\n    pass\n",
     "from q import B\ndef f(b: B) -> None:\n    b += 1\n"),
    ("op-call", "class A:\n    def __call__(self) -> int:\n        return 1\n", "class A:\n    def __call__(self) -> str:\n        return ''\n",
     "from p import A\nclass B(A):\n    pass\n",
     "from q import B\ndef f(b: B) -> int:\n    return b()\n"),
    ("for-iter", TYP + "from typing import Iterator\nclass A:\n    def __iter__(self) -> Iterator[int]:\n        return None  # type: ignore\n",
     TYP + "from typing import Iterator\nclass A:\n    def __iter__(self) -> Iterator[str]:\n        return None  # type: ignore\n",
     "from p import A\nclass B(A):\n    pass\n",
     "from q import B\ndef f(b: B) -> int:\n    for e in b:\n        return e\n    return 0\n"),
    ("with-enter", "class A:\n    def __enter__(self) -> int:\n        return 1\n    def __exit__(self, a: object, b: object, c: object) -> None:\n        pass\n",
     "class A:\n    def __enter__(self) -> str:\n        return ''\n    def __exit__(self, a: object, b: object, c: object) -> None:\n        pass\n",
     "from p import A\nclass B(A):\n    pass\n",
     "from q import B\ndef f(b: B) -> int:\n    with b as e:\n        return e\n"),
    ("await", TYP + "from typing import Awaitable\nasync def g() -> int:\n    return 1\n", TYP + "from typing import Awaitable\nasync def g() -> str:\n    return ''\n",
     "from p import g\n",
     "import q\nasync def f() -> int:\n    return await q.g()\n"),
    ("isinstance", "class A:\n    x: int = 0\n", "class A:\n    x: str = ''\n",
     "from p import A\nclass B(A):\n    pass\n",
     "from q import B\ndef f(o: object) -> int:\n    if isinstance(o, B):\n        return o.x\n    return 0\n"),
    ("cast", TYP + "class A:\n    x: int = 0\n", TYP + "class A:\n    x: str = ''\n",
     "from p import A\nclass B(A):\n    pass\n",
     TYP + "from q import B\ndef f(o: object) -> int:\n    return cast(B, o).x\n"),
    ("instance-via-var", "class A:\n    x: int = 0\n", "class A:\n    x: str = ''\n",
     "import p\ninst = p.A()\n",
     "import q\ndef f() -> None:\n    y: int = q.inst.x\n"),
    ("list-element", TYP + "class A:\n    x: int = 0\n", TYP + "class A:\n    x: str = ''\n",
     TYP + "from p import A\nlst: List[A] = []\n",
     "import q\ndef f() -> int:\n    return q.lst[0].x\n"),
    ("enum-member", "from enum import Enum\nclass E(Enum):\n    A = 1\n", "from enum import Enum\nclass E(Enum):\n    B = 1\n",
     "from p import E\n",
     "import q\ndef f() -> None:\n    q.E.A\n"),
    ("overload-variant", TYP + "from typing import overload\n@overload\ndef g(a: int) -> int: ...\n@overload\ndef g(a: str) -> str: ...\ndef g(a: Any) -> Any:\n    return a\n",
     TYP + "from typing import overload\n@overload\ndef g(a: int) -> str: ...\n@overload\ndef g(a: str) -> str: ...\ndef g(a: Any) -> Any:\n    return a\n",
     "from p import g\n",
     "import q\ndef f() -> None:\n    y: int = q.g(1)\n"),
    ("default-arg-value", "def g() -> int:\n    return 1\n", "def g() -> str:\n    return ''\n",
     "from p import g\n",
     "import q\ndef f(a: int = q.g()) -> None:\n    pass\n"),
    ("method-body-use", "def g() -> int:\n    return 1\n", "def g() -> str:\n    return ''\n",
     "from p import g\n",
     "import q\nclass K:\n    def m(self) -> int:\n        return q.g()\n"),
    ("class-body-use", "def g() -> int:\n    return 1\n", "def g() -> str:\n    return ''\n",
     "from p import g\n",
     "import q\nclass K:\n    z: int = q.g()\n"),
    ("module-deleted", "v: int = 0\n", None,
     "x = 1\n",
     "import p\ndef f() -> int:\n    return p.v\n"),
]


GEN_X = TYP + "T = TypeVar('T')\nclass X(Generic[T]):\n    def __init__(self) -> None:\n        pass\n    def get(self) -> T:\n        return None  # type: ignore\n"
A_F = "class A:\n    def f(self, a: int) -> int:\n        return 1\n"

# (name, {file: text} before, {file: new text or None} = the edit).  Second table: the construct that must be
# re-resolved sits in a module that is only REPROCESSED (never re-parsed: the edit is elsewhere) — one scenario per
# field that server/aststrip.py NodeStripVisitor resets — and the remaining visit_* of server/deps.py.
DK2 = [
    # ---- aststrip: IndexExpr.analyzed (type application <-> indexing a value)
    ("strip-index-typeapp-func", {"p.py": GEN_X, "c.py": "import p\ndef f() -> None:\n    y = p.X[int]\n    z: str = y\n"},
     {"p.py": TYP + "X: List[int] = []\n"}),
    ("strip-index-typeapp-top", {"p.py": GEN_X, "c.py": "import p\ny = p.X[int]\nz: str = y\n"},
     {"p.py": TYP + "X: List[int] = []\n"}),
    ("strip-index-typeapp-from", {"p.py": GEN_X, "c.py": "from p import X\ndef f() -> None:\n    y = X[int]()\n    z: str = y.get()\n"},
     {"p.py": TYP + "X: List[int] = []\n"}),
    ("strip-index-alias-def", {"p.py": GEN_X, "c.py": "import p\nA = p.X[int]\ndef f(a: A) -> str:\n    return a.get()\n"},
     {"p.py": TYP + "X: List[int] = []\n"}),
    # ---- aststrip: CallExpr.analyzed (NewType / NamedTuple / TypeVar / cast calls)
    ("strip-call-newtype", {"p.py": "class X:\n    pass\n", "c.py": TYP + "import p\nN = NewType('N', p.X)\ndef f() -> None:\n    N(p.X())\n    N(1)\n"},
     {"p.py": "X = int\n"}),
    ("strip-call-namedtuple", {"p.py": "Al = int\n", "c.py": TYP + "import p\nNT = NamedTuple('NT', [('a', p.Al)])\ndef f(n: NT) -> int:\n    return n.a\n"},
     {"p.py": "Al = str\n"}),
    ("strip-call-typevar", {"p.py": "class X:\n    pass\nclass Y(X):\n    pass\n", "c.py": TYP + "import p\nTV = TypeVar('TV', bound=p.X)\ndef ident(a: TV) -> TV:\n    return a\ndef f() -> None:\n    ident(p.Y())\n"},
     {"p.py": "class X:\n    pass\nclass Y:\n    pass\n"}),
    ("strip-call-cast-kind", {"p.py": "class X:\n    x: int = 0\n", "c.py": TYP + "import p\ndef f(o: object) -> int:\n    return cast(p.X, o).x\n"},
     {"p.py": "def X() -> int:\n    return 1\n"}),
    ("strip-call-kind", {"p.py": "def mk(a: int) -> int:\n    return a\n", "c.py": "import p\nv = p.mk(1)\ndef f() -> int:\n    return v\n"},
     {"p.py": "class mk:\n    def __init__(self, a: int) -> None:\n        pass\n"}),
    # ---- aststrip: RefExpr kind/node (name and member expressions)
    ("strip-name-kind", {"p.py": "def g(a: int) -> int:\n    return a\n", "c.py": "from p import g\ndef f() -> int:\n    return g(1)\n"},
     {"p.py": "class g:\n    def __init__(self, a: int) -> None:\n        pass\n"}),
    ("strip-member-kind", {"p.py": "v: int = 0\n", "c.py": "import p\ndef f() -> int:\n    return p.v\n"},
     {"p.py": "def v() -> int:\n    return 0\n"}),
    ("strip-name-var-to-alias", {"p.py": "K = int\n", "c.py": "from p import K\ndef f(a: K) -> int:\n    return a\n"},
     {"p.py": "K = 1\n"}),
    # ---- aststrip: SuperExpr.info ; deps: visit_super_expr through an intermediate base gaining / losing the method
    ("super-middle-gains-method", {"p.py": A_F, "q.py": "from p import A\nclass B(A):\n    pass\n",
                                   "c.py": "from q import B\nclass C(B):\n    def g(self) -> int:\n        return super().f(1)\n"},
     {"q.py": "from p import A\nclass B(A):\n    def f(self, a: str) -> int:  # type: ignore[override]\n        return 2\n"}),
    ("super-middle-gains-method-ret", {"p.py": A_F, "q.py": "from p import A\nclass B(A):\n    pass\n",
                                       "c.py": "from q import B\nclass C(B):\n    def g(self) -> int:\n        return super().f(1)\n"},
     {"q.py": "from p import A\nclass B(A):\n    def f(self, a: int) -> str:  # type: ignore[override]\n        return ''\n"}),
    ("super-init-middle", {"p.py": "class A:\n    def __init__(self, a: int) -> None:\n        pass\n", "q.py": "from p import A\nclass B(A):\n    pass\n",
                           "c.py": "from q import B\nclass C(B):\n    def __init__(self) -> None:\n        super().__init__(1)\n"},
     {"q.py": "from p import A\nclass B(A):\n    def __init__(self) -> None:\n        super().__init__(1)\n"}),
    ("super-new-middle", {"p.py": "class A:\n    def __new__(cls, a: int) -> 'A':\n        return object.__new__(cls)\n", "q.py": "from p import A\nclass B(A):\n    pass\n",
                          "c.py": "from q import B\nclass C(B):\n    def __new__(cls) -> 'C':\n        super().__new__(cls, 1)\n        return object.__new__(cls)\n"},
     {"q.py": "from p import A\nclass B(A):\n    def __new__(cls) -> 'B':\n        return object.__new__(cls)\n"}),
    ("super-base-of-base-changes", {"p.py": A_F, "q.py": "from p import A\nclass B(A):\n    pass\n",
                                    "c.py": "from q import B\nclass C(B):\n    def g(self) -> int:\n        return super().f(1)\n"},
     {"p.py": "class A:\n    def f(self, a: str) -> int:\n        return 1\n"}),
    # ---- multiple inheritance
    ("mro-first-base-gains", {"p.py": "class A:\n    pass\nclass M:\n    def m(self) -> int:\n        return 1\n",
                              "c.py": "from p import A, M\nclass C(A, M):\n    pass\ndef f(c: C) -> int:\n    return c.m()\n"},
     {"p.py": "class A:\n    def m(self) -> str:\n        return ''\nclass M:\n    def m(self) -> int:\n        return 1\n"}),
    ("mro-second-base-attr", {"p.py": "class A:\n    pass\nclass M:\n    x: int = 0\n", "q.py": "from p import A, M\nclass B(A, M):\n    pass\n",
                              "c.py": "from q import B\ndef f(b: B) -> None:\n    y: int = b.x\n"},
     {"p.py": "class A:\n    pass\nclass M:\n    x: str = ''\n"}),
    # ---- metaclass attribute, property setter, reversed comparison
    ("metaclass-attr", {"p.py": "class Meta(type):\n    x: int = 0\n", "q.py": "from p import Meta\nclass K(metaclass=Meta):\n    pass\n",
                        "c.py": "from q import K\ndef f() -> None:\n    y: int = K.x\n"},
     {"p.py": "class Meta(type):\n    x: str = ''\n"}),
    ("property-setter", {"p.py": "class A:\n    @property\n    def x(self) -> int:\n        return 1\n    @x.setter\n    def x(self, v: int) -> None:\n        pass\n",
                         "q.py": "from p import A\nclass B(A):\n    pass\n", "c.py": "from q import B\ndef f(b: B) -> None:\n    b.x = 1\n"},
     {"p.py": "class A:\n    @property\n    def x(self) -> int:\n        return 1\n    @x.setter\n    def x(self, v: str) -> None:\n        pass\n"}),
    ("op-gt-reversed", {"p.py": "class A:\n    def __gt__(self, o: int) -> bool:\n        return True\n", "q.py": "from p import A\nclass B(A):\n    pass\n",
                        "c.py": "from q import B\ndef f(b: B) -> None:\n    1 < b\n"},
     {"p.py": "class A:\n    def __gt__(self, o: str) -> bool:\n        return True\n"}),
    ("op-rsub", {"p.py": "class A:\n    def __rsub__(self, o: int) -> int:\n        return 1\n", "q.py": "from p import A\nclass B(A):\n    pass\n",
                 "c.py": "from q import B\ndef f(b: B) -> None:\n    y: int = 1 - b\n"},
     {"p.py": "class A:\n    def __rsub__(self, o: int) -> str:\n        return ''\n"}),
    # ---- aststrip: assignment lvalue definitions (attributes / variables defined by the reprocessed target)
    ("lvalue-self-attr", {"p.py": "def g() -> int:\n    return 1\n",
                          "c.py": "import p\nclass K:\n    def __init__(self) -> None:\n        self.a = p.g()\n    def use(self) -> int:\n        return self.a\n"},
     {"p.py": "def g() -> str:\n    return ''\n"}),
    ("lvalue-self-attr-tuple", {"p.py": TYP + "from typing import Tuple\ndef g() -> Tuple[int, int]:\n    return (1, 1)\n",
                                "c.py": "import p\nclass K:\n    def __init__(self) -> None:\n        self.a, self.b = p.g()\n    def use(self) -> int:\n        return self.b\n"},
     {"p.py": TYP + "from typing import Tuple\ndef g() -> Tuple[int, str]:\n    return (1, '')\n"}),
    ("lvalue-module-var", {"p.py": "def g() -> int:\n    return 1\n", "c.py": "import p\nv = p.g()\ndef f() -> int:\n    return v\n"},
     {"p.py": "def g() -> str:\n    return ''\n"}),
    ("lvalue-class-var", {"p.py": "def g() -> int:\n    return 1\n", "c.py": "import p\nclass K:\n    a = p.g()\ndef f(k: K) -> int:\n    return k.a\n"},
     {"p.py": "def g() -> str:\n    return ''\n"}),
    ("lvalue-final", {"p.py": "def g() -> int:\n    return 1\n", "c.py": TYP + "import p\nF: Final = p.g()\ndef f() -> int:\n    return F\n"},
     {"p.py": "def g() -> str:\n    return ''\n"}),
    # ---- aststrip: for / with inferred types at top level, decorators and class definitions in the reprocessed module
    ("for-toplevel", {"p.py": TYP + "from typing import Iterator\nclass A:\n    def __iter__(self) -> Iterator[int]:\n        return None  # type: ignore\n",
                      "c.py": "import p\nfor e in p.A():\n    y: int = e\n"},
     {"p.py": TYP + "from typing import Iterator\nclass A:\n    def __iter__(self) -> Iterator[str]:\n        return None  # type: ignore\n"}),
    ("with-toplevel", {"p.py": "class A:\n    def __enter__(self) -> int:\n        return 1\n    def __exit__(self, a: object, b: object, c: object) -> None:\n        pass\n",
                       "c.py": "import p\nwith p.A() as e:\n    y: int = e\n"},
     {"p.py": "class A:\n    def __enter__(self) -> str:\n        return ''\n    def __exit__(self, a: object, b: object, c: object) -> None:\n        pass\n"}),
    ("decorator-local-func", {"p.py": TYP + "def deco(f: Callable[..., int]) -> Callable[..., int]:\n    return f\n",
                              "c.py": "import p\n@p.deco\ndef g(a: int) -> int:\n    return a\ndef f() -> None:\n    y: int = g(1)\n"},
     {"p.py": TYP + "def deco(f: Callable[..., int]) -> Callable[..., str]:\n    return f  # type: ignore\n"}),
    ("decorator-local-method", {"p.py": TYP + "def deco(f: Callable[..., int]) -> Callable[..., int]:\n    return f\n",
                                "c.py": "import p\nclass K:\n    @p.deco\n    def m(self, a: int) -> int:\n        return a\ndef f(k: K) -> None:\n    y: int = k.m(1)\n"},
     {"p.py": TYP + "def deco(f: Callable[..., int]) -> Callable[..., str]:\n    return f  # type: ignore\n"}),
    ("classdef-local-base", {"p.py": "class A:\n    x: int = 0\n", "c.py": "import p\nclass K(p.A):\n    pass\ndef f() -> None:\n    y: int = K().x\n"},
     {"p.py": "class A:\n    x: str = ''\n"}),
    ("classdef-local-base-kind", {"p.py": "class A:\n    x: int = 0\n", "c.py": "import p\nclass K(p.A):\n    pass\ndef f() -> None:\n    y: int = K().x\n"},
     {"p.py": "A = 1\n"}),
    ("classdef-local-generic-base", {"p.py": GEN_X, "c.py": "import p\nclass K(p.X[int]):\n    pass\ndef f(k: K) -> str:\n    return k.get()\n"},
     {"p.py": GEN_X.replace("def get(self) -> T:\n        return None  # type: ignore", "def get(self) -> List[T]:\n        return []")}),
    ("classdef-local-namedtuple", {"p.py": "Al = int\n", "c.py": TYP + "import p\nclass NT(NamedTuple):\n    a: p.Al\ndef f(n: NT) -> int:\n    return n.a\n"},
     {"p.py": "Al = str\n"}),
    ("classdef-local-dataclass", {"p.py": "Al = int\n", "c.py": "from dataclasses import dataclass\nimport p\n@dataclass\nclass D:\n    a: p.Al\ndef f() -> None:\n    D(1)\n"},
     {"p.py": "Al = str\n"}),
    ("overload-local", {"p.py": "Al = int\n", "c.py": TYP + "from typing import overload\nimport p\n@overload\ndef g(a: p.Al) -> int: ...\n@overload\ndef g(a: bytes) -> str: ...\ndef g(a: Any) -> Any:\n    return a\ndef f() -> None:\n    y: int = g(1)\n"},
     {"p.py": "Al = str\n"}),
    # ---- aststrip: ImportFrom / ImportAll assignments
    ("import-all-var", {"p.py": "v: int = 0\n", "c.py": "from p import *\ndef f() -> int:\n    return v\n"},
     {"p.py": "v: str = ''\n"}),
    ("import-all-removed", {"p.py": "v: int = 0\n", "c.py": "from p import *\ndef f() -> int:\n    return v\n"},
     {"p.py": "w: int = 0\n"}),
    ("import-from-to-module-attr", {"p.py": "v: int = 0\n", "c.py": "from p import v as w\nz = w\ndef f() -> int:\n    return z\n"},
     {"p.py": "v: str = ''\n"}),
    # ---- remaining visit_* of deps.py and type triggers
    ("del-item", {"p.py": "class A:\n    def __delitem__(self, i: int) -> None:\n        pass\n", "q.py": "from p import A\nclass B(A):\n    pass\n",
                  "c.py": "from q import B\ndef f(b: B) -> None:\n    del b[0]\n"},
     {"p.py": "class A:\n    def __delitem__(self, i: str) -> None:\n        pass\n"}),
    ("type-application-call", {"p.py": GEN_X, "c.py": "import p\ndef f() -> str:\n    return p.X[int]().get()\n"},
     {"p.py": GEN_X.replace("def get(self) -> T:\n        return None  # type: ignore", "def get(self) -> str:\n        return ''")}),
    ("list-comprehension-iter", {"p.py": TYP + "from typing import Iterator\nclass A:\n    def __iter__(self) -> Iterator[int]:\n        return None  # type: ignore\n",
                                 "q.py": "from p import A\nclass B(A):\n    pass\n", "c.py": TYP + "from q import B\ndef f(b: B) -> None:\n    y: List[int] = [e for e in b]\n"},
     {"p.py": TYP + "from typing import Iterator\nclass A:\n    def __iter__(self) -> Iterator[str]:\n        return None  # type: ignore\n"}),
    ("iterable-protocol-arg", {"p.py": TYP + "from typing import Iterator\nclass A:\n    def __iter__(self) -> Iterator[int]:\n        return None  # type: ignore\n",
                               "q.py": "from p import A\nclass B(A):\n    pass\n",
                               "c.py": "from typing import Iterable\nfrom q import B\ndef g(a: Iterable[int]) -> None:\n    pass\ndef f(b: B) -> None:\n    g(b)\n"},
     {"p.py": TYP + "from typing import Iterator\nclass A:\n    def __iter__(self) -> Iterator[str]:\n        return None  # type: ignore\n"}),
    ("assert-type", {"p.py": "class A:\n    x: int = 0\n", "q.py": "from p import A\nclass B(A):\n    pass\n",
                     "c.py": "from typing import assert_type\nfrom q import B\ndef f(b: B) -> None:\n    assert_type(b.x, int)\n"},
     {"p.py": "class A:\n    x: str = ''\n"}),
    ("eq-dunder", {"p.py": "class A:\n    def __eq__(self, o: object) -> bool:\n        return True\n", "q.py": "from p import A\nclass B(A):\n    pass\n",
                   "c.py": "from q import B\ndef f(b: B) -> None:\n    y: bool = b == 1\n"},
     {"p.py": "class A:\n    def __eq__(self, o: object) -> int:  # type: ignore[override]\n        return 1\n"}),
    ("type-of-class-param", {"p.py": "class A:\n    def __init__(self) -> None:\n        pass\n", "q.py": "from p import A\nclass B(A):\n    pass\n",
                             "c.py": "from typing import Type\nfrom q import B\ndef f(t: Type[B]) -> None:\n    t()\n"},
     {"p.py": "class A:\n    def __init__(self, a: int) -> None:\n        pass\n"}),
    ("callable-param-type", {"p.py": "class A:\n    x: int = 0\n", "q.py": "from p import A\nclass B(A):\n    pass\n",
                             "c.py": TYP + "from q import B\ndef f(cb: Callable[[], B]) -> None:\n    y: int = cb().x\n"},
     {"p.py": "class A:\n    x: str = ''\n"}),
    ("optional-param-type", {"p.py": "class A:\n    x: int = 0\n", "q.py": "from p import A\nclass B(A):\n    pass\n",
                             "c.py": TYP + "from q import B\ndef f(b: Optional[B]) -> int:\n    if b:\n        return b.x\n    return 0\n"},
     {"p.py": "class A:\n    x: str = ''\n"}),
    ("tuple-param-type", {"p.py": "class A:\n    x: int = 0\n", "q.py": "from p import A\nclass B(A):\n    pass\n",
                          "c.py": "from typing import Tuple\nfrom q import B\ndef f(t: Tuple[B, int]) -> int:\n    return t[0].x\n"},
     {"p.py": "class A:\n    x: str = ''\n"}),
    # predicted by the mini-language tie: a member absent on the whole base chain gets no <Base.member> edge
    ("base-gains-attr", {"p.py": "class A:\n    pass\n", "q.py": "from p import A\nclass B(A):\n    pass\n",
                         "c.py": "from q import B\ndef f(b: B) -> int:\n    return b.x\n"},
     {"p.py": "class A:\n    x: int = 0\n"}),
    ("base-gains-method", {"p.py": "class A:\n    pass\n", "q.py": "from p import A\nclass B(A):\n    pass\n",
                           "c.py": "from q import B\ndef f(b: B) -> int:\n    return b.m()\n"},
     {"p.py": "class A:\n    def m(self) -> int:\n        return 1\n"}),
    ("middle-base-gains-attr", {"p.py": "class A:\n    x: int = 0\n", "q.py": "from p import A\nclass B(A):\n    pass\n", "r.py": "from q import B\nclass C(B):\n    pass\n",
                                "c.py": "from r import C\ndef f(c: C) -> int:\n    return c.x\n"},
     {"q.py": "from p import A\nclass B(A):\n    x: str = ''  # type: ignore[assignment]\n"}),
    ("nested-func-use", {"p.py": "def g() -> int:\n    return 1\n", "c.py": "import p\ndef f() -> None:\n    def inner() -> int:\n        return p.g()\n"},
     {"p.py": "def g() -> str:\n    return ''\n"}),
    ("lambda-use", {"p.py": "def g() -> int:\n    return 1\n", "c.py": TYP + "import p\ndef f() -> None:\n    h: Callable[[], int] = lambda: p.g()\n"},
     {"p.py": "def g() -> str:\n    return ''\n"}),
    # ---- wave 5: re-exports and multiple inheritance (mini-language extension)
    ("reexport-source-changes-var", {"p1.py": "v: int = 0\n", "p2.py": "v: str = ''\n",
                                     "q.py": "from p1 import v\n", "c.py": "import q\ndef f() -> int:\n    return q.v\n"},
     {"q.py": "from p2 import v\n"}),
    ("second-base-attr-changes", {"p.py": "class A:\n    pass\nclass M:\n    x: int = 0\n", "q.py": "from p import A, M\nclass B(A, M):\n    pass\n",
                                  "c.py": "from q import B\ndef f(b: B) -> int:\n    return b.x\n"},
     {"p.py": "class A:\n    pass\nclass M:\n    x: str = ''\n"}),
    ("class-gains-second-base", {"p.py": "class A:\n    pass\nclass M:\n    x: int = 0\n", "q.py": "from p import A, M\nclass B(A):\n    pass\n",
                                 "c.py": "from q import B\ndef f(b: B) -> int:\n    return b.x\n"},
     {"q.py": "from p import A, M\nclass B(A, M):\n    pass\n"}),
]

# divergences predicted by the mini-language model (an edge the completeness proof needs and the real deps lack), confirmed on the
# unchanged tree, recorded in notes/C03-findings.json and listed in known_findings.json (part of the default streams)
DK_PENDING = [
    ("reexport-source-changes", {"p1.py": "def g() -> int:\n    return 1\n", "p2.py": "def g() -> str:\n    return ''\n",
                                 "q.py": "from p1 import g\n", "c.py": "from q import g\ndef f() -> int:\n    return g()\n"},
     {"q.py": "from p2 import g\n"}),
    ("reexport-becomes-local", {"p1.py": "def g() -> int:\n    return 1\n",
                                "q.py": "from p1 import g\n", "c.py": "from q import g\ndef f() -> int:\n    return g()\n"},
     {"q.py": "def g() -> str:\n    return ''\n"}),
]


def dk_scenarios() -> list[tuple[str, dict[str, str], dict[str, Any]]]:
    out = []
    for name, p0, p1, q, c in DK:
        files = {"q.py": q, "c.py": c}
        files["p.py"] = p0
        out.append((name, files, {"p.py": p1}))
    return out + DK2 + DK_PENDING


def dk_histories(quick: bool) -> list[dict[str, Any]]:
    out = []
    for i, (name, files, edit) in enumerate(dk_scenarios()):
        after = dict(files)
        for pth, t in edit.items():
            if t is None:
                after.pop(pth, None)
            else:
                after[pth] = t
        roots = ["c.py"]
        for j, (follow, cmd) in enumerate((("error", ["@all"]), ("normal", roots))):
            for rev in (False, True):
                if quick and (i + j + rev) % 2 == 1:
                    continue        # half of the combinations in the quick tier
                a, b = (after, files) if rev else (files, after)

                def st(frm: dict[str, str], to: dict[str, str]) -> dict[str, Any]:
                    w = {pth: t for pth, t in to.items() if frm.get(pth) != t}
                    d = [pth for pth in frm if pth not in to]
                    s_: dict[str, Any] = {"write": w, "desc": "dk:" + name, "how": "check"}
                    if d:
                        s_["delete"] = d
                    return s_
                h = {"id": f"dk-{name}-{follow[0]}{int(rev)}", "files0": dict(a), "steps": [st(a, b), st(b, a), st(a, b)],
                     "follow": follow, "cmd": cmd, "lib": "fixture", "monitor": True, "stream": "dk"}
                fix_how(h)
                out.append(h)
    return out


# ---------------------------------------------------------------------- contract monitors

def module_of_target(t: str, mods: list[str]) -> str:
    parts = t.split(".")
    for i in range(len(parts), 0, -1):
        if ".".join(parts[:i]) in mods:
            return ".".join(parts[:i])
    return parts[0]


def monitor_history(h: dict[str, Any], res: dict[str, Any]) -> list[tuple[int, str, str]]:
    """deps_complete / diff_complete as observable on the implementation.  After a step in which the
    daemon's stored diagnostics of target t agreed with the from-scratch ones BEFORE the step, and t was
    not reprocessed during the step (neither as a node nor as part of an updated module, over ALL
    update() calls of the request), the stored and from-scratch diagnostics of t must still agree:
    otherwise an edit changed the result of t without any trigger reaching it (a missing dependency
    edge or a missing trigger).  Line numbers are ignored (they move with edits above)."""
    out = []
    prev_ok: dict[str, bool] | None = None
    for obs in res["steps"]:
        stored, fresh = obs.get("stored"), (obs.get("fresh") or {}).get("targets")
        if stored is None or fresh is None or "crash" in obs["daemon"]:
            prev_ok = None
            continue
        def strip(xs):
            return sorted({x.split(":", 1)[1] for x in xs})
        agree = {t: strip(stored.get(t, [])) == strip(fresh.get(t, [])) for t in set(stored) | set(fresh)}
        if prev_ok is not None and obs["k"] > 0 and "processed" in obs:
            updated = set(obs.get("updated", [])) | set(obs.get("changed", []))
            for t in sorted(agree):
                if agree[t] or not prev_ok.get(t, True):
                    continue
                if t in obs["processed"] or any(t == m or t.startswith(m + ".") for m in updated):
                    continue
                kind = step_kind(h, obs["k"])
                codes = sorted({x.split(":", 2)[1] for x in set(stored.get(t, [])) ^ set(fresh.get(t, []))})
                out.append((obs["k"], f"monitor:deps_complete:not-reprocessed@{kind}",
                            f"target {t} was not reprocessed by the update but its from-scratch diagnostics changed: "
                            f"stored {stored.get(t, [])[:2]} from-scratch {fresh.get(t, [])[:2]}"))
                break
        prev_ok = agree
    return out


# ---------------------------------------------------------------------- model <-> implementation traces

class Intern:
    def __init__(self, names: list[str]):
        self.ix = {n: i + 1 for i, n in enumerate(sorted(set(names)))}

    def __call__(self, n: str) -> int:
        return self.ix[n]


def coq_list(xs: list[str]) -> str:
    return "[" + "; ".join(xs) + "]"


def coq_deps(deps: dict[str, list[str]], trg: Intern, tgt: Intern) -> str:
    ents = []
    for k in sorted(deps):
        vs = [f"Trig {trg(v)}" if v.startswith("<") else f"Targ {tgt(v)}" for v in deps[k]]
        ents.append(f"({trg(k)}, {coq_list(vs)})")
    return coq_list(ents)


def trace_cases(res: dict[str, Any], limit: int) -> list[dict[str, Any]]:
    """Turn the recorded propagate calls of one history into model evaluation cases."""
    cases = []
    for obs in res["steps"]:
        for call in obs.get("calls", []) or []:
            if call["deps0"] is None or not call["iters"]:
                continue
            if len(cases) >= limit:
                return cases
            cases.append({"hist": res["id"], "k": obs["k"], "call": call})
    return cases


def model_expr(call: dict[str, Any]) -> tuple[str, str, dict[str, Any]]:
    """Coq expression running propagate_trace on the observed deps with the observed answers of
    lookup_target / reprocess_nodes, and the canonical string the implementation's trace must equal."""
    iters = call["iters"]
    names_trg, names_tgt, mods = set(), set(), set()
    def add_dep(d):
        for k, vs in d.items():
            names_trg.add(k)
            for v in vs:
                (names_trg if v.startswith("<") else names_tgt).add(v)
    add_dep(call["deps0"])
    for it in iters:
        add_dep(it["deps"])
        mods.update(it["graph"])
        mods.update(it["U"])
        names_trg.update(it["triggers"])
        for t, m, ns in it["looked"] + it["err_looked"]:
            names_tgt.add(t); names_tgt.update(ns); mods.add(m)
        for g in it["groups"]:
            mods.add(g["module"]); names_tgt.update(g["nodes"]); names_trg.update(g["fired"])
            add_dep(g["new_deps"] or {})
    names_trg.update(call["F"]); names_tgt.update(call["E"]); mods.update(call["U"])
    allmods = sorted(mods)
    for t in list(names_tgt):
        mods.add(module_of_target(t, allmods))
    trg, tgt, md = Intern(list(names_trg)), Intern(list(names_tgt)), Intern(list(mods))
    # finite tables observed on the implementation
    modtab = coq_list([f"({tgt(t)}, {md(module_of_target(t, allmods))})" for t in sorted(names_tgt)])
    looktab = []   # (number of reprocess calls so far, name) -> units
    reptab = []    # index of the reprocess call -> (module, fired, new deps)
    livetab = []
    ncalls = 0
    for i, it in enumerate(iters):
        seen = {}
        for t, m, ns in it["looked"] + it["err_looked"]:
            seen[t] = ns
        for t, ns in sorted(seen.items()):
            looktab.append(f"(({ncalls}%nat, {tgt(t)}), {coq_list([str(tgt(n)) for n in ns])})")
        livetab.append(f"({ncalls}%nat, {coq_list([str(md(m)) for m in it['graph'] if m in md.ix])})")
        for g in [g for g in it["groups"] if g["nodes"] or g["fired"] or g["new_deps"]]:
            reptab.append(f"({ncalls}%nat, ({md(g['module'])}, ({coq_list([str(trg(x)) for x in g['fired']])}, {coq_deps(g['new_deps'] or {}, trg, tgt)})))")
            ncalls += 1
    expr = (f"run_trace {coq_deps(call['deps0'], trg, tgt)} {modtab} {coq_list(looktab)} {coq_list(reptab)} {coq_list(livetab)} "
            f"{coq_list([str(trg(x)) for x in call['F']])} {coq_list([str(md(x)) for x in call['U']])} {coq_list([str(tgt(x)) for x in call['E']])}")
    # what the implementation did: per iteration the set of reprocessed nodes, then the final deps
    impl_iters = []
    for it in iters:
        nodes = sorted({tgt(n) for g in it["groups"] for n in g["nodes"]})
        impl_iters.append(nodes)
    return expr, json.dumps(impl_iters), {"n_iters": len(iters), "n_deps": sum(len(v) for v in call["deps0"].values())}


TRACE_HEADER = """From Coq Require Import PArith List Bool.
From C03 Require Import Model Trace.
Import ListNotations.
Open Scope positive_scope.
"""


def parse_model_trace(s: str) -> Any:
    """'Some [[1; 2]; [3]]' -> [[1,2],[3]] ; 'None' -> None"""
    s = s.strip()
    if s == "None":
        return None
    s = s[4:].strip() if s.startswith("Some") else s
    s = s.strip("() ")
    s = re.sub(r"(\d+)%positive", r"\1", s)
    return json.loads(s.replace(";", ","))


# ---------------------------------------------------------------------- run

def known_keys() -> set[str]:
    ks = {k["key"] for k in vlib.load_known() if k.get("property") == "C03" and k.get("status", "known") == "known"}
    extra = os.environ.get("VERIF_KNOWN_EXTRA")
    if extra and os.path.exists(extra):
        try:
            d = json.load(open(extra))
            d = d["findings"] if isinstance(d, dict) else d
            ks |= {k["key"] for k in d if k.get("property", "C03") == "C03"}
        except Exception:
            pass
    return ks


def repro_text(h: dict[str, Any]) -> str:
    """One-line replayable description of a (shrunk) history."""
    parts = [f"follow_imports={h['follow']}", "cmd=" + " ".join(h["cmd"])]
    parts.append("files: " + json.dumps({p: t for p, t in h["files0"].items() if p not in ("builtins.pyi", "typing.pyi")}))
    for i, st in enumerate(h["steps"]):
        parts.append(f"step {i + 1} ({st.get('how', 'check')}): " + json.dumps({k: st[k] for k in ("write", "delete") if st.get(k)}))
    return "; ".join(parts)


def build_histories(ctx: vlib.Ctx) -> tuple[list[dict[str, Any]], dict[str, int]]:
    hists: list[dict[str, Any]] = []
    n_tame, n_wild = ctx.n(32, 360), ctx.n(12, 140)
    for i in range(n_tame):
        m = dict(MODES[i % 4]); m.update({"wild": False, "monitor": True, "trace": i % 5 == 0, "stream": "tame"})
        hists.append(gen_history(ctx.seed, i, m))
    for i in range(n_wild):
        m = dict(MODES[i % 4]); m.update({"wild": True, "monitor": True, "trace": i % 5 == 0, "stream": "wild"})
        hists.append(gen_history(ctx.seed, 5000 + i, m))
    dk = dk_histories(ctx.quick)
    for i, h in enumerate(dk):
        h["trace"] = i % 8 == 0
    hists += dk
    for i in range(ctx.n(2, 12)):               # the real typeshed (slow: ~3 s per fresh build)
        m = {"follow": ["normal", "error"][i % 2], "cmd": ["m0.py"] if i % 2 == 0 else ["@all"], "lib": "typeshed",
             "wild": False, "monitor": True, "max_steps": 4, "stream": "typeshed"}
        hists.append(gen_history(ctx.seed, 10_000 + i, m))
    import glob
    tests: list[dict[str, Any]] = []
    for f in sorted(glob.glob(os.path.join(vlib.REPO, "test-data/unit/fine-grained*.test"))):
        if "cache-incremental" in f:
            continue
        try:
            tests += parse_test_file(f)
        except Exception as e:  # noqa
            ctx.log("cannot parse", f, repr(e))
    if ctx.quick:
        tests = vlib.Rng(ctx.seed, "tests").sample(tests, min(len(tests), 40))[:30]
    for t in tests:
        t["monitor"] = False
        t["stream"] = "tests"
        t["stream_kind"] = "test-suite"
    hists += tests
    dist: dict[str, int] = {}
    for h in hists:
        k = h["stream"] + "/" + h["follow"]
        dist[k] = dist.get(k, 0) + 1
    return hists, dist


def run(ctx: vlib.Ctx) -> None:
    ctx.cov["rule"] = ("streams: tame = random edit histories (3-8 steps) over generated 2-5 module programs with acyclic imports "
                       "(functions, classes with attributes/methods/bases, NamedTuple/Protocol/NewType/decorators, aliases, inferred "
                       "variables; uses in top levels, function and method bodies, defaults, decorators, subclasses); edits re-sample a "
                       "definition parameter, add/delete definitions and uses, change import style, delete/re-create/add files, revert; "
                       "wild = additionally import cycles, star imports, same-module forward references, method-kind and "
                       "function/variable kind changes, syntax errors; dk = one 3-module scenario per dependency kind of server/deps.py "
                       "(the changed definition reaches a function body in a third module through exactly that kind of edge; edit, "
                       "revert, edit again; both directions); typeshed = tame with the real typeshed; tests = multi-step programs of "
                       "test-data/unit/fine-grained*.test.  Requests: check / recheck / recheck --update --remove; follow-imports "
                       "error, skip, normal.  non-trivial = an increment that reprocesses at least one target outside the changed modules")
    ctx.assumptions += [
        "deps_complete (server/deps.py), diff_complete (server/astdiff.py), check_module_consistent (update_module_isolated), "
        "full_check_consistent + consistent_unique (batch build): Section hypotheses of the theorems, monitored not proved",
        "hash_digest modelled as the identity on contents; explicit mtime discipline (the harness moves every written file's mtime forward by 10 s)",
        "blocking errors, fine-grained cache loading (unloaded modules / remaining_modules), astmerge/aststrip internals, plugins and protocol-cache invalidation are not modelled",
        "fresh-run oracle: mypy.build.build(incremental=False) in a process forked from a state that never built anything; same Options as the daemon "
        "(process_start_options flags; local_partial_types=True as the daemon requires); status by the rule of mypy/main.py",
        "library: a fixed builtins fixture + test-data/unit/lib-stub (use_builtins_fixtures) for volume, the real typeshed for a few histories",
    ]
    if os.path.exists(os.path.join(vlib.COQ, "C03/Properties.v")):
        ctx.prove("C03/Properties.v", ["C03", "lib"])
    else:
        ctx.broke("P", "C03/Properties.v", "missing")

    hists, dist = build_histories(ctx)
    t0 = time.time()
    # generous: a timeout is a harness problem (overloaded machine), never a verdict about mypy
    results = run_jobs(hists, timeout=ctx.n(3000, 6000))
    ctx.log(f"ran {len(hists)} histories ({dist}) in {time.time()-t0:.0f}s with {JOBS} workers")

    # ---- S: daemon == fresh run after every step ; contract monitor
    first: dict[str, tuple[dict[str, Any], int, str]] = {}
    counts: dict[str, int] = {}
    n_steps = n_nontrivial = n_ok_hist = n_harness = 0
    clean_by_stream: dict[str, list[int]] = {}
    for h, r in zip(hists, results):
        if "harness_crash" in r:
            n_harness += 1
            if n_harness <= 2:
                ctx.broke("C", "harness", f"history {h['id']}: {r['harness_crash'][-600:]}")
            continue
        for obs in r["steps"]:
            n_steps += 1
            if obs["k"] > 0:
                upd = set(obs.get("updated", [])) | set(obs.get("changed", []))
                if any(not any(t == m or t.startswith(m + ".") for m in upd) for t in obs.get("processed", [])):
                    n_nontrivial += 1
        found = history_findings(h, r) + monitor_history(h, r)
        cs = clean_by_stream.setdefault(h["stream"], [0, 0])
        cs[0] += not found
        cs[1] += 1
        n_ok_hist += not found
        for k, key, what in found:
            counts[key] = counts.get(key, 0) + 1
            if key.startswith("harness:"):
                ctx.broke("C", "fresh run crashed", f"{h['id']} step {k}: {what}")
            elif key not in first or (len(json.dumps(h)) < len(json.dumps(first[key][0]))):
                first[key] = (h, k, what)
    ctx.add("evaluations", n_steps)
    ctx.cov["histories"] = len(hists)
    ctx.cov["histories_all_steps_equal"] = n_ok_hist
    ctx.cov["clean_histories_by_stream"] = {k: f"{a}/{b}" for k, (a, b) in sorted(clean_by_stream.items())}
    ctx.cov["distinct_nontrivial"] = n_nontrivial
    ctx.cov["distribution"] = dist
    ctx.cov["difference_classes"] = dict(sorted(counts.items()))
    known = known_keys()
    n_shrunk = 0
    for key, (h, k, what) in sorted(first.items()):
        hh = {x: y for x, y in h.items() if x not in ("trace",)}
        hh["steps"] = hh["steps"][:k]
        if key not in known and n_shrunk < ctx.n(20, 40) and len(hh["steps"]) + len(hh["files0"]) > 3:
            n_shrunk += 1
            try:
                hh = shrink(hh, key, ctx.n(24, 60))
            except Exception as e:  # noqa
                ctx.log("shrink failed", repr(e))
        ctx.violation(key, what + " | repro: " + repro_text(hh), {"history": hh, "failing_step": len(hh["steps"]),
                                                                "how_to_replay": "bin/check C03 --replay <this file>"})
    for h in (hists[0], hists[len(hists) // 2], hists[-1]):
        ctx.sample({"id": h["id"], "follow": h["follow"], "cmd": h["cmd"], "files0": {p: t[:300] for p, t in list(h["files0"].items())[:2]},
                    "steps": [s.get("desc", sorted(s.get("write", {}))) for s in h["steps"]]})

    # ---- C: traces against the Coq model
    trace_stage(ctx, results)
    # ---- C: mini language (proved deps/diff) against the real deps.py / astdiff.py
    try:
        mini_stage(ctx)
    except Exception:
        ctx.broke("C", "mini tie", traceback.format_exc()[-1500:])


def trace_stage(ctx: vlib.Ctx, results: list[dict[str, Any]]) -> None:
    if not os.path.exists(os.path.join(vlib.COQ, "C03/Trace.v")):
        ctx.broke("C", "C03/Trace.v", "missing")
        return
    ok, out = vlib.coq_make(["C03/Trace.vo"])
    if not ok:
        ctx.broke("C", "C03/Trace.v", out[-2000:])
        return
    cases = []
    for r in results:
        cases += trace_cases(r, 12)
    cases = cases[:ctx.n(150, 1500)]
    exprs, expect, meta = [], [], []
    for c in cases:
        e, x, m = model_expr(c["call"])
        if len(e) > 400_000:
            continue
        exprs.append(e); expect.append(x); meta.append((c, m))
    if not exprs:
        ctx.broke("C", "traces", "no propagate call was recorded")
        return
    outs = ctx.eval_cases("trace", TRACE_HEADER, exprs, per_file=25)
    if outs is None:
        return
    bad = 0
    for o, x, (c, m) in zip(outs, expect, meta):
        try:
            got = parse_model_trace(o)
        except Exception:
            got = "unparsable: " + o[:200]
        want = json.loads(x)
        if got != want:
            bad += 1
            if bad <= 3:
                ctx.broke("C", "propagate trace", f"history {c['hist']} step {c['k']}: model iterations {str(got)[:300]} != implementation {str(want)[:300]}",
                          {"call": {k: v for k, v in c["call"].items() if k != "deps0"}})
    ctx.add("traces_validated_against_impl", len(exprs) - bad)
    ctx.cov["trace_iterations"] = sum(m["n_iters"] for _, m in meta)
    ctx.cov["trace_max_deps_entries"] = max(m["n_deps"] for _, m in meta)


def replay(ctx: vlib.Ctx, path: str) -> None:
    d = json.load(open(path))
    h = d["replay"]["history"] if "replay" in d else d
    h["monitor"] = True
    h.pop("trace", None)
    r = run_jobs([h], 1)[0]
    if "harness_crash" in r:
        print(r["harness_crash"])
    for obs in r["steps"]:
        print(f"--- step {obs['k']} daemon: {json.dumps(obs['daemon'])[:1500]}")
        print(f"    step {obs['k']} fresh : {json.dumps({k: v for k, v in obs['fresh'].items() if k != 'targets'})[:1500]}")
    for k, key, what in history_findings(h, r) + monitor_history(h, r):
        print(f"step {k}: {key}: {what}")
        ctx.violation(key, what, {"history": h})


def export_findings() -> None:
    """Merge the replay files written by runs into notes/C03-findings.json."""
    import glob
    out_p = os.path.join(vlib.VERIF, "notes/C03-findings.json")
    cur = json.load(open(out_p)) if os.path.exists(out_p) else []
    have = {e["key"] for e in cur}
    for f in sorted(glob.glob(os.path.join(vlib.REPLAYS, "C03-*.json"))):
        d = json.load(open(f))
        if "key" in d and d["key"] not in have and not d["key"].startswith("harness"):
            have.add(d["key"])
            cur.append({"property": "C03", "status": "known", "key": d["key"], "what": d["what"][:6000]})
    cur.sort(key=lambda e: e["key"])
    json.dump(cur, open(out_p, "w"), indent=1)
    print(len(cur), "findings in", out_p)


if __name__ == "__main__" and "--export-findings" in sys.argv:
    export_findings()


# ---------------------------------------------------------------------- mini language: model deps / diff vs the real ones

CLS, FUN, VAR = [2, 3, 4], [6, 7, 8], [10, 11]          # identifiers by kind (1 = __init__)
ATT, MET = [2, 3], [5, 6]


def mini_name(x: int, member: bool = False) -> str:
    if member:
        return "__init__" if x == 1 else (f"a{x}" if x in ATT else f"g{x}")
    return f"C{x}" if x in CLS else f"f{x}" if x in FUN else f"v{x}"


class MiniGen:
    """Random well-scoped programs of the mini language (coq/C03/MiniLang.v): 3 modules, acyclic inheritance."""

    def __init__(self, rng: vlib.Rng):
        self.r = rng
        self.mods: dict[int, dict[str, Any]] = {}
        for m in (1, 2, 3):
            self.mods[m] = self.gen_module(m)

    def ty(self, m: int) -> Any:
        r = self.r
        classes = [(mm, c) for mm, d in self.mods.items() for c in d["classes"]]
        if classes and r.random() < 0.45:
            return ["inst"] + list(r.choice(classes))
        return [r.choice(["int", "str"])]

    def gen_module(self, m: int) -> dict[str, Any]:
        r = self.r
        d: dict[str, Any] = {"from": {}, "vars": {}, "funcs": {}, "classes": {}}
        self.mods[m] = d
        earlier = [(mm, c) for mm, dd in self.mods.items() if mm < m for c in dd["classes"]]
        for c in r.sample(CLS, r.randint(1, 2)):
            bases: list[Any] = []
            cands = earlier + [(m, c2) for c2 in d["classes"] if c2 < c]
            if cands and r.random() < 0.7:
                bases.append(list(r.choice(cands)))
                # multiple inheritance: a second base without bases of its own (always a consistent MRO)
                roots = [list(x) for x in cands if list(x) != bases[0] and not self.mods[x[0]]["classes"][x[1]]["bases"]]
                if roots and r.random() < 0.4:
                    bases.append(r.choice(roots))
            attrs = {a: self.ty(m) for a in r.sample(ATT, r.randint(0, 2))}
            d["classes"][c] = {"bases": bases, "attrs": attrs, "meths": {}}
        for x in r.sample(VAR, r.randint(0, 2)):
            d["vars"][x] = self.ty(m)
        for mm in [k for k in self.mods if k < m]:
            names = list(self.mods[mm]["funcs"]) + list(self.mods[mm]["classes"]) + list(self.mods[mm]["vars"]) + list(self.mods[mm]["from"])
            for x in r.sample(names, min(len(names), r.randint(0, 2))):
                if x not in d["classes"] and x not in d["vars"]:
                    d["from"][x] = [mm, x]          # may be a name that mm itself from-imported: a re-export chain
        return d

    def add_bodies(self) -> None:
        r = self.r
        for m, d in self.mods.items():
            for c, cd in d["classes"].items():
                for a in r.sample([1] + MET, r.randint(0, 2)):
                    ps = [self.ty(m) for _ in range(r.randint(0, 1))]
                    cd["meths"][a] = {"params": ps, "ret": self.ty(m) if a != 1 else ["int"], "body": []}
            for f in r.sample(FUN, r.randint(1, 2)):
                if f in d["from"]:
                    continue
                d["funcs"][f] = {"params": [self.ty(m) for _ in range(r.randint(0, 1))], "ret": self.ty(m), "body": []}
        for m, d in self.mods.items():
            for f, fd in d["funcs"].items():
                fd["body"] = self.no_early_return([self.stmt(m, fd["params"]) for _ in range(r.randint(1, 3))])
            for c, cd in d["classes"].items():
                for a, fd in cd["meths"].items():
                    fd["body"] = self.no_early_return([self.stmt(m, [["inst", m, c]] + fd["params"]) for _ in range(r.randint(1, 2))])

    @staticmethod
    def no_early_return(body: list[Any]) -> list[Any]:
        return [st if st[0] != "return" or i == len(body) - 1 else ["expr", st[1]] for i, st in enumerate(body)]

    def members(self, m: int, c: int) -> dict[int, Any]:
        out: dict[int, Any] = {}

        def walk(mm: int, cc: int, depth: int) -> None:       # left to right, depth first (as the model)
            cd = self.mods.get(mm, {"classes": {}})["classes"].get(cc)
            if cd is None or depth > 10:
                return
            for a, t in cd["attrs"].items():
                out.setdefault(a, ("attr", t))
            for a, fd in cd["meths"].items():
                out.setdefault(a, ("meth", fd))
            for b in cd["bases"]:
                walk(b[0], b[1], depth + 1)
        walk(m, c, 0)
        return out

    def resolve_from(self, m: int, x: int) -> tuple[Any, Any]:
        seen = 0
        while x in self.mods[m]["from"] and seen < 10:
            m, x = self.mods[m]["from"][x]
            seen += 1
        d = self.mods[m]
        return (m, x) if (x in d["vars"] or x in d["funcs"] or x in d["classes"]) else (None, None)

    def arg_for(self, m: int, params: list[Any], t: Any, depth: int) -> Any:
        r = self.r
        if r.random() < 0.12:
            return [r.choice(["int", "str"])]                  # sometimes ill-typed
        if t[0] in ("int", "str"):
            return [t[0]]
        same = [i for i, pt in enumerate(params) if pt == t]
        if same:
            return ["param", r.choice(same)]
        return self.construct(m, params, (t[1], t[2]), depth - 1)[0] if depth > 0 else ["int"]

    def call_with(self, m: int, params: list[Any], f: Any, ps: list[Any], depth: int) -> Any:
        if not ps:
            return ["call0", f] if self.r.random() < 0.9 else ["call1", f, ["int"]]
        return ["call1", f, self.arg_for(m, params, ps[0], depth)]

    def construct(self, m: int, params: list[Any], cls: tuple[int, int], depth: int) -> tuple[Any, Any]:
        init = self.members(*cls).get(1)
        ps = init[1]["params"] if init and init[0] == "meth" else []
        ref = ["from", cls[1]] if self.mods[m]["from"].get(cls[1]) == [cls[0], cls[1]] and self.r.random() < 0.5 else ["global", cls[0], cls[1]]
        return self.call_with(m, params, ref, ps, depth), ["inst", cls[0], cls[1]]

    def expr(self, m: int, params: list[Any], depth: int) -> tuple[Any, Any]:
        """(expression, its static type or None) — mostly well typed"""
        r = self.r
        starts: list[tuple[Any, Any]] = [(["param", i], t) for i, t in enumerate(params)]
        for mm, d in self.mods.items():
            for x, t in d["vars"].items():
                starts.append((["global", mm, x], t))
            for f, fd in d["funcs"].items():
                ref = ["from", f] if self.mods[m]["from"].get(f) == [mm, f] else ["global", mm, f]
                starts.append((self.call_with(m, params, ref, fd["params"], depth), fd["ret"]))
            for c in d["classes"]:
                starts.append(self.construct(m, params, (mm, c), depth))
        for x in self.mods[m]["from"]:
            dm, dx = self.resolve_from(m, x)
            if dm and dx in self.mods[dm]["vars"]:
                starts.append((["from", x], self.mods[dm]["vars"][dx]))
            elif dm and dx in self.mods[dm]["funcs"]:
                fd = self.mods[dm]["funcs"][dx]
                starts.append((self.call_with(m, params, ["from", x], fd["params"], depth), fd["ret"]))
            elif dm and dx in self.mods[dm]["classes"]:
                init = self.members(dm, dx).get(1)
                ps = init[1]["params"] if init and init[0] == "meth" else []
                starts.append((self.call_with(m, params, ["from", x], ps, depth), ["inst", dm, dx]))
        inst = [sx for sx in starts if sx[1] and sx[1][0] == "inst"]
        e, t = r.choice(inst if inst and r.random() < 0.8 else starts)
        for _ in range(r.randint(0, 2)):
            if not t or t[0] != "inst":
                break
            mem = self.members(t[1], t[2])
            if not mem or r.random() < 0.08:
                e, t = ["attr", e, r.choice(ATT + MET)], None           # sometimes a missing member
                break
            a = r.choice(sorted(mem))
            if a == 1:
                continue
            kind, info = mem[a]
            if kind == "attr":
                e, t = ["attr", e, a], info
            else:
                e, t = self.call_with(m, params, ["attr", e, a], info["params"], depth), info["ret"]
        return e, t

    def stmt(self, m: int, params: list[Any]) -> Any:
        r = self.r
        k = r.choice(["check", "check", "return", "expr"])
        e, t = self.expr(m, params, 2)
        if k == "check":
            return [k, t if t and r.random() < 0.8 else self.ty(m), e]
        return [k, e]

    def mutate(self) -> None:
        """An edit of one declaration (what the snapshot diff must detect)."""
        r = self.r
        m = r.choice(list(self.mods))
        d = self.mods[m]
        what = r.choice(["attr", "meth", "func", "var", "base", "del", "from"])
        if what == "attr" and d["classes"]:
            cd = d["classes"][r.choice(list(d["classes"]))]
            cd["attrs"][r.choice(ATT)] = self.ty(m)
        elif what == "meth" and d["classes"]:
            cd = d["classes"][r.choice(list(d["classes"]))]
            a = r.choice(MET)
            cd["meths"][a] = {"params": [self.ty(m) for _ in range(r.randint(0, 1))], "ret": self.ty(m),
                              "body": cd["meths"].get(a, {}).get("body", [["expr", ["int"]]])}
        elif what == "func" and d["funcs"]:
            f = r.choice(list(d["funcs"]))
            d["funcs"][f]["ret"] = self.ty(m)
            d["funcs"][f]["params"] = [self.ty(m) for _ in range(r.randint(0, 1))]
        elif what == "var":
            x = r.choice(VAR)
            if x not in d["from"]:
                d["vars"][x] = self.ty(m)
        elif what == "base" and d["classes"]:
            c = r.choice(list(d["classes"]))
            cands = [[mm, c2] for mm, dd in self.mods.items() if mm < m for c2 in dd["classes"]]
            cur = d["classes"][c]["bases"]
            roots = [x for x in cands if x not in cur and not self.mods[x[0]]["classes"][x[1]]["bases"]]
            if not cur and cands:
                d["classes"][c]["bases"] = [r.choice(cands)]
            elif len(cur) == 1 and roots and r.random() < 0.5:
                d["classes"][c]["bases"] = cur + [r.choice(roots)]            # gain a second base
            else:
                d["classes"][c]["bases"] = cur[:-1]                            # lose the last base
        elif what == "del":
            pool = [("funcs", x) for x in d["funcs"]] + [("vars", x) for x in d["vars"]]
            if pool:
                k, x = r.choice(pool)
                del d[k][x]
        elif what == "from" and d["from"]:
            del d["from"][r.choice(list(d["from"]))]

    # ---- printers
    def py_ty(self, t: Any, m: int) -> str:
        if t[0] in ("int", "str"):
            return t[0]
        return f"'{mini_name(t[2])}'" if t[1] == m else f"'m{t[1]}.{mini_name(t[2])}'"

    def py_expr(self, e: Any, m: int, meth: bool) -> str:
        k = e[0]
        if k == "param":
            return "self" if meth and e[1] == 0 else f"p{e[1]}"
        if k == "int":
            return "(1)"
        if k == "str":
            return "('')"
        if k == "global":
            return mini_name(e[2]) if e[1] == m else f"m{e[1]}.{mini_name(e[2])}"
        if k == "from":
            return mini_name(e[1])
        if k == "attr":
            return f"{self.py_expr(e[1], m, meth)}.{mini_name(e[2], True)}"
        if k == "call0":
            return f"{self.py_expr(e[1], m, meth)}()"
        return f"{self.py_expr(e[1], m, meth)}({self.py_expr(e[2], m, meth)})"

    def py_body(self, fd: dict[str, Any], m: int, meth: bool, ind: str) -> str:
        out = []
        for i, st in enumerate(fd["body"]):
            if st[0] == "check":
                out.append(f"{ind}y{i}: {self.py_ty(st[1], m)} = {self.py_expr(st[2], m, meth)}\n")
            elif st[0] == "return":
                out.append(f"{ind}return {self.py_expr(st[1], m, meth)}\n")
            else:
                out.append(f"{ind}{self.py_expr(st[1], m, meth)}\n")
        return "".join(out) or f"{ind}pass\n"

    def python(self) -> dict[str, str]:
        files = {}
        for m, d in self.mods.items():
            o = ["".join(f"import m{mm}\n" for mm in self.mods if mm != m)]
            for x, (mm, x2) in sorted(d["from"].items()):
                o.append(f"from m{mm} import {mini_name(x2)}\n")
            for x, t in sorted(d["vars"].items()):
                o.append(f"{mini_name(x)}: {self.py_ty(t, m)}\n")
            for c, cd in sorted(d["classes"].items()):
                bs = ", ".join(mini_name(b[1]) if b[0] == m else "m%d.%s" % (b[0], mini_name(b[1])) for b in cd["bases"])
                o.append(f"class {mini_name(c)}" + (f"({bs})" if bs else "") + ":\n")
                for a, t in sorted(cd["attrs"].items()):
                    o.append(f"    {mini_name(a, True)}: {self.py_ty(t, m)}\n")
                for a, fd in sorted(cd["meths"].items()):
                    ps = "".join(f", p{i + 1}: {self.py_ty(t, m)}" for i, t in enumerate(fd["params"]))
                    rt = "None" if a == 1 else self.py_ty(fd["ret"], m)
                    o.append(f"    def {mini_name(a, True)}(self{ps}) -> {rt}:\n" + self.py_body(fd, m, True, "        "))
                if not cd["attrs"] and not cd["meths"]:
                    o.append("    pass\n")
            for f, fd in sorted(d["funcs"].items()):
                ps = ", ".join(f"p{i}: {self.py_ty(t, m)}" for i, t in enumerate(fd["params"]))
                o.append(f"def {mini_name(f)}({ps}) -> {self.py_ty(fd['ret'], m)}:\n" + self.py_body(fd, m, False, "    "))
            files[f"m{m}.py"] = "".join(o)
        return files

    def coq_ty(self, t: Any) -> str:
        return "TInt" if t[0] == "int" else "TStr" if t[0] == "str" else f"(TInst {t[1]} {t[2]})"

    def coq_expr(self, e: Any, m: int) -> str:
        k = e[0]
        if k == "param":
            return f"(EParam {e[1]}%nat)"
        if k in ("int", "str"):
            return "EInt" if k == "int" else "EStr"
        if k == "global":
            return f"(EGlobal {e[1]} {e[2]})"
        if k == "from":
            return f"(EFrom {e[1]})"
        if k == "attr":
            return f"(EAttr {self.coq_expr(e[1], m)} {e[2]})"
        if k == "call0":
            return f"(ECall0 {self.coq_expr(e[1], m)})"
        return f"(ECall1 {self.coq_expr(e[1], m)} {self.coq_expr(e[2], m)})"

    def coq_fdef(self, fd: dict[str, Any], m: int) -> str:
        body = []
        for st in fd["body"]:
            if st[0] == "check":
                body.append(f"SCheck {self.coq_ty(st[1])} {self.coq_expr(st[2], m)}")
            elif st[0] == "return":
                body.append(f"SReturn {self.coq_expr(st[1], m)}")
            else:
                body.append(f"SExpr {self.coq_expr(st[1], m)}")
        return f"(mkF {coq_list([self.coq_ty(t) for t in fd['params']])} {self.coq_ty(fd['ret'])} {coq_list(body)})"

    def coq_module(self, m: int) -> str:
        d = self.mods[m]
        fr = coq_list([f"({x}, ({mm}, {x2}))" for x, (mm, x2) in sorted(d["from"].items())])
        vs = coq_list([f"({x}, {self.coq_ty(t)})" for x, t in sorted(d["vars"].items())])
        fs = coq_list([f"({f}, {self.coq_fdef(fd, m)})" for f, fd in sorted(d["funcs"].items())])
        cs = []
        for c, cd in sorted(d["classes"].items()):
            b = coq_list([f"({x[0]}, {x[1]})" for x in cd["bases"]])
            at = coq_list([f"({a}, {self.coq_ty(t)})" for a, t in sorted(cd["attrs"].items())])
            ms = coq_list([f"({a}, {self.coq_fdef(fd, m)})" for a, fd in sorted(cd["meths"].items())])
            cs.append(f"({c}, mkC {b} {at} {ms})")
        return f"(mkM {fr} {vs} {fs} {coq_list(cs)})"

    def coq_prog(self) -> str:
        return coq_list([f"({m}, {self.coq_module(m)})" for m in sorted(self.mods)])

    def targets(self) -> list[tuple[int, str, str]]:
        """(module, coq tkey, python target name)"""
        out = []
        for m, d in self.mods.items():
            out.append((m, f"({m}, None)", f"m{m}"))
            for f in d["funcs"]:
                out.append((m, f"({m}, Some ({f}, None))", f"m{m}.{mini_name(f)}"))
            for c, cd in d["classes"].items():
                for a in cd["meths"]:
                    out.append((m, f"({m}, Some ({c}, Some {a}))", f"m{m}.{mini_name(c)}.{mini_name(a, True)}"))
        return out


MINI_W = 16 * 17


def mini_sym_name(x: int) -> str:
    """decode a symbol number of coq/C03/MiniEval.v into the trigger name of the real implementation"""
    n = x - 1
    m, slot = n // MINI_W + 1, n % MINI_W
    top, mem = slot // 17 + 1, slot % 17
    return f"<m{m}.{mini_name(top)}>" if mem == 0 else f"<m{m}.{mini_name(top)}.{mini_name(mem, True)}>"


MINI_HEADER = """From Coq Require Import PArith NArith List Bool.
From C03 Require Import Model MiniLang MiniEval.
Import ListNotations.
Open Scope positive_scope.
"""


def parse_pos_list(sx: str) -> list[int]:
    return [int(v) for v in re.findall(r"\d+", sx.replace("%positive", ""))]


def mini_stage(ctx: vlib.Ctx) -> None:
    """C: model deps_of_target / diff vs real get_dependencies / compare_symbol_table_snapshots."""
    ok, out = vlib.coq_make(["C03/MiniEval.vo"])
    if not ok:
        ctx.broke("C", "C03/MiniEval.v", out[-1500:])
        return
    rng = vlib.Rng(ctx.seed, "mini")
    n = ctx.n(16, 150)
    jobs, gens = [], []
    exprs: list[str] = []
    index: list[tuple[int, str, Any]] = []
    for i in range(n):
        g = MiniGen(vlib.Rng(ctx.seed, f"mini/{i}"))
        g.add_bodies()
        files_a, prog_a, tg = g.python(), g.coq_prog(), g.targets()
        ctx.add("mini_classes_with_two_bases", sum(1 for dd in g.mods.values() for cd in dd["classes"].values() if len(cd["bases"]) == 2))
        ctx.add("mini_classes", sum(len(dd["classes"]) for dd in g.mods.values()))
        ctx.add("mini_from_imports", sum(len(dd["from"]) for dd in g.mods.values()))
        ctx.add("mini_reexport_chains", sum(1 for mm, dd in g.mods.items() for x, (m2, x2) in dd["from"].items() if x2 in g.mods[m2]["from"]))
        ctx.add("mini_vars_typed_by_class_of_other_module", sum(1 for mm, dd in g.mods.items() for t in dd["vars"].values() if t[0] == "inst" and t[1] != mm))
        mods_a = {m: g.coq_module(m) for m in g.mods}
        for _ in range(rng.randint(1, 2)):
            g.mutate()
        files_b, prog_b = g.python(), g.coq_prog()
        jobs.append({"id": f"mini{i}", "mini": True, "files_a": files_a, "files_b": files_b, "steps": []})
        gens.append((files_a, files_b))
        for m, tk, name in tg:
            exprs.append(f"e_reads {prog_a} {mods_a[m]} {tk}")
            index.append((i, "reads", name))
        for m in (1, 2, 3):
            exprs.append(f"e_diff {prog_a} {prog_b} {m}")
            index.append((i, "diff", m))
    real = run_jobs(jobs)
    outs = ctx.eval_cases("mini", MINI_HEADER, exprs, per_file=60)
    if outs is None:
        return
    model: dict[int, dict[str, Any]] = {}
    for (i, kind, key), o in zip(index, outs):
        model.setdefault(i, {"reads": {}, "diff": {}})[kind][key] = sorted({mini_sym_name(x) for x in parse_pos_list(o)})
    n_targets = n_edges = n_diff = n_same = 0
    missing: dict[str, int] = {}
    missing_ex: dict[str, Any] = {}
    extra_kinds: dict[str, int] = {}
    unmodelled: dict[str, int] = {}
    diff_bad = []
    for i, rr in enumerate(real):
        if "error" in rr or "deps" not in rr:
            ctx.broke("C", "mini tie", f"program {i}: {rr.get('error', rr)!s}"[:600])
            continue
        deps = {t: set(v) for t, v in rr["deps"].items()}
        alltargets = set(model[i]["reads"])

        def cover(loc: str) -> set[str]:
            # a class location stands for the module top level and every method of the class
            if loc in alltargets:
                return {loc}
            return {t for t in alltargets if t.startswith(loc + ".")} | ({loc.rsplit(".", 1)[0]} if loc.rsplit(".", 1)[0] in alltargets else set())
        reach: dict[str, set[str]] = {}

        def reach_of(t: str, seen: frozenset = frozenset()) -> set[str]:
            if t in reach:
                return reach[t]
            res: set[str] = set()
            for loc in deps.get(t, ()):
                if loc.startswith("<"):
                    if loc not in seen:
                        res |= reach_of(loc, seen | {t})
                else:
                    res |= cover(loc)
                    # a class location is reprocessed as a whole; if its MRO / bases changed its own class
                    # trigger fires in the next propagation round
                    if loc not in alltargets and "<" + loc + ">" not in seen and "<" + loc + ">" != t:
                        res |= reach_of("<" + loc + ">", seen | {t})
            if not seen:
                reach[t] = res
            return res
        for u, reads in model[i]["reads"].items():
            n_targets += 1
            direct = {t for t, locs in deps.items() if any(u in cover(l) for l in locs if not l.startswith("<"))}
            for t in reads:
                n_edges += 1
                if t.startswith("<" + u.split(".")[0] + "."):
                    n_same += 1
                    continue
                got_r = reach_of(t)
                if u in got_r or ("." not in u and any(x.startswith(u + ".") for x in got_r)):
                    # (the model attributes override checks to the module top level, mypy to the overriding method)
                    continue
                if True:
                    # classify: which kind of symbol does the real map not connect to the target?
                    parts = t.strip("<>").split(".")
                    kind = ("member " if len(parts) == 3 else "name ") + ("(same module)" if t.startswith("<" + u.split(".")[0] + ".") else "(other module)")
                    declared = any(t == tt for tt in deps)
                    kind += "" if declared else " never a trigger in the real map"
                    missing[kind] = missing.get(kind, 0) + 1
                    missing_ex.setdefault(kind, {"program": i, "target": u, "trigger": t, "files": gens[i][0]})
            for t in direct:
                if re.fullmatch(r"<m[123]\.[A-Za-z_0-9]+(\.[A-Za-z_0-9]+)?>", t):
                    if t not in reads:
                        k2 = "member" if t.count(".") == 2 else "name"
                        extra_kinds[k2] = extra_kinds.get(k2, 0) + 1
                else:
                    k3 = re.sub(r"[A-Za-z_0-9]+", "N", t) if not t.startswith("<builtins") else "<builtins…>"
                    unmodelled[k3] = unmodelled.get(k3, 0) + 1
        for m in (1, 2, 3):
            n_diff += 1
            want = {f"<{x}>" for x in rr["diff"].get(f"m{m}", [])}
            want = {t for t in want if re.fullmatch(r"<m[123]\.[A-Za-z_0-9]+(\.[A-Za-z_0-9]+)?>", t) and "__" not in t.replace("__init__", "")}
            got = set(model[i]["diff"][m])
            if got != want:
                diff_bad.append({"program": i, "module": m, "model_only": sorted(got - want), "real_only": sorted(want - got)})
    ctx.add("evaluations", len(exprs))
    ctx.cov["mini_programs"] = n
    ctx.cov["mini_targets"] = n_targets
    ctx.cov["mini_model_edges"] = n_edges
    ctx.cov["mini_model_edges_same_module"] = n_same
    ctx.cov["mini_model_edges_without_real_path"] = missing
    ctx.cov["mini_real_direct_triggers_not_read_by_model"] = extra_kinds
    ctx.cov["mini_real_trigger_kinds_not_modelled"] = unmodelled
    ctx.cov["mini_diff_compared"] = n_diff
    ctx.cov["mini_diff_mismatches"] = len(diff_bad)
    ctx.cov["mini_examples_missing"] = {k: {kk: vv for kk, vv in v.items() if kk != "files"} for k, v in missing_ex.items()}
    ctx.log(f"mini tie: {n} programs, {n_targets} targets, {n_edges} model edges; without real path: {missing}; diff mismatches {len(diff_bad)}/{n_diff}")
    for b in diff_bad[:3]:
        ctx.log("mini diff mismatch:", b)
    ctx.mini_missing_examples = missing_ex          # type: ignore[attr-defined]
    ctx.mini_diff_bad = diff_bad                    # type: ignore[attr-defined]
