"""C05 — mypyc-compiled code behaves like the interpreted source  (PARTIAL: proved cores + differential search).

(a) vtables: Coq model of irbuild/vtable.py + ClassIR.get_method (coq/C05/Vtable.v), theorems
    vtable_prefix / vtable_dispatch_eq_mro_lookup; tie = generated class hierarchies compiled through the
    real irbuild, real ClassIR.vtable/vtable_entries/trait_vtables vs the extracted model; CPython's own
    __mro__/attribute lookup vs the model's mro_lookup.
(b) verified translation validators for transform/copy_propagation.py and transform/flag_elimination.py
    (coq/C05/PassValidators.v) run (extracted) on every before/after FuncIR pair of the corpus.
(S) differential compiled-vs-interpreted search: harness/C05_diff.py.
"""
from __future__ import annotations

import itertools
import json
import os
import shutil
import subprocess
import sys
import tempfile
import time
from concurrent.futures import ThreadPoolExecutor
from typing import Any

import vlib

HERE = os.path.dirname(os.path.abspath(__file__))
IRDUMP = os.path.join(HERE, "C05_irdump.py")


def run_driver(exe: str, lines: list[str]) -> list[str]:
    p = subprocess.run([exe], input="\n".join(lines) + "\n", text=True, capture_output=True, timeout=1800)
    out = p.stdout.splitlines()
    if len(out) != len(lines):
        raise RuntimeError(f"driver returned {len(out)} lines for {len(lines)} inputs: {p.stderr[-500:]}")
    return out


def child(mode: str, job: dict, tmp: str, tag: str, timeout: int = 14000) -> tuple[int, str]:
    jf = os.path.join(tmp, f"job_{tag}.json")
    json.dump(job, open(jf, "w"))
    return vlib.sh([vlib.PY, IRDUMP, mode, jf], timeout=timeout, env=vlib.py_env(), cwd=tmp)


# =========================================================================================== (a) vtables
# A hierarchy: list of classes {trait: bool, base: idx|None, traits: [idx], methods: {name: variant}}.
# Method variants are signatures ordered so that a higher one may override a lower one:
#   0: (self, x: int) -> object    1: (self, x: object) -> object    2: (self, x: object) -> int
# (different variants are different under is_same_method_signature, so overriding across variants needs glue).
VARIANT_SIG = ["(self, x: int) -> object", "(self, x: object) -> object", "(self, x: object) -> int"]
INIT_SIG = ["(self) -> None", "(self, x: int = 0) -> None"]


# results differ from what the operator does WITHOUT the method (identity ==, truthy, ...) and, where possible, by provider
DUNDERS = {
    "__eq__": ("(self, other: object) -> bool", lambda i: "return True"),
    "__ne__": ("(self, other: object) -> bool", lambda i: "return False"),
    "__hash__": ("(self) -> int", lambda i: f"return {100 + i}"),
    "__bool__": ("(self) -> bool", lambda i: "return False"),
    "__len__": ("(self) -> int", lambda i: f"return {0 if i % 2 else i + 2}"),
    "__contains__": ("(self, x: object) -> bool", lambda i: f"return {i % 2 == 0}"),
    "__getitem__": ("(self, j: int) -> int", lambda i: f"return {1000 * i} + j"),
}


def render_hierarchy(k: int, h: list[dict]) -> tuple[list[str], list[tuple[int, int]]]:
    """Source lines of hierarchy k and, per class, its (first, last) line offsets within them."""
    lines: list[str] = []
    spans = []
    for i, c in enumerate(h):
        start = len(lines)
        if c["trait"]:
            lines.append("@trait")
        parents = ([f"H{k}_C{c['base']}"] if c["base"] is not None else []) + [f"H{k}_C{t}" for t in c["traits"]]
        lines.append(f"class H{k}_C{i}" + (f"({', '.join(parents)})" if parents else "") + ":")
        if not c["methods"]:
            lines.append("    pass")
        for n, v in c["methods"].items():
            if n == "__init__":
                lines.append(f"    def __init__{INIT_SIG[v]}:")
                lines.append("        pass")
            elif n in DUNDERS:
                lines.append(f"    def {n}{DUNDERS[n][0]}:")
                lines.append("        " + DUNDERS[n][1](i))
            else:
                lines.append(f"    def {n}{VARIANT_SIG[v]}:")
                lines.append(f"        return {1000 * i + 10 * int(n[1:]) + v}")
        spans.append((start, len(lines) - 1))
    return lines, spans


def py_mro(h: list[dict]) -> list[list[int]] | None:
    """CPython's own C3 linearisation of the hierarchy (None if CPython rejects it)."""
    ns: dict[str, Any] = {"trait": lambda c: c}
    src, _ = render_hierarchy(0, h)
    try:
        exec("\n".join(src), ns)
    except TypeError:
        return None
    res = []
    for i in range(len(h)):
        res.append([int(k.__name__.split("_C")[1]) for k in ns[f"H0_C{i}"].__mro__ if k is not object])
    # CPython's attribute lookup: defining class of each visible method
    look = []
    for i in range(len(h)):
        d = {}
        for n in {n for c in h for n in c["methods"]}:
            f = getattr(ns[f"H0_C{i}"], n, None)
            if f is not None and hasattr(f, "__qualname__") and f.__qualname__.startswith("H0_C"):
                d[n] = int(f.__qualname__.split(".")[0].split("_C")[1])
        look.append(d)
    return res, look  # type: ignore


def valid_for_mypy(h: list[dict], mro: list[list[int]]) -> bool:
    for i, c in enumerate(h):
        names = {n for j in mro[i] for n in h[j]["methods"]}
        for n in names:
            if n == "__init__":
                continue
            defs = [h[j]["methods"][n] for j in mro[i] if n in h[j]["methods"]]
            if any(defs[0] < v for v in defs[1:]):
                return False
            # every definition must be a valid override of those after it in its own mro (checked per class anyway)
    return True


def predicted_table(h: list[dict], mro: list[list[int]]) -> list[dict]:
    """Class table as prepare.py / function.py are expected to build it (names are class indices)."""
    tab = []
    for i, c in enumerate(h):
        nontrait = [j for j in mro[i] if not h[j]["trait"]]
        bidx = 1 if not c["trait"] else 0
        base = nontrait[bidx] if len(nontrait) > bidx else None
        glue = []
        for n, v in c["methods"].items():
            for j in mro[i][1:]:
                if n in h[j]["methods"] and n != "__init__" and h[j]["methods"][n] != v:
                    glue.append((j, n))
        tab.append({"name": i, "trait": c["trait"], "base": base, "mro": mro[i],
                    "methods": list(c["methods"].items()), "glue": glue})
    return tab


def encode_table(tab: list[dict]) -> tuple[str, dict]:
    """Tokens for the OCaml driver; class names -> 1.., method names -> 1 (__init__), 2.. ; signature ids are
    renumbered per method name by first occurrence (the model only compares them for equality)."""
    cid = {c["name"]: i + 1 for i, c in enumerate(tab)}
    mid: dict[str, int] = {"__init__": 1}
    sid: dict[tuple[str, Any], int] = {}
    cnt: dict[str, int] = {}
    toks = [str(len(tab))]
    for c in tab:
        toks += [str(cid[c["name"]]), "1" if c["trait"] else "0", str(cid[c["base"]]) if c["base"] is not None else "0",
                 str(len(c["mro"]))] + [str(cid[x]) for x in c["mro"]]
        toks.append(str(len(c["methods"])))
        for n, s in c["methods"]:
            if n not in mid:
                mid[n] = len(mid) + 1
            if (n, s) not in sid:
                cnt[n] = cnt.get(n, 0) + 1
                sid[(n, s)] = cnt[n]
            toks += [str(mid[n]), str(sid[(n, s)])]
        toks.append(str(len(c["glue"])))
        for t, n in c["glue"]:
            if n not in mid:
                mid[n] = len(mid) + 1
            toks += [str(cid[t]), str(mid[n])]
    return " ".join(toks), {"cid": cid, "mid": mid}


def canon_entries(es: list, cid: dict, mid: dict) -> str:
    out = []
    for e in es:
        m = e[2]
        if m[0] == "impl":
            ms = f"i {cid[m[1]]} {mid[m[2]]}"
        elif m[0] == "glue":
            ms = f"g {cid[m[1]]} {cid[m[2]]} {mid[m[3]]}"
        else:
            ms = "unknown"
        out.append(f"({cid[e[0]]} {mid[e[1]]} {ms})")
    return "".join(out)


def real_table(classes: list[dict]) -> list[dict]:
    tab = []
    for c in classes:
        glue = []
        for e in c["glue_keys"]:
            glue.append((e[0], e[1]))
        tab.append({"name": c["name"], "trait": c["is_trait"], "base": c["base"], "mro": c["mro"],
                    "methods": [(n, s) for n, s in c["methods"]], "glue": glue})
    return tab


def canon_real(classes: list[dict], names: dict) -> str:
    cid, mid = names["cid"], names["mid"]
    parts = []
    for c in classes:
        idx = sorted(f"{mid[n]}:{i}" for n, i in c["vtable"].items())
        tv = " ".join(f"{cid[t]}={canon_entries(es, cid, mid)}" for t, es in c["trait_vtables"])
        parts.append(f"c {cid[c['name']]} e {canon_entries(c['entries'], cid, mid)} x {','.join(idx)} t {tv}")
    return " | ".join(parts)


def norm(s: str) -> str:
    return " ".join(s.split())


def enum_small(nmax: int) -> list[list[dict]]:
    """All hierarchies of exactly nmax classes over ONE method name m0 (absent / variant 0 / variant 1),
    every trait flag, every legal parent set (<=1 non-trait base first, any subset of earlier traits;
    traits only extend traits)."""
    def class_opts(prev: list[dict]) -> list[dict]:
        opts = []
        traits_idx = [i for i, c in enumerate(prev) if c["trait"]]
        bases_idx = [i for i, c in enumerate(prev) if not c["trait"]]
        for tr in (False, True):
            for base in ([None] + bases_idx if not tr else [None]):
                for r in range(len(traits_idx) + 1):
                    for ts in itertools.combinations(traits_idx, r):
                        for mv in (None, 0, 1):
                            opts.append({"trait": tr, "base": base, "traits": list(ts),
                                         "methods": {} if mv is None else {"m0": mv}})
        return opts
    res: list[list[dict]] = [[]]
    for _ in range(nmax):
        res = [h + [o] for h in res for o in class_opts(h)]
    return res


def enum_trait_glue() -> list[list[dict]]:
    """Directed family: a trait declares m0 (and a sub-trait may override it); a class implementing it, with or without a
    plain base class, overrides m0 with the same / a more general signature (glue in the TRAIT vtable), and a subclass
    overrides or inherits again."""
    out = []
    opts = (None, 0, 1, 2)
    for vt in (0, 1):
        for vt2 in opts:                      # sub-trait T2(T): overrides m0 or not; None also = no sub-trait when flag below
            for sub in (False, True):
                if not sub and vt2 is not None:
                    continue
                for with_base in (False, True):
                    for vc in opts:
                        for vd in opts:
                            h = [{"trait": True, "base": None, "traits": [], "methods": {"m0": vt, "m1": 0}}]
                            tix = 0
                            if sub:
                                h.append({"trait": True, "base": None, "traits": [0], "methods": {} if vt2 is None else {"m0": vt2}})
                                tix = 1
                            base = None
                            if with_base:
                                h.append({"trait": False, "base": None, "traits": [], "methods": {"m2": 0}})
                                base = len(h) - 1
                            h.append({"trait": False, "base": base, "traits": [tix], "methods": {} if vc is None else {"m0": vc}})
                            h.append({"trait": False, "base": len(h) - 1, "traits": [], "methods": {} if vd is None else {"m0": vd, "m1": 1}})
                            out.append(h)
    return out


def enum_dunder() -> list[list[dict]]:
    """Base C, trait T, D(C, T), E(D): each of the seven dunder methods provided by any subset of them (16 x 7 shapes).
    Decides where `a == b`, `bool(a)`, `len(a)`, `x in a`, `a[i]` may be dispatched statically (ClassIR.is_method_final)."""
    out = []
    for dn in DUNDERS:
        for mask in range(16):
            def ms(bit: int, extra: dict | None = None) -> dict:
                d = dict(extra or {})
                if mask >> bit & 1:
                    d[dn] = 0
                return d
            out.append([{"trait": False, "base": None, "traits": [], "methods": ms(0, {"m0": 0})},
                        {"trait": True, "base": None, "traits": [], "methods": ms(1, {"m1": 0})},
                        {"trait": False, "base": 0, "traits": [1], "methods": ms(2)},
                        {"trait": False, "base": 2, "traits": [], "methods": ms(3)}])
    return out


def random_hierarchy(rng: vlib.Rng) -> list[dict]:
    n = rng.randint(3, 6)
    h: list[dict] = []
    depth: list[int] = []
    for i in range(n):
        tr = rng.random() < 0.4
        traits_idx = [j for j, c in enumerate(h) if c["trait"]]
        bases_idx = [j for j, c in enumerate(h) if not c["trait"] and depth[j] < 3]
        base = rng.choice(bases_idx) if (bases_idx and not tr and rng.random() < 0.75) else None
        ts = [j for j in traits_idx if rng.random() < 0.45]
        rng.shuffle(ts)
        meths: dict[str, int] = {}
        if not tr and rng.random() < 0.3:
            meths["__init__"] = rng.randint(0, 1)
        for m in ("m0", "m1", "m2"):
            if rng.random() < 0.5:
                meths[m] = rng.choice([0, 0, 1, 1, 2])
        for m in DUNDERS:
            if rng.random() < 0.12:
                meths[m] = 0
        items = list(meths.items())
        rng.shuffle(items)
        h.append({"trait": tr, "base": base, "traits": ts, "methods": dict(items)})
        depth.append(0 if base is None else depth[base] + 1)
    return h


def vtable_stage(ctx: vlib.Ctx, exe: str | None, tmp: str) -> list[tuple[int, list[dict]]]:
    """Returns the hierarchies used (for the run-time dispatch part of the differential search)."""
    rng = vlib.Rng(ctx.seed, "c05vt")
    cands: list[list[dict]] = []
    small = enum_small(3)
    ctx.cov["vt_small_enumerated"] = len(small)
    if ctx.quick:
        small = small[::8]
    cands += small
    du = enum_dunder()
    ctx.cov["vt_dunder_family"] = len(du)
    # quick: the shapes in which only the trait / only a subclass provides the method, for every dunder, + every 3rd other
    cands += [h for j, h in enumerate(du) if not ctx.quick or (j % 16) in (2, 4, 8, 6, 10) or j % 3 == 0]
    tg = enum_trait_glue()
    ctx.cov["vt_trait_glue_family"] = len(tg)
    cands += tg[::4] if ctx.quick else tg
    if not ctx.quick:
        four = enum_small(4)
        ctx.cov["vt_four_enumerated"] = len(four)
        cands += four[::37]
    for _ in range(ctx.n(70, 2500)):
        cands.append(random_hierarchy(rng))
    # CPython's C3 + mypy-acceptability filter
    hs: list[tuple[list[dict], list, list]] = []
    rejected = 0
    for h in cands:
        r = py_mro(h)
        if r is None:
            rejected += 1
            continue
        mro, look = r
        if not valid_for_mypy(h, mro):
            rejected += 1
            continue
        hs.append((h, mro, look))
    ctx.cov["vt_candidates"] = len(cands)
    ctx.cov["vt_rejected_by_cpython_or_override_rule"] = rejected
    if exe is None:
        return []
    # model on the PREDICTED tables: find the hierarchies on which compute_vtable is predicted to raise
    pred = [encode_table(predicted_table(h, mro)) for h, mro, _ in hs]
    out = run_driver(exe, ["vt " + p[0] for p in pred])
    ok_idx = [i for i, o in enumerate(out) if not o.endswith("none")]
    crash_idx = [i for i, o in enumerate(out) if o.endswith("none")]
    bad_wf = [i for i, o in enumerate(out) if not o.startswith("wf=1")]
    if bad_wf:
        ctx.broke("C", "wf_ct on predicted tables", f"{len(bad_wf)} generated hierarchies are not well-formed for the model", hs[bad_wf[0]][0])
    ctx.cov["vt_predicted_compiler_crash"] = len(crash_idx)
    # real irbuild on all non-crashing hierarchies, one module
    t0 = time.time()

    def build(idxs: list[int], tag: str) -> tuple[dict, dict[int, tuple[int, int]]]:
        lines = ["from mypy_extensions import trait", ""]
        where: dict[int, tuple[int, int]] = {}
        for k in idxs:
            src, _ = render_hierarchy(k, hs[k][0])
            where[k] = (len(lines) + 1, len(lines) + len(src))
            lines += src
        job = {"work": os.path.join(tmp, "w_" + tag), "repo": vlib.REPO, "text": "\n".join(lines) + "\n",
               "out": os.path.join(tmp, f"vt_{tag}.json")}
        st, o = child("--vtables", job, tmp, tag)
        if st != 0 or not os.path.exists(job["out"]):
            return {"error": f"dumper failed status {st}: {o[-1500:]}", "classes": [], "error_lines": []}, where
        return json.load(open(job["out"])), where

    def build_robust(idxs: list[int], tag: str) -> tuple[dict, list[int], int]:
        res, where = build(idxs, tag)
        dropped = 0
        for attempt in range(3):
            if not res.get("error") or not res.get("error_lines"):
                break
            badk = {k for k in idxs for ln in res["error_lines"] if where[k][0] <= ln <= where[k][1]}
            if not badk:
                break
            dropped += len(badk)
            idxs = [k for k in idxs if k not in badk]
            res, where = build(idxs, f"{tag}r{attempt}")
        return res, idxs, dropped

    chunk = 40
    chunks = [ok_idx[i:i + chunk] for i in range(0, len(ok_idx), chunk)]
    with ThreadPoolExecutor(max_workers=min(vlib.NPROC, 12)) as ex:
        results = list(ex.map(lambda a: build_robust(a[1], f"c{a[0]}"), enumerate(chunks)))
    idxs = []
    dropped = 0
    res: dict[str, Any] = {"classes": [], "sig_not_equivalence": []}
    for r, ix, dr in results:
        dropped += dr
        if r.get("error"):
            ctx.broke("C", "vtable dump", f"real irbuild failed on a generated module: {r['error']} {r.get('messages')} {r.get('traceback', '')[-1500:]}")
            continue
        idxs += ix
        res["classes"] += r["classes"]
        res["sig_not_equivalence"] += r.get("sig_not_equivalence", [])
    ctx.cov["vt_dropped_rejected_by_mypy"] = dropped
    if not idxs:
        return []
    ctx.log(f"(a) real irbuild of {len(idxs)} hierarchies / {len(res['classes'])} classes in {time.time()-t0:.1f}s")
    if res.get("sig_not_equivalence"):
        ctx.broke("C", "is_same_method_signature is not an equivalence on the generated methods", str(res["sig_not_equivalence"]))
    by_h: dict[int, list[dict]] = {}
    for c in res["classes"]:
        k = int(c["name"].split("_")[0][1:])
        by_h.setdefault(k, []).append(c)
    # real tables -> model; compare
    lines = []
    meta = []
    nclasses = nontriv = glue_main = glue_trait = trait_tables = 0
    for k in idxs:
        cl = by_h.get(k, [])
        for c in cl:
            c["glue_keys"] = []
        # glue keys: collect from entries' owners is not enough; the dumper lists them per class
        h, mro, look = hs[k]
        nm = {f"H{k}_C{i}": i for i in range(len(h))}
        real = []
        for c in cl:
            real.append({"name": nm[c["name"]], "is_trait": c["is_trait"], "base": nm[c["base"]] if c["base"] else None,
                         "mro": [nm[x] for x in c["mro"]], "methods": c["methods"],
                         "glue_keys": [(nm[t], n) for t, n in c.get("glue", [])],
                         "vtable": c["vtable"],
                         "entries": [[nm[e[0]], e[1], [e[2][0]] + [nm.get(x, x) for x in e[2][1:]], e[3]] for e in c["entries"]],
                         "trait_vtables": [[nm[t], [[nm[e[0]], e[1], [e[2][0]] + [nm.get(x, x) for x in e[2][1:]], e[3]] for e in es]]
                                           for t, es in c["trait_vtables"]],
                         "base_mro": [nm[x] for x in c["base_mro"]]})
        real.sort(key=lambda c: c["name"])
        if len(real) != len(h):
            ctx.broke("C", "vtable dump", f"hierarchy {k}: {len(real)} ClassIRs for {len(h)} classes")
            continue
        rt = real_table(real)
        pt = predicted_table(h, mro)
        # prepare.py / function.py vs CPython + the glue rule
        for a, b in zip(rt, pt):
            # mypyc synthesises __ne__ for a class that defines __eq__ only (irbuild/classdef.py gen_glue_ne_method)
            synth = [n for n, _ in a["methods"] if n == "__ne__" and "__ne__" not in dict(b["methods"]) and "__eq__" in dict(b["methods"])]
            a2 = dict(a, methods=[n for n, _ in a["methods"] if n not in synth], glue=sorted(a["glue"]))
            b2 = dict(b, methods=[n for n, _ in b["methods"]], glue=sorted(b["glue"]))
            if a2 != b2:
                ctx.broke("C", "class table (mro/base/methods/glue keys) vs CPython C3 + glue rule",
                          f"hierarchy {render_hierarchy(k, h)[0]}: real {a2} predicted {b2}")
                break
        for c in real:   # ClassIR.base_mro is the base chain
            chain = []
            x: Any = c["name"] if not c["is_trait"] else c["base"]
            while x is not None:
                chain.append(x)
                x = real[x]["base"]
            if chain != c["base_mro"]:
                ctx.broke("C", "base_mro is not the c_base chain", f"hierarchy {render_hierarchy(k, h)[0]} class {c['name']}: {c['base_mro']} vs {chain}")
        # shadow entries / unknown owners / glue target contract
        for c in real:
            for e in c["entries"] + [e for _, es in c["trait_vtables"] for e in es]:
                if e[3] is not None:
                    ctx.broke("C", "shadow vtable entry in a class without allow_interpreted_subclasses", str(e))
                if e[2][0] == "unknown":
                    ctx.broke("C", "vtable entry whose method is neither a class method nor a glue method", str(e))
                if e[2][0] == "glue" and e[2][-1] != 1:
                    ctx.broke("C", "glue method contract: glue of class d for (t, n) must call d's method n", str(e))
        for c in real:
            glue_main += sum(1 for e in c["entries"] if e[2][0] == "glue")
            glue_trait += sum(1 for _, es in c["trait_vtables"] for e in es if e[2][0] == "glue")
            trait_tables += len(c["trait_vtables"])
        toks, names = encode_table(rt)
        lines.append("vt " + toks)
        meta.append((k, real, names))
        nclasses += len(real)
        if any(c["traits"] or c["base"] is not None for c in h) and any(len(c["methods"]) for c in h):
            nontriv += 1
    out = run_driver(exe, lines)
    mism = 0
    for (k, real, names), o in zip(meta, out):
        if not o.startswith("wf=1 "):
            ctx.broke("C", "wf_ct on REAL class tables (hypothesis of the vtable theorems)", f"hierarchy {k}: {o[:40]}")
            continue
        want = norm(canon_real(real, names))
        got = norm(o[5:])
        if want != got:
            mism += 1
            if mism <= 3:
                ctx.broke("C", "ClassIR.vtable/vtable_entries/trait_vtables vs Coq model",
                          "\n".join(render_hierarchy(k, hs[k][0])[0]) + f"\nreal : {want}\nmodel: {got}",
                          {"hierarchy": hs[k][0]})
    # ClassIR.subclasses() / has_method / is_method_final vs the model (Final.v), every class x every method name of its hierarchy
    flines, fmeta = [], []
    for (k, real, names) in meta:
        cid, mid = names["cid"], names["mid"]
        h = hs[k][0]
        by = {c["name"]: c for c in by_h.get(k, [])}
        qs = []
        for c in real:
            rc = by.get(f"H{k}_C{c['name']}")
            if rc is None:
                continue
            want_subs = sorted(f"H{k}_C{d['name']}" for d in real if c["name"] in d["mro"] and d["name"] != c["name"])
            if rc.get("subclasses") != want_subs:
                ctx.broke("C", "ClassIR.subclasses() vs {d | c in d.mro}", f"hierarchy {k} class {c['name']}: real {rc.get('subclasses')} model {want_subs}")
            for n, fin in rc.get("final", {}).items():
                if n in mid:
                    qs.append((c["name"], n, fin))
        if qs:
            toks, _ = encode_table(real_table(real))
            flines.append("vf " + toks + f" {len(qs)} " + " ".join(f"{cid[c]} {mid[n]}" for c, n, _ in qs))
            fmeta.append((k, qs))
    fout = run_driver(exe, flines) if flines else []
    nfin = nfin_false = fbad = 0
    for (k, qs), o in zip(fmeta, fout):
        for (c, n, fin), a in zip(qs, o.split()):
            nfin += 1
            nfin_false += int(not fin)
            if a != ("1" if fin else "0"):
                fbad += 1
                if fbad <= 3:
                    ctx.broke("C", "ClassIR.is_method_final vs Coq model", "\n".join(render_hierarchy(k, hs[k][0])[0])
                              + f"\nclass C{c} method {n}: real {fin} model {a}")
    ctx.add("evaluations", nfin)
    ctx.cov["vt_is_method_final_queries"] = nfin
    ctx.cov["vt_is_method_final_false"] = nfin_false
    ctx.cov["vt_is_method_final_mismatches"] = fbad
    ctx.add("evaluations", len(lines))
    ctx.add("traces_validated_against_impl", len(lines))
    ctx.cov["vt_hierarchies_compared"] = len(lines)
    ctx.cov["vt_classes_compared"] = nclasses
    ctx.cov["vt_nontrivial"] = nontriv
    ctx.cov["vt_mismatches"] = mism
    ctx.cov["vt_trait_vtables_compared"] = trait_tables
    ctx.cov["vt_glue_entries_in_class_vtables"] = glue_main
    ctx.cov["vt_glue_entries_in_trait_vtables"] = glue_trait
    # dispatch queries: slot through p's layout on c's table vs MRO lookup (theorem instance), and vs CPython's lookup
    qlines = []
    qmeta = []
    for (k, real, names) in meta:
        h, mro, look = hs[k]
        cid, mid = names["cid"], names["mid"]
        qs = []
        for c in real:
            if c["is_trait"]:
                continue
            for p in c["mro"]:
                if not real[p]["is_trait"] and p not in c["base_mro"]:
                    continue
                for n in real[p]["vtable"]:
                    qs.append((c["name"], p, n))
        if not qs:
            continue
        toks, _ = encode_table(real_table(real))
        qlines.append("vd " + toks + f" {len(qs)} " + " ".join(f"{cid[c]} {cid[p]} {mid[n]}" for c, p, n in qs))
        qmeta.append((k, qs, names, look))
    qout = run_driver(exe, qlines) if qlines else []
    nq = 0
    for (k, qs, names, look), o in zip(qmeta, qout):
        ans = o.split()
        rc = {v: kk for kk, v in names["cid"].items()}
        for (c, p, n), a in zip(qs, ans):
            nq += 1
            via, mrol = a.split("/")
            if via != mrol:
                ctx.broke("C", "model: slot through ancestor layout != mro lookup (theorem instance fails?)", f"hierarchy {k} {c} {p} {n}: {a}")
            want = look[c].get(n)
            got = rc[int(mrol.split(".")[0])] if "." in mrol else None
            if n == "__ne__" and want is None and got is not None and "__ne__" not in hs[k][0][got]["methods"]:
                continue      # the synthesised __ne__ (CPython derives != from __eq__ instead)
            if n == "__hash__" and want is None and got is not None:
                m = hs[k][1][c]
                if any("__eq__" in hs[k][0][j]["methods"] and "__hash__" not in hs[k][0][j]["methods"] for j in m[:m.index(got)]):
                    continue  # CPython sets __hash__ = None in a class that defines __eq__ without __hash__
            if want != got:
                ctx.broke("C", "model mro_lookup vs CPython attribute lookup", f"hierarchy {k} class {c} method {n}: CPython {want} model {got}")
    ctx.add("evaluations", nq)
    ctx.cov["vt_dispatch_queries"] = nq
    ctx.sample({"hierarchy": "\n".join(render_hierarchy(0, hs[idxs[len(idxs) // 2]][0])[0])})
    # predicted compiler crashes (KeyError in specialize_parent_vtable): confirm a few on the real code
    confirmed = 0
    for k in crash_idx[: ctx.n(2, 10)]:
        r, _ = build([k], f"crash{k}")
        if r.get("error", "") and "KeyError" in str(r.get("error")):
            confirmed += 1
        else:
            ctx.broke("C", "model predicts compute_vtable raises, real code does not",
                      "\n".join(render_hierarchy(k, hs[k][0])[0]) + f"\nreal: {r.get('error')}")
    ctx.cov["vt_predicted_crash_confirmed_on_real"] = confirmed
    if crash_idx:
        ctx.cov["side_finding"] = ("mypyc raises KeyError in specialize_parent_vtable (internal error, no code generated) when a class "
                                   "inherits from a non-trait base a method whose signature differs from the one a trait declares; "
                                   "not a behavioural difference, so not a C05 violation; example: "
                                   + " / ".join(render_hierarchy(0, hs[crash_idx[0]][0])[0]))
    return [(k, hs[k][0]) for k in idxs]


# =========================================================================================== (b) pass validators
def parse_pass_dump(path: str) -> list[dict]:
    """[{kind, name, before, after}] ; a function = {args, addr, blocks: [(label, handler, ops, term)]}"""
    pairs: list[dict] = []
    cur_kind = None
    funcs: list[dict] = []
    fn: dict | None = None
    blk: list | None = None
    with open(path) as f:
        for ln in f:
            t = ln.split()
            if not t:
                continue
            if t[0] == "P":
                cur_kind = t[1]
                funcs = []
            elif t[0] == "F":
                fn = {"name": t[1] if len(t) > 1 else "?", "args": [], "addr": [], "blocks": []}
            elif t[0] == "A":
                fn["args"] = [int(x) for x in t[1:]]
            elif t[0] == "X":
                fn["addr"] = [int(x) for x in t[1:]]
            elif t[0] == "B":
                blk = [int(t[1]), int(t[2]), [], None]
                fn["blocks"].append(blk)
            elif t[0] == "a":
                blk[2].append(("a", int(t[1]), t[2]))
            elif t[0] == "o":
                blk[2].append(("o", int(t[1]), int(t[2]), t[3:]))
            elif t[0] in ("g", "c", "r", "u"):
                if blk[3] is not None:
                    blk[2].append(("o", 0, 0, ["!control-op-in-the-middle"]))
                blk[3] = tuple(t)
            elif t[0] == "E":
                funcs.append(fn)
                if len(funcs) == 2:
                    pairs.append({"kind": cur_kind, "name": funcs[0]["name"], "before": funcs[0], "after": funcs[1]})
                    funcs = []
    return pairs


def enc_func(fn: dict) -> str | None:
    toks = [str(len(fn["blocks"]))]
    for lab, _h, ops, term in fn["blocks"]:
        if term is None:
            return None
        toks += [str(lab), str(len(ops))]
        for o in ops:
            if o[0] == "a":
                toks += ["a", str(o[1]), o[2]]
            else:
                toks += ["o", str(o[1]), str(o[2]), str(len(o[3]))] + list(o[3])
        toks += list(term)
    return " ".join(toks)


def term_succs(term: tuple) -> list[int]:
    if term[0] == "g":
        return [int(term[1])]
    if term[0] == "c":
        return [int(term[4]), int(term[5])]
    return []


def copyprop_hints(before: dict, after: dict) -> tuple[dict[int, str], dict[int, list[int]]]:
    """UNTRUSTED hints for validate_copyprop: replacement map and per-block available-copy sets."""
    def dests(fn):
        return {o[1] for b in fn["blocks"] for o in b[2] if o[0] == "a"}
    removed = dests(before) - dests(after)
    first: dict[int, str] = {}
    for b in before["blocks"]:
        for o in b[2]:
            if o[0] == "a" and o[1] in removed and o[1] not in first:
                first[o[1]] = o[2]
    hint: dict[int, str] = {}
    for y, s in first.items():
        seen = set()
        while s[0] == "v" and int(s[1:]) in first and int(s[1:]) not in seen:
            seen.add(int(s[1:]))
            s = first[int(s[1:])]
        hint[y] = s

    def kill(d: int, A: set[int]) -> set[int]:
        return {y for y in A if y != d and hint[y] != f"v{d}"}

    def val_of(A: set[int], s: str):
        if s[0] == "v" and int(s[1:]) in hint:
            return hint[int(s[1:])] if int(s[1:]) in A else None
        return s

    def transfer(A: set[int], ops) -> set[int]:
        for o in ops:
            d = o[1]
            if o[0] == "a" and d in hint:
                gen = val_of(A, o[2]) == hint[d] and hint[d] != f"v{d}"
                A = kill(d, A)
                if gen:
                    A = A | {d}
            else:
                A = kill(d, A)
        return A
    labels = [b[0] for b in before["blocks"]]
    if not hint or not labels:
        return hint, {}
    preds: dict[int, list[int]] = {l: [] for l in labels}
    for b in before["blocks"]:
        for s in term_succs(b[3] or ("u",)):
            if s in preds:
                preds[s].append(b[0])
    full = set(hint)
    ain = {l: set(full) for l in labels}
    ain[labels[0]] = set()
    blocks = {b[0]: b for b in before["blocks"]}
    changed = True
    it = 0
    while changed and it < 10000:
        changed = False
        it += 1
        aout = {l: transfer(set(ain[l]), blocks[l][2]) for l in labels}
        for l in labels[1:]:
            new = set(ain[l])
            for p in preds[l]:
                new &= aout[p]
            if new != ain[l]:
                ain[l] = new
                changed = True
    return hint, {l: sorted(a) for l, a in ain.items() if a}


def flagelim_hints(before: dict, after: dict) -> dict[int, int]:
    """UNTRUSTED hint for validate_flagelim: flag register -> label of its (deleted) branch block."""
    hint: dict[int, int] = {}
    ab = {b[0]: b for b in after["blocks"]}
    for b in before["blocks"]:
        t = b[3]
        if not b[2] and t and t[0] == "c" and t[3][0] == "v":
            a = ab.get(b[0])
            if a is None or (not a[2] and a[3] and a[3][0] == "u"):
                hint[int(t[3][1:])] = b[0]
    return hint


def list_cases(repo: str, quick: bool) -> list[dict]:
    from harness.C05_irdump import parse_test_file
    td = os.path.join(repo, "mypyc", "test-data")
    items = []
    for f in sorted(os.listdir(td)):
        if not f.endswith(".test"):
            continue
        if not (f.startswith("irbuild-") or f.startswith("run-") or f.startswith("opt-") or f in ("refcount.test", "exceptions.test", "lowering-int.test", "lowering-list.test")):
            continue
        for c in parse_test_file(os.path.join(td, f)):
            items.append({"kind": "test", "file": os.path.join(td, f), "case": c[0]})
    return items


GEN_PASS_PROGRAM = '''
from typing import Optional, List
def f{k}(a: int, b: int, xs: List[int], s: str, o: Optional[str]) -> int:
    t = a {op1} b
    u = t
    ok = a {cmp1} b {bop} (len(xs) {cmp2} {c1} {bop2} s == "x")
    r = 0
    while r {cmp1} {c2} and not (o is None or t == {c1}):
        r += 1
        if ok {bop} xs[r & 1] {cmp2} u:
            t = u {op2} r
            ok = not ok
        elif a {cmp2} r:
            continue
        else:
            break
    v = t if ok else u
    return v {op1} (r if a {cmp1} b {bop2} ok else {c2})
'''


GEN_UNINIT = '''
def un_a{k}(c: bool, n: int) -> int:
    if c:
        x = n {op1} {c1}
    while n {cmp1} {c2}:
        n += 1
        if n == 3:
            y = n
    return x + y

def un_b{k}(c: bool, n: i64, f: float) -> float:
    if c:
        p: i64 = n {op1} 2
        q: float = f * 2.0
    if n {cmp2} {c1}:
        del p
    elif n == 7:
        del q
    return float(p) + q

def un_c{k}(x: int, c: bool) -> int:
    if c:
        del x
    return x

def un_d{k}(y: i64, c: bool) -> i64:
    if c:
        del y
    return y
'''

GEN_EXC = '''
def ex_ret64_{k}(n: i64) -> i64:
    if n {cmp1} 0:
        raise ValueError("neg")
    return n * 2

def ex_pair_{k}(n: i64) -> Tuple[i64, float]:
    return n, 1.5

def ex_nested_{k}(n: i64, xs: List[int], f: float) -> float:
    t = 0
    try:
        t += ex_ret64_{k}(n)
        try:
            a, b = ex_pair_{k}(n)
            t += a + xs[{c1}]
            f = f / b
        except IndexError:
            t += 100
            raise KeyError("k")
        finally:
            t += 1
    except ValueError as e:
        t -= 1
        assert t {cmp2} {c2}, "msg"
    return f + float(t)
'''

GEN_FLAG_LOOP = '''
def w{k}(xs: List[int]) -> int:
    n = True
    while n:
        if len(xs) {cmp1} {c1}:
            xs.append(1)
            continue
        n = False
    return len(xs)

def v{k}(a: int, xs: List[int]) -> int:
    ok = a {cmp1} {c1}
    while ok:
        a += 1
        if a in xs:
            ok = a {cmp2} {c2}
            continue
        elif a {cmp2} 100:
            break
        ok = not ok
    return a
'''


def gen_pass_programs(rng: vlib.Rng, n: int) -> list[dict]:
    items = []
    for k in range(n):
        txt = ""
        for j in range(6):
            txt += GEN_PASS_PROGRAM.format(k=j, op1=rng.choice("+-*&|^"), op2=rng.choice(["+", "-", "//", "<<", ">>"]),
                                           cmp1=rng.choice(["<", "<=", "==", "!=", ">", ">="]), cmp2=rng.choice(["<", "<=", "==", "!=", ">", ">="]),
                                           bop=rng.choice(["and", "or"]), bop2=rng.choice(["and", "or"]),
                                           c1=rng.choice([0, 1, 7, 2 ** 31, 2 ** 62, 2 ** 64]), c2=rng.choice([3, 10, 2 ** 40]))
        txt = "from typing import Tuple\nfrom mypy_extensions import i64\n" + txt
        txt += GEN_EXC.format(k=k, cmp1=rng.choice(["<", "<="]), cmp2=rng.choice(["<", ">", "=="]), c1=rng.choice([0, 1]), c2=rng.choice([5, 6]))
        txt += GEN_UNINIT.format(k=k, op1=rng.choice("+-*"), cmp1=rng.choice(["<", "<="]), cmp2=rng.choice(["<", ">", "=="]),
                                 c1=rng.choice([1, 9]), c2=rng.choice([5, 6]))
        txt += GEN_FLAG_LOOP.format(k=k, cmp1=rng.choice(["<", "<=", "!="]), cmp2=rng.choice(["<", ">", "=="]),
                                    c1=rng.choice([3, 5]), c2=rng.choice([7, 50]))
        items.append({"kind": "gen", "name": f"gen{k}", "text": txt})
    return items


def synth_ir(rng: vlib.Rng, n_random: int) -> list[dict]:
    """Hand-built IR for shapes irbuild (currently) does not emit but the passes are written to handle:
    NEGATED branches on flag registers, 1-3 predecessors, flag branch in a loop, cases where flag elimination must
    not fire; for copy propagation: chains, registers assigned in both branches, loop-carried registers, copies of
    arguments that are reassigned later, address-taken registers.  The real passes run on them in the child."""
    funcs: list[dict] = []
    k = 0
    for neg in (0, 1):
        for npred in (1, 2, 3):
            for variant in ("plain", "noise", "flag-used-twice", "loop", "via-register", "direct-edge"):
                k += 1
                args = [["a", "i64"], ["b", "i64"], ["c0", "bool"], ["c1", "bool"]]
                regs = [["f", "bool"], ["g", "bool"], ["x", "i64"]]
                join = npred + 2           # block index of the flag branch
                t_blk, f_blk = join + 1, join + 2
                blocks: list[list] = []
                # dispatch block(s)
                if npred == 1:
                    blocks.append([["goto", 1]])
                    blocks.append([])      # filler so that predecessor blocks start at 2 (unused, unreachable)
                    blocks[1].append(["goto", 2])
                elif npred == 2:
                    blocks.append([["branch", "c0", 2, 3]])
                    blocks.append([["goto", 2]])
                else:
                    blocks.append([["branch", "c0", 2, 1]])
                    blocks.append([["branch", "c1", 3, 4]])
                for i in range(npred):
                    ops: list[list] = [["cmp", f"r{i}", "a", f"#{i + 1}"]]
                    if variant == "via-register":
                        ops += [["assign", "g", f"r{i}"], ["assign", "f", "g"]]
                    else:
                        ops.append(["assign", "f", f"r{i}"])
                    if variant == "noise" and i == 0:
                        ops.append(["intop", f"n{i}", "a", "b"])
                    ops.append(["goto", join])
                    blocks.append(ops)
                if variant == "direct-edge":
                    # another way into the flag branch that does not assign the flag right before
                    blocks[0] = [["assign", "f", "c1"], ["intop", "z0", "a", "b"]] + blocks[0]
                    blocks[1] = [["goto", join]] if npred == 1 else blocks[1]
                blocks.append([["branch", "f", t_blk, f_blk, neg]])
                if variant == "loop":
                    blocks.append([["intop", "a2", "a", "#1"], ["assign", "a", "a2"], ["cmp", "lc", "a", "b"], ["branch", "lc", 0, f_blk]])
                elif variant == "flag-used-twice":
                    blocks.append([["branch", "f", f_blk, f_blk]])
                else:
                    blocks.append([["return", "#2"]])
                blocks.append([["return", "#4"]])
                funcs.append({"name": f"flag_{variant}_{npred}_{neg}", "args": args, "regs": regs, "blocks": blocks})
    # copy-propagation shapes
    A = [["a", "i64"], ["b", "i64"], ["c0", "bool"]]
    R = [["x", "i64"], ["y", "i64"], ["z", "i64"], ["i", "i64"]]
    cp = [
        ("chain", [[["assign", "x", "a"], ["assign", "y", "x"], ["assign", "z", "y"], ["intop", "t", "z", "x"], ["return", "t"]]]),
        ("both-branches", [[["branch", "c0", 1, 2]], [["assign", "x", "a"], ["goto", 3]], [["assign", "x", "b"], ["goto", 3]],
                           [["assign", "y", "x"], ["intop", "t", "y", "x"], ["return", "t"]]]),
        ("loop-carried", [[["assign", "i", "#0"], ["goto", 1]], [["intop", "t", "i", "#1"], ["assign", "i", "t"], ["assign", "y", "t"],
                                                                 ["cmp", "c", "y", "b"], ["branch", "c", 1, 2]], [["return", "y"]]]),
        ("arg-reassigned", [[["assign", "x", "a"], ["intop", "t", "a", "#1"], ["assign", "a", "t"], ["intop", "u", "x", "a"], ["return", "u"]]]),
        ("src-reassigned", [[["assign", "y", "b"], ["assign", "x", "y"], ["assign", "y", "a"], ["intop", "u", "x", "y"], ["return", "u"]]]),
        ("address-taken", [[["assign", "x", "a"], ["addr", "p", "x"], ["assign", "y", "x"], ["loadmem", "m", "p"], ["intop", "u", "y", "m"], ["return", "u"]]]),
        ("copy-of-address-taken", [[["assign", "x", "a"], ["assign", "y", "x"], ["addr", "p", "y"], ["loadmem", "m", "p"], ["intop", "u", "y", "m"], ["return", "u"]]]),
        ("literal", [[["assign", "x", "#7"], ["assign", "y", "x"], ["intop", "u", "y", "a"], ["branch", "c0", 1, 2]], [["return", "u"]], [["return", "x"]]]),
        ("copy-in-loop", [[["goto", 1]], [["intop", "t", "a", "b"], ["assign", "x", "t"], ["cmp", "c", "x", "b"], ["branch", "c", 1, 2]], [["return", "x"]]]),
        ("assigned-twice-dest", [[["assign", "x", "a"], ["intop", "t", "x", "#1"], ["assign", "x", "t"], ["return", "x"]]]),
    ]
    for nm, blocks in cp:
        funcs.append({"name": "cp_" + nm, "args": A, "regs": R, "blocks": blocks})
    # random straight-line/diamond mixes of the same building blocks
    for j in range(n_random):
        regs = ["x", "y", "z", "i"]
        vals = ["a", "b", "#3"]
        blks: list[list[list]] = [[], [], [], []]
        cnt = 0
        for bi in range(4):
            for _ in range(rng.randint(1, 4)):
                c = rng.random()
                if c < 0.5:
                    d = rng.choice(regs)
                    blks[bi].append(["assign", d, rng.choice(vals + [r for r in regs if r in vals])])
                    if d not in vals:
                        vals.append(d)
                else:
                    cnt += 1
                    blks[bi].append(["intop", f"t{cnt}", rng.choice(vals), rng.choice(vals)])
                    vals.append(f"t{cnt}")
            if bi == 0:
                # registers must be defined on every path: only entry-block values may be used later
                safe = list(vals)
        blks[0].append(["branch", "c0", 1, 2])
        blks[1].append(["goto", 3])
        blks[2].append(["goto", 3])
        # keep only uses of values defined in block 0 or in the same block (well-formed IR)
        def fix(bi: int, allowed: list[str]) -> None:
            seen = list(allowed)
            for op in blks[bi]:
                for q in range(2, len(op)):
                    if isinstance(op[q], str) and not op[q].startswith("#") and op[q] not in seen:
                        op[q] = rng.choice(seen)
                seen.append(op[1])
        for bi in (1, 2, 3):
            fix(bi, safe)
        blks[3].append(["return", rng.choice(safe)])
        funcs.append({"name": f"cp_random_{j}", "args": A, "regs": R, "blocks": blks})
    return funcs


def pass_stage(ctx: vlib.Ctx, exe: str | None, tmp: str) -> None:
    rng = vlib.Rng(ctx.seed, "c05pass")
    items = list_cases(vlib.REPO, ctx.quick)
    ctx.cov["pass_corpus_cases_total"] = len(items)
    if ctx.quick:
        opt = [i for i in items if os.path.basename(i["file"]).startswith("opt-")]
        rest = [i for i in items if not os.path.basename(i["file"]).startswith("opt-")]
        rng.shuffle(rest)
        items = opt + rest[:70]
    items += gen_pass_programs(rng, ctx.n(4, 40))
    synth = synth_ir(rng, ctx.n(30, 300))
    ctx.cov["pass_synthetic_ir_functions"] = len(synth)
    items.append({"kind": "synth", "name": "synthetic-ir", "funcs": synth})
    nj = min(vlib.NPROC, 14)
    # balance: round-robin
    jobs = [items[i::nj] for i in range(nj)]
    t0 = time.time()

    def one(a):
        i, cases = a
        job = {"repo": vlib.REPO, "work": os.path.join(tmp, f"pw{i}"), "out": os.path.join(tmp, f"pass{i}.dump"),
               "cases": cases, "pretty": False}
        st, o = child("--passes", job, tmp, f"p{i}", timeout=14000)
        return st, o, job["out"]
    with ThreadPoolExecutor(max_workers=nj) as ex:
        outs = list(ex.map(one, enumerate(jobs)))
    pairs: list[dict] = []
    upairs: list[dict] = []
    xpairs: list[dict] = []
    errs: dict[str, int] = {}
    ncases = 0
    for st, o, path in outs:
        if st != 0 or not os.path.exists(path + ".status"):
            ctx.broke("C", "pass dumper", f"child failed status {st}: {o[-1500:]}")
            continue
        for s in json.load(open(path + ".status")):
            ncases += 1
            if s["err"]:
                key = s["err"].split(":")[0]
                errs[key] = errs.get(key, 0) + 1
        pairs += [q for q in parse_pass_dump(path) if q["kind"] in ("copyprop", "flagelim")]
        rich = parse_rich_dump(path)
        upairs += [q for q in rich if q["kind"] == "uninit"]
        xpairs += [q for q in rich if q["kind"] == "exc"]
    ctx.log(f"(b) dumped {len(pairs)} before/after pairs from {ncases} programs in {time.time()-t0:.1f}s; not compiled: {errs}")
    ctx.cov["pass_programs"] = ncases
    ctx.cov["pass_programs_not_compiled"] = errs
    if exe is None or not pairs:
        if not pairs:
            ctx.broke("C", "pass dumper", "no before/after pairs were produced")
        return
    lines = []
    meta = []
    nontriv = {"copyprop": 0, "flagelim": 0}
    removed_total = 0
    excl: dict[str, int] = {}
    for p in pairs:
        b, a = enc_func(p["before"]), enc_func(p["after"])
        if b is None or a is None:
            excl["block without terminator"] = excl.get("block without terminator", 0) + 1
            continue
        if p["kind"] == "copyprop":
            hint, ann = copyprop_hints(p["before"], p["after"])
            # side condition outside the semantic model (writes through pointers are not modelled):
            # a register whose address is taken must be neither removed nor used as a replacement
            addr = set(p["before"]["addr"])
            if addr & (set(hint) | {int(s[1:]) for s in hint.values() if s[0] == "v"}):
                ctx.violation(f"copyprop-addr:{p['name']}", f"copy propagation touched a register whose address is taken (LoadAddress) in {p['name']}",
                              {"kind": "pass", "pass": "copyprop", "function": p["name"], "hint": hint})
            if hint:
                nontriv["copyprop"] += 1
                removed_total += len(hint)
            h = f"{len(hint)} " + " ".join(f"{y} {s}" for y, s in sorted(hint.items()))
            an = f"{len(ann)} " + " ".join(f"{l} {len(A)} " + " ".join(map(str, A)) for l, A in sorted(ann.items()))
            lines.append(f"cp {b} {a} {h} {an}")
        else:
            fh = flagelim_hints(p["before"], p["after"])
            if fh:
                nontriv["flagelim"] += 1
            lines.append(f"fe {b} {a} {len(fh)} " + " ".join(f"{x} {l}" for x, l in sorted(fh.items())))
        meta.append(p)
    out = run_driver(exe, lines)
    rejected = 0
    rej_kind: dict[str, int] = {}
    for p, o, ln in zip(meta, out, lines):
        if o != "1":
            rejected += 1
            rej_kind[p["kind"]] = rej_kind.get(p["kind"], 0) + 1
            labels_after = {b[0] for b in p["after"]["blocks"]}
            dangling = [t for b in p["after"]["blocks"] if b[3] for t in term_succs(b[3]) if t not in labels_after]
            if p["kind"] == "flagelim" and dangling:
                ctx.violation("flagelim-jump-to-deleted-branch-block",
                              f"flag elimination deletes a flag-branch block that is also reached without an assignment to the flag "
                              f"(e.g. by `continue` in `while flag:`), leaving a jump to a block that no longer exists; emitted C does not "
                              f"compile (`goto CPyL-1`): {p['name']}",
                              {"kind": "pass", "pass": p["kind"], "function": p["name"], "before": p["before"], "after": p["after"],
                               "driver_line": ln[:20000]})
            elif rej_kind[p["kind"]] <= 3:
                ctx.violation(f"pass:{p['kind']}:{p['name']}",
                              f"verified validator rejects the output of {p['kind']} on {p['name']} ({o}): the transformed function "
                              f"is not provably equivalent to its input",
                              {"kind": "pass", "pass": p["kind"], "function": p["name"], "before": p["before"], "after": p["after"],
                               "driver_line": ln[:20000]})
    # ---- insert_uninit_checks pairs: normalise to guarded blocks, hints, verified validator
    ulines, umeta = [], []
    ustats = {"guards": 0, "bitmap_guards": 0, "bitmap_updates": 0, "functions_with_checks": 0, "not_normalisable": 0}
    for q in upairs:
        try:
            ln, info = uninit_case(q)
        except Exception as ex:  # noqa
            ln, info = None, {"reason": f"normaliser exception {type(ex).__name__}: {ex}"}
        if ln is None:
            ustats["not_normalisable"] += 1
            if ustats["not_normalisable"] <= 3:
                ctx.broke("C", "uninit pair cannot be normalised to guarded blocks", f"{q['name']}: {info}")
            continue
        for kk in ("guards", "bitmap_guards", "bitmap_updates"):
            ustats[kk] += info[kk]
        ustats["functions_with_checks"] += int(info["guards"] + info["bitmap_guards"] > 0)
        ulines.append(ln)
        umeta.append((q, info))
    uout = run_driver(exe, ulines) if ulines else []
    urej = uexcl = 0
    uexcl_by: dict[str, int] = {}
    for (q, info), o, ln in zip(umeta, uout, ulines):
        if o != "1":
            urej += 1
            if info.get("undefines_argument"):
                ctx.violation("uninit-undefines-argument",
                              "insert_uninit_checks treats an ARGUMENT that may have been `del`eted like an unassigned local: the entry "
                              "block overwrites it with the error value (bitmap-tracked types: its bit starts cleared), so every later read "
                              f"raises UnboundLocalError even when the argument was never deleted: {q['name']}",
                              {"kind": "pass", "pass": "uninit", "function": q["name"], "driver_line": ln[:20000]})
            elif (ur := undefined_reads(q["after"])) and "named" not in ur:
                # the rejection is explained by reads uninit.py deliberately leaves unchecked; counted, never accepted
                cls = "temp" if "temp" in ur else ("unnamed-pointer-initialised" if "unnamed-pointer-initialised" in ur else "unnamed")
                uexcl_by[cls] = uexcl_by.get(cls, 0) + 1
                uexcl += 1
            elif urej - uexcl <= 3 + 8:
                ctx.violation(f"pass:uninit:{q['name']}", f"verified validator rejects the output of insert_uninit_checks on {q['name']} ({o})",
                              {"kind": "pass", "pass": "uninit", "function": q["name"], "driver_line": ln[:20000]})
    # ---- insert_exception_handling pairs
    xlines, xmeta = [], []
    xstats = {"magic": 0, "false": 0, "always": 0, "overlap": 0, "handlers": 0, "not_normalisable": 0}
    for q in xpairs:
        try:
            ln, info = exc_case(q)
        except Exception as ex:  # noqa
            ln, info = None, {"reason": f"normaliser exception {type(ex).__name__}: {ex}"}
        if ln is None:
            xstats["not_normalisable"] += 1
            if xstats["not_normalisable"] <= 3:
                ctx.broke("C", "exceptions pair cannot be normalised to guarded blocks", f"{q['name']}: {info}")
            continue
        for kk in ("magic", "false", "always", "overlap", "handlers"):
            xstats[kk] += info[kk]
        xlines.append(ln)
        xmeta.append(q)
    xout = run_driver(exe, xlines) if xlines else []
    xrej = 0
    for q, o, ln in zip(xmeta, xout, xlines):
        if o != "1":
            xrej += 1
            if xrej <= 3:
                ctx.violation(f"pass:exceptions:{q['name']}",
                              f"verified validator rejects the output of insert_exception_handling on {q['name']} ({o}): it is not the "
                              "expansion of the implicit error checks of its input",
                              {"kind": "pass", "pass": "exceptions", "function": q["name"], "driver_line": ln[:20000]})
    ctx.cov["exceptions_pairs_validated"] = len(xlines)
    ctx.cov["exceptions_pairs_rejected"] = xrej
    ctx.cov["exceptions_checks_by_kind"] = xstats
    ctx.add("evaluations", len(xlines))
    ctx.add("traces_validated_against_impl", len(xlines))
    ctx.cov["uninit_pairs_validated"] = len(ulines)
    ctx.cov["uninit_pairs_rejected"] = urej
    ctx.cov["uninit_pairs_excluded"] = uexcl
    ctx.cov["uninit_pairs_excluded_by_reason"] = uexcl_by
    ctx.add("evaluations", len(lines) + len(ulines))
    ctx.add("traces_validated_against_impl", len(lines) + len(ulines))
    ctx.cov["pass_pairs_validated"] = len(lines)
    ctx.cov["pass_pairs_rejected"] = rejected
    ctx.cov["pass_pairs_rejected_by_pass"] = rej_kind
    ctx.cov["pass_pairs_excluded"] = excl
    ctx.cov["pass_pairs_where_pass_changed_something"] = nontriv
    ctx.cov["copyprop_registers_removed"] = removed_total
    for p in meta:
        if p["kind"] == "flagelim" and flagelim_hints(p["before"], p["after"]):
            ctx.sample({"flagelim_pair": p["name"], "blocks": len(p["before"]["blocks"])})
            break


def diff_hierarchies(ctx: vlib.Ctx, exe: str | None, n: int) -> list[tuple[int, list[dict]]]:
    """Random hierarchies with traits for the run-time dispatch part of the differential search (mypy-acceptable,
    and not in the class on which compute_vtable is predicted to raise)."""
    if exe is None:
        return []
    rng = vlib.Rng(ctx.seed, "c05diffhier")
    out: list[tuple[int, list[dict]]] = []
    # fixed operator shapes: dunder provided only by the trait / only by the subclass / by base and subclass
    du = enum_dunder()
    names = list(DUNDERS)
    for dn in ("__eq__", "__ne__", "__bool__", "__len__", "__contains__", "__getitem__", "__hash__"):
        for mask in ((2, 4) if ctx.quick else (2, 4, 5, 6, 8, 10)):
            h = du[names.index(dn) * 16 + mask]
            r = py_mro(h)
            if r is None:
                continue
            o = run_driver(exe, ["vt " + encode_table(predicted_table(h, r[0]))[0]])[0]
            if not o.endswith("none"):
                out.append((9500 + len(out), h))
    n += len(out)
    tries = 0
    while len(out) < n and tries < 40 * n:
        tries += 1
        h = random_hierarchy(rng)
        r = py_mro(h)
        if r is None or not valid_for_mypy(h, r[0]):
            continue
        if not any(c["traits"] for c in h) or sum(len(c["methods"]) for c in h) < 3:
            continue
        o = run_driver(exe, ["vt " + encode_table(predicted_table(h, r[0]))[0]])[0]
        if o.endswith("none") or not o.startswith("wf=1"):
            continue
        out.append((9000 + len(out), h))
    return out


# =========================================================================================== driver
def run(ctx: vlib.Ctx) -> None:
    ctx.cov["rule"] = ("(a) class hierarchies: every 3-class shape over one method name (trait flag x legal parent set x absent/sig A/sig B) "
                       "+ seeded random 3-6 classes, depth<=4, <=3 methods + __init__, 3 signature variants (non-trivial = has inheritance and "
                       "methods; glue needed when an override changes the signature); (b) every FuncIR of the mypyc test corpus right before/"
                       "after each of the two passes (non-trivial = the pass changed the function); (S) generated typed modules x configs, "
                       "transcripts compared call by call")
    ctx.assumptions += [
        "PARTIAL: only three cores are proved/validated; irbuild, exception/refcount/spill/lowering passes, codegen and lib-rt are only searched (S)",
        "vtable theorems assume wf_ct (mro head/closure, base in mro, unique names): checked on every real ClassIR table; ClassIR.mro is compared with CPython's C3 on generated hierarchies only",
        "glue contract (monitored, not proved): glue_methods[(t, n)] of class d calls d.methods[n] with coerced arguments",
        "how emitted C uses the tables (CPY_GET_METHOD / CPY_GET_METHOD_TRAIT index by the static class's slot into the run-time class's table) is read off emitfunc.py/emitclass.py, not modelled",
        "IR semantics: ops other than Assign/Goto/Branch/Return are uninterpreted functions of (source values, world); writes through LoadAddress pointers to registers are not modelled (validator side condition instead); an op is identified by its class + all non-Value attributes",
        "validator hints (replacement map, available-copy annotations, flag->label map) are computed in Python and are untrusted: the theorems quantify over them",
        "core (c) theorems are BOUNDED: every parameter list of <= 4 parameters x every call with <= 5 positional and <= 3 keyword actuals, enumerated completely inside Coq (vm_compute); C12/Bind.v cpython_bind is the accept/reject reference; TypeError message texts are not compared (they differ, examples in evidence)",
        "uninit validator: AFTER is first normalised to guarded blocks (continuation blocks merged back, bitmap idioms recognised) by Python code that is TRUSTED; theorem hypotheses: defined values of types with a spare error value are not the error value, branches without traceback entry have no effect; axiom functional_extensionality_dep; possibly-undefined UNNAMED registers are not checked by uninit.py (its XXX clause): such functions are counted as exclusions",
        "exceptions validator: same TRUSTED normalisation to guarded blocks; the expected branch/comparison/call symbols per error kind are computed by the dumper from the BEFORE op (error-kind table of ir/ops.py), independent of exceptions.py; fresh value ids of inserted ops are hints checked for freshness",
        "extraction: ExtrOcamlBasic only; OCaml driver tools/ocaml/c05_driver.ml (I/O only)",
        "CPython 3.12.1 is the oracle for run-time behaviour; gcc builds with -Wno-tautological-compare",
    ]
    ok = ctx.prove("C05/Properties.v", ["C05"])
    ctx.prove("C05/PropertiesC.v", ["C05", "C12"])
    ctx.prove("C05/PropertiesU.v", ["C05"])
    ctx.prove("C05/PropertiesX.v", ["C05"])
    ctx.prove("C05/PropertiesF.v", ["C05"])
    exe = vlib.build_extracted("c05_" + ctx.tier, "C05/Extract.v", "tools/ocaml/c05_driver.ml")
    if exe is None:
        ctx.broke("C", "extraction", "extracted model does not build")
    tmp = tempfile.mkdtemp(prefix="c05_")
    hiers: list = []
    try:
        from harness import C05_diff
        hiers = diff_hierarchies(ctx, exe, ctx.n(12, 96))
        with ThreadPoolExecutor(max_workers=4) as ex:
            # the four stages are independent; each parallelises internally
            futs = [(ex.submit(vtable_stage, ctx, exe, tmp), "vtable stage"), (ex.submit(pass_stage, ctx, exe, tmp), "pass stage"),
                    (ex.submit(C05_diff.run_diff, ctx, hiers), "diff stage"), (ex.submit(argparse_stage, ctx, exe, tmp), "argparse stage")]
            for f, nm in futs:
                try:
                    f.result()
                except Exception:  # noqa
                    import traceback
                    ctx.broke("C", nm, traceback.format_exc())
    finally:
        shutil.rmtree(tmp, ignore_errors=True)
    ctx.cov["distinct_nontrivial"] = (ctx.cov.get("vt_nontrivial", 0) + sum(ctx.cov.get("pass_pairs_where_pass_changed_something", {}).values())
                                      + ctx.cov.get("diff_calls_compared", 0))


def replay(ctx: vlib.Ctx, path: str) -> None:
    d = json.load(open(path))
    r = d.get("replay", {})
    print(json.dumps({k: v for k, v in r.items() if k not in ("files", "driver", "before", "after", "driver_line")}, indent=1)[:3000])
    if r.get("kind", "").startswith("diff"):
        from harness import C05_diff
        C05_diff.replay_diff(ctx, r)
    elif r.get("kind") == "argparse":
        exe = vlib.build_extracted("c05_" + ctx.tier, "C05/Extract.v", "tools/ocaml/c05_driver.ml")
        tmp = tempfile.mkdtemp(prefix="c05_")
        try:
            argparse_stage(ctx, exe, tmp)
        finally:
            shutil.rmtree(tmp, ignore_errors=True)
    elif r.get("kind") == "pass":
        exe = vlib.build_extracted("c05_" + ctx.tier, "C05/Extract.v", "tools/ocaml/c05_driver.ml")
        o = run_driver(exe, [r["driver_line"]])[0]
        print("validator verdict on the recorded pair:", o)
        if o != "1":
            ctx.violation("replay", "validator rejects the recorded pair", r)
    else:
        run(ctx)


# =========================================================================================== (c) wrapper argument parsing
K_POS, K_OPT, K_STAR, K_NAMED, K_STAR2, K_NAMED_OPT = 0, 1, 2, 3, 4, 5


def arg_sigs(n: int) -> list[list[tuple[int, int, bool]]]:
    """Every `def` parameter list with <= n parameters: [(kind, name, positional-only)], names 1.."""
    out = []
    for a in range(n + 1):
        for b in range(n + 1):
            for st in (False, True):
                for nk in range(n + 1):
                    for kw in itertools.product((K_NAMED, K_NAMED_OPT), repeat=nk):
                        for st2 in (False, True):
                            if a + b + st + nk + st2 > n:
                                continue
                            for q in range(a + b + 1):
                                ks = [((K_POS if i < a else K_OPT), i < q) for i in range(a + b)]
                                ks += [(K_STAR, False)] if st else []
                                ks += [(k, False) for k in kw]
                                ks += [(K_STAR2, False)] if st2 else []
                                out.append([(k, i + 1, po) for i, (k, po) in enumerate(ks)])
    return out


def arg_calls(n: int) -> list[tuple[int, tuple[int, ...]]]:
    pool = list(range(1, n + 1)) + [99]
    kws = [()]
    for m in (1, 2, 3):
        kws += list(itertools.permutations(pool, m))
    return [(np, k) for np in range(n + 2) for k in kws]


def render_sig(idx: int, sig: list[tuple[int, int, bool]]) -> str:
    parts = []
    ret = []
    npo = sum(1 for s in sig if s[2])
    seen_star = False
    for j, (k, nm, po) in enumerate(sig):
        if k in (K_NAMED, K_NAMED_OPT) and not seen_star:
            parts.append("*")
            seen_star = True
        if k == K_POS or k == K_NAMED:
            parts.append(f"p{nm}: str")
        elif k in (K_OPT, K_NAMED_OPT):
            parts.append(f"p{nm}: str = 'D'")
        elif k == K_STAR:
            parts.append(f"*p{nm}: str")
            seen_star = True
        else:
            parts.append(f"**p{nm}: str")
        if po and j + 1 == npo:
            parts.append("/")
        if k == K_STAR:
            ret.append(f"'(' + ','.join(p{nm}) + ')'")
        elif k == K_STAR2:
            ret.append(f"'{{' + ','.join([_kn(k) for k in p{nm}]) + '}}'")
        else:
            ret.append(f"p{nm}")
    body = " + '|' + ".join(ret) if ret else "''"
    return f"def s{idx}({', '.join(parts)}) -> str:\n    return {body}\n"


ARG_DRIVER = '''
import sys, json
import margs as M
assert M.__file__.endswith(sys.argv[1]), M.__file__
CALLS = json.load(open("calls.json"))
for i in range(M.NSIGS):
    f = getattr(M, "s%d" % i)
    out = []
    msg = None
    for np, kws in CALLS:
        args = ["P%d" % j for j in range(np)]
        kwargs = {("zz" if k == 99 else "p%d" % k): "K%d" % k for k in kws}
        try:
            out.append(f(*args, **kwargs))
        except TypeError as e:
            out.append("T")
            if msg is None:
                msg = str(e)
        except BaseException as e:
            out.append("E:" + type(e).__name__)
    print(";".join(out))
    print("#", msg)
'''


def argparse_stage(ctx: vlib.Ctx, exe: str | None, tmp: str) -> None:
    from harness import C05_diff
    n = ctx.n(3, 4)
    sigs = arg_sigs(n)
    calls = arg_calls(n)
    ctx.cov["argparse_signatures"] = len(sigs)
    ctx.cov["argparse_calls_per_signature"] = len(calls)
    src = ["from typing import Final", "NSIGS: Final = %d" % len(sigs), "def _kn(k: str) -> str:", "    return '99' if k == 'zz' else k[1:]", ""]
    for i, s in enumerate(sigs):
        src.append(render_sig(i, s))
    work = os.path.join(tmp, "argparse")
    os.makedirs(os.path.join(work, "py"), exist_ok=True)
    os.makedirs(os.path.join(work, "so"), exist_ok=True)
    for d in ("py", "so"):
        json.dump([[np, list(k)] for np, k in calls], open(os.path.join(work, d, "calls.json"), "w"))
    res = C05_diff.compile_and_run(work, {"margs.py": "\n".join(src) + "\n"}, ARG_DRIVER, C05_diff.CONFIGS[0])
    if res["status"] != "ok":
        ctx.broke("C", "argparse module does not compile", res.get("detail", "")[-2000:])
        return
    (si, oi), (sc, oc) = res["interp"], res["compiled"]
    if si != 0 or sc != 0:
        ctx.broke("C", "argparse driver failed", (oi if si else oc)[-2000:])
        return
    li, lc = oi.splitlines(), oc.splitlines()
    if len(li) != 2 * len(sigs) or len(lc) != 2 * len(sigs):
        ctx.broke("C", "argparse driver output", f"{len(li)} / {len(lc)} lines for {len(sigs)} signatures")
        return
    # model
    model: dict[str, list[list[str]]] = {}
    if exe is not None:
        for which in ("w", "g", "p", "c"):
            lines = []
            for s in sigs:
                ps = f"{len(s)} " + " ".join(f"{k} {nm} {int(po)}" for k, nm, po in s)
                for np, kws in calls:
                    lines.append(f"ap {which} {ps} {np} {len(kws)} " + " ".join(map(str, kws)))
            out = run_driver(exe, lines)
            model[which] = [out[i * len(calls):(i + 1) * len(calls)] for i in range(len(sigs))]
    bad = {"compiled-vs-model": 0, "interp-vs-reference": 0, "general-vs-wrapper": 0, "c12-accept": 0}
    posonly_diff = 0
    nontriv = 0
    msg_examples = []
    for i, s in enumerate(sigs):
        ri, rc = li[2 * i].split(";"), lc[2 * i].split(";")
        has_po = any(po for _, _, po in s)
        sig_txt = render_sig(i, s).split("\n")[0]
        if li[2 * i + 1] != lc[2 * i + 1] and len(msg_examples) < 3 and lc[2 * i + 1] != "# None":
            msg_examples.append({"def": sig_txt, "cpython": li[2 * i + 1][2:], "compiled": lc[2 * i + 1][2:]})
        for j, (np, kws) in enumerate(calls):
            call_txt = f"{sig_txt}  called with {np} positional and keywords {list(kws)}"
            if rc[j] != "T":
                nontriv += 1
            if model:
                if model["w"][i][j] != rc[j]:
                    bad["compiled-vs-model"] += 1
                    if bad["compiled-vs-model"] <= 3:
                        ctx.broke("C", "compiled wrapper vs Coq parse_wrapper", f"{call_txt}: compiled {rc[j]} model {model['w'][i][j]}")
                if model["p"][i][j] != ri[j]:
                    bad["interp-vs-reference"] += 1
                    if bad["interp-vs-reference"] <= 3:
                        ctx.broke("C", "CPython vs Coq py_bind (the reference)", f"{call_txt}: CPython {ri[j]} py_bind {model['p'][i][j]}")
                if model["g"][i][j] != model["w"][i][j]:
                    bad["general-vs-wrapper"] += 1
                    if bad["general-vs-wrapper"] <= 3:
                        ctx.broke("C", "model: fast path differs from general path", call_txt)
                if (model["c"][i][j] == "T") != (ri[j] == "T"):
                    bad["c12-accept"] += 1
                    if bad["c12-accept"] <= 3:
                        ctx.broke("C", "CPython vs C12 cpython_bind", f"{call_txt}: CPython {ri[j]} cpython_bind {model['c'][i][j]}")
            if ri[j] != rc[j]:
                if has_po:
                    posonly_diff += 1
                    ctx.violation("wrapper-ignores-positional-only",
                                  f"compiled wrapper binds keywords to positional-only parameters: {call_txt}: CPython {ri[j]}, compiled {rc[j]}",
                                  {"kind": "argparse", "def": sig_txt, "npos": np, "kws": list(kws), "cpython": ri[j], "compiled": rc[j]})
                else:
                    ctx.violation(f"argparse:{sig_txt}:{np}:{list(kws)}", f"argument binding differs: {call_txt}: CPython {ri[j]}, compiled {rc[j]}",
                                  {"kind": "argparse", "def": sig_txt, "npos": np, "kws": list(kws), "cpython": ri[j], "compiled": rc[j]})
    ctx.add("evaluations", len(sigs) * len(calls))
    ctx.add("traces_validated_against_impl", len(sigs) * len(calls))
    ctx.cov["argparse_cases"] = len(sigs) * len(calls)
    ctx.cov["argparse_cases_accepted"] = nontriv
    ctx.cov["argparse_mismatches"] = bad
    ctx.cov["argparse_posonly_differences"] = posonly_diff
    ctx.cov["argparse_typeerror_messages_differ_examples"] = msg_examples
    ctx.log(f"(c) {len(sigs)} signatures x {len(calls)} calls: {bad}, positional-only differences {posonly_diff}")


# =========================================================================================== (b2) uninit validator
def parse_rich_dump(path: str) -> list[dict]:
    """Pairs dumped by C05_irdump.dump_rich: {kind, name, before, after}; a function = {args, regs: {vid: (name, named,
    overlap)}, blocks: [[label, handler, ops, term]]}, op = ("a", d, src) | ("O", d, sym, tag, [srcs])."""
    pairs: list[dict] = []
    kind = None
    funcs: list[dict] = []
    fn: dict = {}
    blk: list = []
    with open(path) as f:
        for ln in f:
            t = ln.split()
            if not t:
                continue
            if t[0] == "P":
                kind = t[1]
                funcs = []
            elif t[0] == "F":
                fn = {"name": t[1] if len(t) > 1 else "?", "args": [], "regs": {}, "blocks": [], "addr": []}
            elif t[0] == "A":
                fn["args"] = [int(x) for x in t[1:]]
            elif t[0] == "X":
                fn["addr"] = [int(x) for x in t[1:]]
            elif t[0] == "N":
                fn["regs"][int(t[1])] = (t[2], t[3] == "1", t[4] == "1")
            elif t[0] == "B":
                blk = [int(t[1]), int(t[2]), [], None]
                fn["blocks"].append(blk)
            elif t[0] == "a":
                blk[2].append(("a", int(t[1]), t[2]))
            elif t[0] == "o":
                blk[2].append(("o", int(t[1]), int(t[2]), t[3:]))
            elif t[0] == "O":
                blk[2].append(("O", int(t[1]), int(t[2]), t[3], t[4:]))
            elif t[0] == "Y":
                blk[2][-1] = blk[2][-1] + (t[1:],)
            elif t[0] == "D":
                fn["dflt_sym"] = int(t[1])
            elif t[0] in ("g", "c", "r", "u"):
                blk[3] = tuple(t)
            elif t[0] == "E":
                funcs.append(fn)
                if len(funcs) == 2:
                    pairs.append({"kind": kind, "name": funcs[0]["name"], "before": funcs[0], "after": funcs[1]})
                    funcs = []
    return pairs


BITMAP_MASK = (1 << 32) - 1


def undefined_reads(fn: dict) -> list[str]:
    """Independent must-defined analysis of a dumped function: the kinds of variables some op reads although they are not
    defined on every path to it.  'temp' = an op VALUE (generator helper before spill.py: live across a resume edge);
    'unnamed-pointer-initialised' = a nameless register whose address is taken (LoadAddress) and that a C callee fills in
    through the pointer (e.g. the StopIteration value of CPyIter_Send / CPy_YieldFromErrorHandle);
    'unnamed' = another nameless register (uninit.py's XXX clause skips all of these); 'named' = a named register."""
    regs = fn["regs"]
    addr = {int(o[3].split(":")[1]) for b in fn["blocks"] for o in b[2] if o[0] == "O" and o[3].startswith("loadaddr:")}
    labels = [b[0] for b in fn["blocks"]]
    uni = set(regs) | {o[1] for b in fn["blocks"] for o in b[2]}
    ain = {l: set(uni) for l in labels}
    ain[labels[0]] = set(fn["args"])

    def step(D: set[int], U: set[int], o) -> None:
        if o[0] == "O" and o[3] == "undef":
            D.discard(o[1])
            U.add(o[1])
        elif o[0] == "a" and o[2][0] == "v" and int(o[2][1:]) in U:
            D.discard(o[1])
        else:
            D.add(o[1])
            U.discard(o[1])
    preds: dict[int, list[int]] = {l: [] for l in labels}
    for b in fn["blocks"]:
        for t in term_succs(b[3] or ("u",)):
            if t in preds:
                preds[t].append(b[0])
    blocks = {b[0]: b for b in fn["blocks"]}
    changed = True
    while changed:
        changed = False
        out = {}
        for l in labels:
            D, U = set(ain[l]), set()
            for o in blocks[l][2]:
                step(D, U, o)
            out[l] = D
        for l in labels[1:]:
            n = set(ain[l])
            for q in preds[l]:
                n &= out[q]
            if n != ain[l]:
                ain[l] = n
                changed = True
    kinds: list[str] = []

    def note(x: str, D: set[int], U: set[int]) -> None:
        if x[0] != "v":
            return
        v = int(x[1:])
        if v in D or v in U:
            return
        if v not in regs:
            kinds.append("temp")
        elif not regs[v][1]:
            kinds.append("unnamed-pointer-initialised" if v in addr else "unnamed")
        else:
            kinds.append("named")
    for b in fn["blocks"]:
        D, U = set(ain[b[0]]), set()
        for o in b[2]:
            for x in ([o[2]] if o[0] == "a" else (o[4] if o[0] == "O" else o[3])):
                note(x, D, U)
            step(D, U, o)
        t = b[3]
        if t and t[0] == "c" and t[6] != "iserr":
            note(t[3], D, U)
        if t and t[0] == "r":
            note(t[1], D, U)
    return kinds


def uninit_case(p: dict) -> tuple[str | None, dict]:
    """Normalise the AFTER function of an insert_uninit_checks pair into guarded blocks (TRUSTED step, see notes), compute the
    untrusted hints, and encode the request line for the extracted validator.  Returns (line or None, info)."""
    before, after = p["before"], p["after"]
    nb = len(before["blocks"])
    ab = {b[0]: b for b in after["blocks"]}
    regs = dict(before["regs"])
    regs.update(after["regs"])
    is_bitmap = {v for v, (nm, _, _) in regs.items() if nm.startswith("__locals_bitmap")}
    info: dict[str, Any] = {"guards": 0, "bitmap_guards": 0, "bitmap_updates": 0}

    def is_err_block(lbl: int) -> bool:
        b = ab.get(lbl)
        return bool(b and lbl > nb and len(b[2]) == 1 and b[2][0][0] == "O" and b[2][0][3] == "raise_unbound" and b[3] and b[3][0] == "u")

    def gop_plain(o) -> str:
        if o[0] == "a":
            return f"p a {o[1]} {o[2]}"
        return f"p o {o[1]} {o[2]} {len(o[4])} " + " ".join(o[4])

    def term_s(t) -> str:
        if t[0] == "c":
            return " ".join(t[:6])
        return " ".join(t)
    defk, iserrk, raisef = set(), set(), set()
    bmt: dict[int, tuple[int, int]] = {}
    for fnx in (before, after):
        for b in fnx["blocks"]:
            if b[3] and b[3][0] == "c" and b[3][6] == "iserr":
                iserrk.add(int(b[3][1]))
            for o in b[2]:
                if o[0] == "O" and o[3] == "raise_unbound":
                    raisef.add(o[2])
    gafter: list[tuple[int, list[str], tuple]] = []
    merged: set[int] = set()
    errs: list[int] = []
    for L in range(1, nb + 1):
        cur = ab.get(L)
        if cur is None:
            return None, {"reason": "original block missing in AFTER"}
        gops: list[str] = []
        while True:
            ops = cur[2]
            i = 0
            while i < len(ops):
                o = ops[i]
                if o[0] == "O" and o[3] == "undef":
                    gops.append(f"U {o[1]}")
                elif o[0] == "a" and o[1] in is_bitmap and o[2][0] == "k":
                    gops.append(f"I {o[1]}")
                elif (o[0] == "O" and (o[3].startswith("or:") or o[3].startswith("and:")) and o[4] and o[4][0][0] == "v"
                      and int(o[4][0][1:]) in is_bitmap and i + 1 < len(ops) and ops[i + 1][0] == "a"
                      and ops[i + 1][1] == int(o[4][0][1:]) and ops[i + 1][2] == f"v{o[1]}"):
                    B = int(o[4][0][1:])
                    val = int(o[3].split(":")[1])
                    setbit = o[3].startswith("or:")
                    bit = val if setbit else (BITMAP_MASK ^ val)
                    if bit <= 0 or bit & (bit - 1):
                        return None, {"reason": "bitmap update with a non-single-bit mask"}
                    bi = bit.bit_length() - 1
                    gops.append(f"{'S' if setbit else 'C'} {B} {bi}")
                    info["bitmap_updates"] += 1
                    # which register does this bit track: the assignment right before
                    if gops[:-1] and gops[-2].startswith("p a "):
                        bmt.setdefault(int(gops[-2].split()[2]), (B, bi))
                    i += 1
                elif (o[0] == "O" and o[3].startswith("and:") and i + 2 == len(ops) and ops[i + 1][0] == "O" and ops[i + 1][3] == "eqz"
                      and ops[i + 1][4] and ops[i + 1][4][0] == f"v{o[1]}" and cur[3] and cur[3][0] == "c"
                      and cur[3][3] == f"v{ops[i + 1][1]}" and cur[3][6] == "bool" and cur[3][2] == "0" and is_err_block(int(cur[3][4]))):
                    B = int(o[4][0][1:])
                    bit = int(o[3].split(":")[1])
                    gops.append(f"T {B} {bit.bit_length() - 1} {cur[3][4]}")
                    info["bitmap_guards"] += 1
                    errs.append(int(cur[3][4]))
                    i += 1
                else:
                    gops.append(gop_plain(o))
                i += 1
            t = cur[3]
            if t is None:
                return None, {"reason": "block without terminator"}
            if t[0] == "c" and is_err_block(int(t[4])) and int(t[5]) > nb and int(t[5]) in ab:
                if not (gops and gops[-1].startswith("T ") and gops[-1].endswith(" " + t[4])):
                    gops.append(f"G {t[1]} {t[2]} {t[3]} {t[4]}")
                    info["guards"] += 1
                    errs.append(int(t[4]))
                    if t[6] == "iserr" and t[7] == "0":
                        defk.add(int(t[1]))
                merged.add(int(t[5]))
                cur = ab[int(t[5])]
                continue
            gafter.append((L, gops, t))
            break
    for E in sorted(set(errs)):
        gafter.append((E, [gop_plain(ab[E][2][0])], ab[E][3]))
    for lbl, b in ab.items():
        if lbl > nb and lbl not in merged and lbl not in errs:
            gafter.append((lbl, [gop_plain(o) for o in b[2]], b[3]))
    gbefore = []
    for b in before["blocks"]:
        gbefore.append((b[0], [f"U {o[1]}" if (o[0] == "O" and o[3] == "undef") else gop_plain(o) for o in b[2]], b[3]))
    if any(t is None for _, _, t in gbefore):
        return None, {"reason": "block without terminator"}
    rev = {v: k for k, v in bmt.items()}
    # ---- must-defined annotations (untrusted): forward fixpoint on the guarded AFTER blocks
    universe = set(regs) | {int(g.split()[2]) for _, gs, _ in gafter for g in gs if g.startswith("p ")}
    args = set(after["args"])
    labels = [l for l, _, _ in gafter]
    blocks = {l: (gs, t) for l, gs, t in gafter}

    def transfer(D: set[int], gs: list[str]) -> set[int]:
        D = set(D)
        U: set[int] = set()
        for g in gs:
            w = g.split()
            if w[0] == "p":
                d = int(w[2])
                if w[1] == "a" and w[3][0] == "v" and int(w[3][1:]) in U:
                    D.discard(d)
                else:
                    D.add(d)
                U.discard(d)
            elif w[0] == "U":
                D.discard(int(w[1]))
                U.add(int(w[1]))
            elif w[0] == "G" and w[3][0] == "v":
                D.add(int(w[3][1:]))
                U.discard(int(w[3][1:]))
            elif w[0] == "T":
                r = rev.get((int(w[1]), int(w[2])))
                if r is not None:
                    D.add(r)
                    U.discard(r)
        return D
    ain = {l: set(universe) for l in labels}
    ain[labels[0]] = set(args)
    preds: dict[int, list[int]] = {l: [] for l in labels}
    for l, (gs, t) in blocks.items():
        for s in term_succs(t):
            if s in preds:
                preds[s].append(l)
    changed, it = True, 0
    while changed and it < 2000:
        changed = False
        it += 1
        aout = {l: transfer(ain[l], blocks[l][0]) for l in labels}
        for l in labels[1:]:
            new = set(ain[l])
            for q in preds[l]:
                new &= aout[q]
            if new != ain[l]:
                ain[l] = new
                changed = True
    tracked = sorted(v for v, (_, named, _) in regs.items() if named)

    def plist(xs) -> str:
        xs = list(xs)
        return f"{len(xs)} " + " ".join(map(str, xs))

    def enc(gf) -> str:
        return f"{len(gf)} " + " ".join(f"{l} {len(gs)} " + " ".join(gs) + " " + term_s(t) for l, gs, t in gf)
    line = ("un " + plist(tracked) + " " + plist(sorted(args)) + f" {len(bmt)} " + " ".join(f"{r} {B} {i}" for r, (B, i) in sorted(bmt.items()))
            + " " + plist(sorted(defk)) + " " + plist(sorted(iserrk)) + " " + plist(sorted(raisef))
            + f" {len(labels)} " + " ".join(f"{l} {plist(sorted(ain[l]))}" for l in labels)
            + " " + enc(gbefore) + " " + enc(gafter))
    info["bitmap_registers"] = len(bmt)
    info["unnamed_in_prelude"] = any(a.startswith("U ") and b.startswith("p a ") and b.split()[3] == "v" + a.split()[1]
                                     and not regs.get(int(b.split()[2]), ("", True, False))[1] for a, b in zip(blocks[labels[0]][0], blocks[labels[0]][0][1:]))
    eg = blocks[labels[0]][0]
    info["undefines_argument"] = (any(a.startswith("U ") and b.startswith("p a ") and b.split()[3] == "v" + a.split()[1] and int(b.split()[2]) in args
                                      for a, b in zip(eg, eg[1:])) or any(r in args for r in bmt))
    info["prelude_regs"] = [int(g.split()[2]) for g in blocks[labels[0]][0] if g.startswith("p a ") and g.split()[3][0] == "v"][:0]
    return " ".join(line.split()), info


# =========================================================================================== (b3) exceptions validator
def exc_case(p: dict) -> tuple[str | None, dict]:
    """Normalise AFTER of an insert_exception_handling pair into guarded blocks (TRUSTED merge of continuation blocks), attach
    to every BEFORE op its error-kind spec (from the dumper) with the fresh value ids found in AFTER (hints), encode the request."""
    before, after = p["before"], p["after"]
    nb = len(before["blocks"])
    ab = {b[0]: b for b in after["blocks"]}
    info: dict[str, Any] = {"magic": 0, "false": 0, "always": 0, "overlap": 0, "handlers": 0}

    def op_s(o) -> str:
        if o[0] == "a":
            return f"a {o[1]} {o[2]}"
        return f"o {o[1]} {o[2]} {len(o[4])} " + " ".join(o[4])

    def term_s(t) -> str:
        return " ".join(t[:6]) if t[0] == "c" else " ".join(t)
    # ---- AFTER: merge the chains
    gafter: list[tuple[int, list[str], tuple]] = []
    merged: set[int] = set()
    fresh: dict[int, list] = {}        # head label -> list of (probe dests..., call dest) per overlapping op, in order
    for L in range(1, nb + 1):
        cur = ab.get(L)
        if cur is None:
            return None, {"reason": "original block missing in AFTER"}
        gops: list[str] = []
        steps = 0
        while True:
            steps += 1
            if steps > 10000:
                return None, {"reason": "merge does not terminate"}
            gops += ["p " + op_s(o) for o in cur[2]]
            t = cur[3]
            if t is None:
                return None, {"reason": "block without terminator"}
            if t[0] == "c" and int(t[5]) > nb and int(t[5]) in ab and int(t[5]) not in merged:
                T, F = int(t[4]), int(t[5])
                tb = ab.get(T)
                if (T > nb and tb is not None and T not in merged and len(tb[2]) == 1 and tb[2][0][0] == "O" and tb[3] and tb[3][0] == "c"
                        and int(tb[3][5]) == F):
                    # overlapping error value: rare branch into a block that calls err_occurred and branches to the handler
                    gops.append(f"H {t[1]} {t[2]} {t[3]} 1 {op_s(tb[2][0])} {tb[3][1]} {tb[3][2]} {tb[3][3]} {tb[3][4]}")
                    merged.add(T)
                else:
                    gops.append(f"G {t[1]} {t[2]} {t[3]} {T}")
                merged.add(F)
                cur = ab[F]
                continue
            gafter.append((L, gops, t))
            break
    rest = [l for l in sorted(ab) if l > nb and l not in merged]
    df = None
    for l in rest:
        b = ab[l]
        gb = (l, ["p " + op_s(o) for o in b[2]], b[3])
        if df is None and len(b[2]) == 1 and b[2][0][0] == "O" and b[3] and b[3][0] == "r":
            df = gb
        gafter.append(gb)
    # ---- BEFORE with specs; fresh ids are read off AFTER in order of appearance
    after_ops = {L: [g for g in gs] for L, gs, _ in gafter}
    xblocks = []
    for b in before["blocks"]:
        L = b[0]
        stream = after_ops.get(L, [])
        pos = 0
        xs = []
        if b[1]:
            info["handlers"] += 1
        for o in b[2]:
            # advance the AFTER stream to this op (same dest id)
            while pos < len(stream) and not (stream[pos].startswith("p ") and stream[pos].split()[2] == str(o[1])):
                pos += 1
            pos += 1
            spec = o[5] if len(o) > 5 else None
            if spec is None:
                xs.append(op_s(o) + " n")
            elif spec[0] == "m":
                info["magic"] += 1
                xs.append(op_s(o) + f" m {spec[1]}")
            elif spec[0] == "f":
                info["false"] += 1
                xs.append(op_s(o) + f" f {spec[1]}")
            elif spec[0] == "a":
                info["always"] += 1
                xs.append(op_s(o) + f" a {spec[1]} {spec[2][1:]}")
            elif spec[0] == "v":
                info["overlap"] += 1
                npr = int(spec[1])
                i = 2
                prev = f"v{o[1]}"
                probes = []
                for _ in range(npr):
                    sym, nargs = spec[i], int(spec[i + 1])
                    i += 2
                    lit = None
                    if nargs == 2:
                        lit = spec[i]
                        i += 1
                    # hinted fresh id: dest of the next inserted op in AFTER
                    dest = 0
                    if pos < len(stream) and stream[pos].startswith("p o "):
                        dest = int(stream[pos].split()[2])
                        pos += 1
                    probes.append(f"o {dest} {sym} {nargs} {prev}" + (f" {lit}" if lit else ""))
                    prev = f"v{dest}"
                k1, callsym, k2 = spec[i], spec[i + 1], spec[i + 2]
                cdest = 0
                if pos < len(stream) and stream[pos].startswith("H "):
                    w = stream[pos].split()
                    if len(w) > 6 and w[5] == "o":
                        cdest = int(w[6])
                    pos += 1
                xs.append(op_s(o) + f" v {npr} " + " ".join(probes) + f" {k1} o {cdest} {callsym} 0 {k2}")
            else:
                return None, {"reason": f"unknown error kind {spec}"}
        if b[3] is None:
            return None, {"reason": "block without terminator"}
        xblocks.append((L, b[1], xs, b[3]))

    def genc(gb) -> str:
        return f"{len(gb[1])} " + " ".join(gb[1]) + " " + term_s(gb[2])
    dfs = "0" if df is None else f"1 {df[0]} {genc(df)}"
    line = (f"xc {dfs} 1 {before.get('dflt_sym', 1)} {len(xblocks)} "
            + " ".join(f"{L} {h} {len(xs)} " + " ".join(xs) + " " + term_s(t) for L, h, xs, t in xblocks)
            + f" {len(gafter)} " + " ".join(f"{g[0]} {genc(g)}" for g in gafter))
    return " ".join(line.split()), info
