"""C12 — static models of runtime rules agree with CPython.

(c) version/platform tests, (d) constant folding: T1/T2 translators + Coq proofs + extracted
model vs implementation vs CPython.  (a) call binding and (b) MRO: see harness/C12ab.py (run
from here when present).
"""
from __future__ import annotations

import itertools
import os
import subprocess
import sys
from typing import Any

import vlib
from extractors import t12
from py2gallina import Unsupported

sys.path.insert(0, vlib.REPO)

OPS = ["+", "-", "*", "/", "//", "%", "&", "|", "^", "<<", ">>", "**"]
CMP = ["==", "!=", "<=", ">=", "<", ">"]


def zt(n: int) -> str:
    return ("-" if n < 0 else "") + bin(abs(n))[2:]


def tz(s: str) -> int:
    return -int(s[1:], 2) if s.startswith("-") else int(s, 2)


def run_driver(exe: str, lines: list[str]) -> list[str]:
    p = subprocess.run([exe], input="\n".join(lines) + "\n", text=True, capture_output=True, timeout=900)
    out = p.stdout.splitlines()
    if len(out) != len(lines):
        raise RuntimeError(f"driver returned {len(out)} lines for {len(lines)} inputs: {p.stderr[-500:]}")
    return out


# ------------------------------------------------------------------ (d) constant folding

def boundary_ints(rng: vlib.Rng, extra: int) -> list[int]:
    vals = {0, 1, -1, 2, -2, 3, -3, 7, -7, 10, 255, 256}
    for k in (7, 8, 31, 32, 62, 63, 64, 970, 1023, 1024):
        for d in (-1, 0, 1):
            vals.add(2 ** k + d)
            vals.add(-(2 ** k) + d)
    vals |= {10 ** 400, -(10 ** 400), 2 ** 1024 - 2 ** 970, 2 ** 1024 - 2 ** 970 - 1, (2 ** 1024 - 2 ** 970) * 3, (2 ** 1024 - 2 ** 970) * 3 - 1}
    for _ in range(extra):
        vals.add(rng.randint(-2 ** rng.choice([4, 16, 70, 1100]), 2 ** rng.choice([4, 16, 70, 1100])))
    return sorted(vals)


def impl_fold_str(r: Any, l: int, rr: int) -> str:
    if r is None:
        return "N"
    if isinstance(r, bool) or not isinstance(r, (int, float)):
        return f"?{r!r}"
    if isinstance(r, float):
        # model keeps floats symbolic: "the float CPython computes for l / r"
        return f"F {zt(l)} {zt(rr)}" if r == l / rr else f"?float {r.hex()}"
    return "I " + zt(r)


def py_eval_int(op: str, l: int, r: int) -> tuple[str, Any]:
    try:
        v = eval(f"({l}) {op} ({r})", {"__builtins__": {}})
    except Exception as e:  # noqa
        return "raise", type(e).__name__
    return "ok", v


def fold_stage(ctx: vlib.Ctx, exe: str | None) -> None:
    from mypy import constant_fold as cf
    rng = vlib.Rng(ctx.seed, "fold")
    ints = boundary_ints(rng, ctx.n(20, 200))
    small = [v for v in ints if abs(v) <= 70]
    cases: list[tuple[str, int, int]] = []
    for op in OPS + ["@", "and", "=="]:
        for l in ints:
            rs = small if op in ("**", "<<", ">>") else ints  # the model (like a naive runtime) iterates r times
            if op == "**" and abs(l) > 2 ** 70:
                continue
            if ctx.quick and len(rs) > 40:
                rs = sorted(set(rng.sample(rs, 40)) | {0, 1, -1, 2 ** 63, -2 ** 63})
            for r in rs:
                cases.append((op, l, r))
    ctx.log(f"(d) {len(cases)} int fold cases over {len(ints)} operands")
    impl: list[str] = []
    nontriv: set[tuple] = set()
    for op, l, r in cases:
        try:
            res = cf.constant_fold_binary_int_op(op, l, r)
            s = impl_fold_str(res, l, r)
        except Exception as e:  # noqa
            s = "C " + type(e).__name__
        impl.append(s)
        # S: implementation against CPython itself
        kind, v = py_eval_int(op, l, r) if op in OPS else ("raise", "SyntaxOrNotArith")
        ok = True
        if s.startswith("C "):
            ok = False
        elif s == "N":
            # not folded: fine only if CPython does not produce an int/float of the folded kind
            if kind == "ok" and not (op == "**" and r < 0):
                ok = False
        elif s.startswith("I "):
            ok = kind == "ok" and type(v) is int and v == tz(s[2:])
        elif s.startswith("F "):
            ok = kind == "ok" and type(v) is float
        else:
            ok = False
        if s != "N":
            nontriv.add((op, l, r))
        if not ok:
            ctx.violation(f"fold:{op}:{l}:{r}", f"constant_fold_binary_int_op({op!r},{l},{r}) -> {s} but CPython gives {kind} {v!r}",
                          {"kind": "fold_int", "op": op, "left": l, "right": r, "impl": s, "cpython": [kind, repr(v)]})
    ctx.add("evaluations", len(cases))
    ctx.cov["fold_int_cases"] = len(cases)
    ctx.cov["fold_int_folded"] = len(nontriv)
    ctx.sample({"fold": [cases[len(cases) // 3][0], str(cases[len(cases) // 3][1])[:40], str(cases[len(cases) // 3][2])[:40]], "impl": impl[len(cases) // 3][:60]})
    if exe:
        model = run_driver(exe, [f"fold {op} {zt(l)} {zt(r)}" for op, l, r in cases])
        pyb = run_driver(exe, [f"pybin {op} {zt(l)} {zt(r)}" for op, l, r in cases])
        bad = 0
        for (op, l, r), m, i, pb in zip(cases, model, impl, pyb):
            if m != i:
                bad += 1
                if bad <= 5:
                    ctx.broke("C", "fold translator self-correspondence", f"{op} {l} {r}: model {m} impl {i}", {"op": op, "l": l, "r": r})
            # runtime-rule transcription (PyRules.py_int_binop) against CPython
            kind, v = py_eval_int(op, l, r) if op in OPS else ("raise", None)
            if pb == "none":
                okp = op not in OPS or (op == "**" and r < 0)
            elif pb.startswith("I "):
                okp = kind == "ok" and type(v) is int and v == tz(pb[2:])
            elif pb.startswith("F "):
                okp = kind == "ok" and type(v) is float
            elif pb.startswith("C "):
                okp = kind == "raise" and v == pb[2:]
            else:
                okp = False
            if not okp:
                bad += 1
                if bad <= 5:
                    ctx.broke("C", "PyRules.py_int_binop vs CPython", f"{op} {l} {r}: rule {pb} cpython {kind} {v!r}"[:300])
        ctx.add("traces_validated_against_impl", len(cases))
    # unary + dispatcher, bools as ints
    un_cases = [(op, v) for op in ["-", "~", "+", "not", "!"] for v in ints + [True, False]]
    lines = []
    for op, v in un_cases:
        try:
            res = cf.constant_fold_unary_op(op, v)
        except Exception as e:  # noqa
            res = "C " + type(e).__name__
        s = "N" if res is None else (res if isinstance(res, str) else "I " + zt(res))
        exp = None
        if op in ("-", "~", "+"):
            exp = "I " + zt(eval(f"{op}({v!r})"))
        else:
            exp = "N"
        if s != exp:
            ctx.violation(f"unary:{op}:{v}", f"constant_fold_unary_op({op!r},{v!r}) -> {s}, CPython {exp}", {"kind": "fold_unary", "op": op, "v": repr(v)})
        lines.append((f"unary {op} {zt(int(v))}", s))
    if exe:
        out = run_driver(exe, [l for l, _ in lines])
        for (l, s), m in zip(lines, out):
            if m != s:
                ctx.broke("C", "unary self-correspondence", f"{l}: model {m} impl {s}")
                break
    ctx.add("evaluations", len(un_cases))
    # whole path: parsed expressions through constant_fold_expr and mypyc's extended folder
    fold_expr_stage(ctx, rng)


def parse_expr(src: str):
    from mypy.fastparse import parse
    from mypy.options import Options
    from mypy.errors import Errors
    o = Options()
    tree = parse("__x = (" + src + ")\n", "m.py", "m", Errors(o), o)
    return tree.defs[0].rvalue  # type: ignore[attr-defined]


def gen_const_expr(rng: vlib.Rng, depth: int) -> tuple[str, Any]:
    """(source, value) of a random constant expression; value is None when evaluation raises.

    `**` and `<<` are only generated with small right operands: both CPython at run time and the
    folding code would otherwise compute astronomically large ints (recorded separately as a C20
    finding: mypy hangs on `X: Final = 18446744073709551617 ** 9223372036854775808`)."""
    atoms = ["0", "1", "2", "3", "7", "255", "True", "False", "'a'", "'bc'", "''", "1.5", "0.0", "2.0", "63", "64",
             str(2 ** 63), str(2 ** 64 + 1), "10", "1j"]
    if depth == 0 or rng.random() < 0.25:
        a = rng.choice(atoms)
        return a, eval(a)
    if rng.random() < 0.15:
        u = rng.choice(["-", "~", "+", "not "])
        s, v = gen_const_expr(rng, depth - 1)
        src = f"({u}({s}))"
    else:
        op = rng.choice(OPS)
        (ls, lv), (rs, rv) = gen_const_expr(rng, depth - 1), gen_const_expr(rng, depth - 1)
        if op in ("**", "<<", "*"):
            big = lambda x: isinstance(x, (int, float)) and not isinstance(x, bool) and abs(x) > 300  # noqa
            if rv is None or lv is None or big(rv) or (op == "**" and big(lv) and big(rv)) or (op == "*" and big(lv) and isinstance(rv, str)) \
                    or (op == "*" and big(rv) and isinstance(lv, str)) or (isinstance(lv, int) and abs(lv) > 2 ** 4000):
                if op != "*" or isinstance(lv, str) or isinstance(rv, str) or lv is None or rv is None:
                    op = "+"
        src = f"({ls} {op} {rs})"
    try:
        import warnings
        with warnings.catch_warnings():
            warnings.simplefilter("ignore")
            v = eval(src, {"__builtins__": {}})
    except Exception:  # noqa
        v = None
    return src, v


def fold_expr_stage(ctx: vlib.Ctx, rng: vlib.Rng) -> None:
    from mypy import constant_fold as cf
    from mypyc.irbuild.constant_fold import constant_fold_binary_op_extended
    n = ctx.n(1500, 20000)
    seen = set()
    folded = 0
    for _ in range(n):
        src, _ = gen_const_expr(rng, 3)
        if src in seen:
            continue
        seen.add(src)
        try:
            e = parse_expr(src)
        except Exception as ex:  # noqa
            ctx.broke("C", "parse_expr glue", f"{src}: {ex!r}")
            return
        try:
            import signal
            r = cf.constant_fold_expr(e, "m")
        except Exception as ex:  # noqa
            ctx.violation(f"foldexpr-raise:{src}", f"constant_fold_expr raised {type(ex).__name__} on {src}",
                          {"kind": "fold_expr", "src": src, "exception": repr(ex)})
            continue
        if r is None:
            continue
        folded += 1
        try:
            import warnings
            with warnings.catch_warnings():
                warnings.simplefilter("ignore")
                v = eval(src, {"__builtins__": {}})
            ok = type(v) is type(r) and (v == r or (v != v and r != r))
            if ok and isinstance(v, float):
                ok = v.hex() == r.hex()
            why = repr(v)
        except Exception as ex:  # noqa
            ok, why = False, "raises " + type(ex).__name__
        if not ok:
            ctx.violation(f"foldexpr:{src}", f"constant_fold_expr({src}) = {r!r} but CPython: {why}",
                          {"kind": "fold_expr", "src": src, "folded": repr(r), "cpython": why})
    # mypyc's extension: bytes
    for a, b, op in [(b"ab", b"c", "+"), (b"ab", 3, "*"), (3, b"ab", "*"), (b"a", -1, "*"), (b"", b"", "+")]:
        r = constant_fold_binary_op_extended(op, a, b)
        v = eval(f"{a!r} {op} {b!r}")
        if r != v:
            ctx.violation(f"foldbytes:{a!r}{op}{b!r}", f"mypyc fold {a!r} {op} {b!r} = {r!r}, CPython {v!r}", {"kind": "fold_bytes"})
    ctx.add("evaluations", len(seen))
    ctx.cov["fold_expr_programs"] = len(seen)
    ctx.cov["fold_expr_folded"] = folded


# ------------------------------------------------------------------ (d) float / str / bytes folding

def fbits(x: float) -> str:
    import struct
    return struct.pack(">d", x).hex()


def fold_float_str_stage(ctx: vlib.Ctx, exe: str | None) -> None:
    """Float folding on boundary operands bit-exactly against eval (the model keeps float values symbolic: its theorems are
    about the guards, monitored here: fold_float_guard_exact, pow_contract, fold_float_crash_only_conversion);
    str / bytes folding: implementation vs eval vs the regenerated model."""
    import math
    import warnings
    from mypy import constant_fold as cf
    from mypyc.irbuild.constant_fold import constant_fold_binary_op_extended as cfx
    floats = [0.0, -0.0, 1.0, -1.0, 0.5, -0.5, 2.0, -2.0, 1.5, 3.0, -3.0, 0.1, 1e16, float("inf"), float("-inf"), float("nan"),
              5e-324, -5e-324, 2.2250738585072014e-308, 1.7976931348623157e308, -1.7976931348623157e308, 1e308, 1e-308, 1024.0, -1024.0]
    ints = [0, 1, -1, 2, -2, 3, 1023, 1024, -1025, 2 ** 53 + 1, 2 ** 1023, 2 ** 1024, -2 ** 1024, 10 ** 400, -10 ** 400]
    pairs = [(a, b) for a in floats for b in floats] + [(a, b) for a in floats for b in ints] + [(a, b) for a in ints for b in floats]
    n = folded = conservative = 0
    for op in ["+", "-", "*", "/", "//", "%", "**"]:
        for l, r in pairs:
            n += 1
            with warnings.catch_warnings():
                warnings.simplefilter("ignore")
                try:
                    v: Any = eval("l " + op + " r", {"l": l, "r": r})
                    ek = "ok"
                except Exception as e:  # noqa
                    v, ek = None, type(e).__name__
                try:
                    got: Any = cf.constant_fold_binary_float_op(op, l, r)
                    gk = "ok"
                except Exception as e:  # noqa
                    got, gk = None, type(e).__name__
            case = {"kind": "fold_float", "op": op, "left": repr(l), "right": repr(r), "impl": f"{gk} {got!r}", "cpython": f"{ek} {v!r}"}
            big = any(isinstance(x, int) and abs(x) >= 2 ** 1024 for x in (l, r))
            if gk != "ok":
                # fold_float_never_raises: no exception may escape the folding code (F7, fixed: int operand too large for a float)
                ctx.violation(f"fold-float-raise:{op}:{l!r}:{r!r}"[:200], f"constant_fold_binary_float_op({op!r}, {l!r}, {r!r}) raises {gk} (mypy INTERNAL ERROR on "
                              f"`X: Final = {l!r} {op} {r!r}`); CPython: {ek}"[:600], case)
                continue
            if big and got is not None:
                ctx.broke("C", "fold_float_unconvertible: an int operand that does not convert to float must not be folded", f"{op} {l!r} {r!r}"[:300], case)
            if got is not None:
                folded += 1
                if not (ek == "ok" and type(v) is float and type(got) is float and (fbits(v) == fbits(got) or (math.isnan(v) and math.isnan(got)))):
                    ctx.violation(f"fold-float:{op}:{l!r}:{r!r}", f"constant_fold_binary_float_op({op!r}, {l!r}, {r!r}) = {got!r} but CPython gives {ek} {v!r}", case)
                continue
            # not folded: must be a CPython error / complex, or the documented conservative `**` cases
            if ek == "ok" and type(v) is float:
                if op == "**" and (l == 0 or (l < 0 and isinstance(r, float)) or l != l):
                    conservative += 1
                else:
                    ctx.broke("C", "float folding guard exactness (fold_float_guard_exact / fold_float_arith_total)",
                              f"{op} {l!r} {r!r}: not folded although CPython computes {v!r}", case)
            # monitored contract on float_pow
            if op == "**" and not big:
                if ek == "ZeroDivisionError" and l != 0:
                    ctx.broke("C", "pow_contract: ZeroDivisionError with a non-zero base", f"{l!r} ** {r!r}", case)
                if ek == "ok" and type(v) is complex and not (l < 0 and isinstance(r, float)):
                    ctx.broke("C", "pow_contract: complex result outside negative base / float exponent", f"{l!r} ** {r!r}", case)
            if op in ("/", "//", "%") and ek == "ZeroDivisionError" and r != 0:
                ctx.broke("C", "float division: ZeroDivisionError with a non-zero divisor", f"{l!r} {op} {r!r}", case)
    ctx.add("evaluations", n)
    ctx.cov["fold_float_cases"] = n
    ctx.cov["fold_float_folded"] = folded
    ctx.cov["fold_float_pow_conservatively_unfolded"] = conservative
    # str / bytes
    strs = ["", "a", "ab", "x y", "~!"]
    cnt = [-2, -1, 0, 1, 2, 3]
    hx = lambda b: b.hex() or "-"  # noqa
    lines: list[str] = []
    want: list[str] = []
    m = 0
    for op in ["+", "*", "-", "%"]:
        combos: list[tuple[str, Any, Any]] = [("ss", a, b) for a in strs for b in strs] + [("si", a, k) for a in strs for k in cnt] + [("is", k, a) for a in strs for k in cnt]
        combos += [("bb", a.encode(), b.encode()) for a in strs for b in strs] + [("bi", a.encode(), k) for a in strs for k in cnt] + [("ib", k, a.encode()) for a in strs for k in cnt]
        for kind, l, r in combos:
            m += 1
            isb = "b" in kind
            try:
                got = (cfx if isb else cf.constant_fold_binary_op)(op, l, r)
                gs = "N" if got is None else (("B " if isb else "S ") + hx(got if isb else got.encode()))
            except Exception as e:  # noqa
                gs = "C " + type(e).__name__
            try:
                v = eval("l " + op + " r", {"l": l, "r": r})
            except Exception:  # noqa
                v = None
            if gs.startswith("C ") or (got is not None and (type(v) is not type(got) or v != got)):
                ctx.violation(f"fold-seq:{op}:{l!r}:{r!r}", f"folding {l!r} {op} {r!r} gives {gs}, CPython {v!r}", {"kind": "fold_seq", "op": op, "l": repr(l), "r": repr(r)})
            enc = lambda x: zt(x) if isinstance(x, int) else hx(x if isinstance(x, bytes) else x.encode())  # noqa
            lines.append(f"{'foldbytes' if isb else 'foldstr'} {kind} {op} {enc(l)} {enc(r)}")
            want.append(gs)
    if exe:
        for ln, w, g in zip(lines, want, run_driver(exe, lines)):
            if w != g:
                ctx.broke("C", "str/bytes fold translator self-correspondence", f"{ln}: model {g} impl {w}")
                break
        ctx.add("traces_validated_against_impl", m)
    ctx.add("evaluations", m)
    ctx.cov["fold_seq_cases"] = m


# ------------------------------------------------------------------ (c) version / platform tests

def idx_forms() -> list[tuple[str, list[str]]]:
    """(python source of the left operand, driver encoding of the index)"""
    forms: list[tuple[str, list[str]]] = [("sys.version_info", ["s", "_", "_"])]
    for i in (-1, 0, 1, 2, 3):
        forms.append((f"sys.version_info[{i}]", ["i", zt(i)]))
    bounds = [None, -1, 0, 1, 2, 3, 5, 6]
    for lo in bounds:
        for hi in bounds:
            s = f"sys.version_info[{'' if lo is None else lo}:{'' if hi is None else hi}]"
            forms.append((s, ["s", "_" if lo is None else zt(lo), "_" if hi is None else zt(hi)]))
    return forms


def literals(major: int, minor: int) -> list[tuple[str, list[str], Any]]:
    out: list[tuple[str, list[str], Any]] = []
    for k in sorted({2, 3, 4, max(minor - 1, 0), minor, minor + 1, 0, -1}):
        out.append((str(k), ["k", zt(k)], k))
    comps1 = sorted({2, 3, 4})
    comps2 = sorted({max(minor - 1, 0), minor, minor + 1})
    for a in comps1:
        out.append((f"({a},)", ["t", zt(a)], (a,)))
        for b in comps2:
            out.append((f"({a}, {b})", ["t", zt(a), zt(b)], (a, b)))
            for c in (0, 1):
                out.append((f"({a}, {b}, {c})", ["t", zt(a), zt(b), zt(c)], (a, b, c)))
    for b in comps2:
        out.append((f"({b},)", ["t", zt(b)], (b,)))
    out.append(("()", ["t"], ()))
    return out


class FakeSys:
    def __init__(self, vi: tuple, platform: str):
        self.version_info = vi
        self.platform = platform


def version_stage(ctx: vlib.Ctx, exe: str | None) -> None:
    import warnings
    warnings.simplefilter("ignore", SyntaxWarning)
    from mypy import reachability as R
    targets = [(3, m) for m in range(0, 16)] + [(2, 7)]
    if ctx.quick:
        targets = [(3, 0), (3, 9), (3, 12), (3, 15)]
    forms = idx_forms()
    micros = (0, 1, 7)
    rev = {"==": "==", "!=": "!=", "<": ">", ">": "<", "<=": ">=", ">=": "<="}
    n = 0
    decided = 0
    lines_c: list[str] = []
    lines_r: list[str] = []
    lines_f: list[str] = []
    meta: list[dict[str, Any]] = []
    expr_cache: dict[str, Any] = {}
    for major, minor in targets:
        for (lsrc, lenc), op, (rsrc, renc, rval) in itertools.product(forms, CMP + ["is"], literals(major, minor)):
            for flipped in (False, True):
                if flipped and (hash((lsrc, op, rsrc)) % 4):   # a quarter of the cases also in reversed operand order
                    continue
                src = f"{rsrc} {rev.get(op, op)} {lsrc}" if flipped else f"{lsrc} {op} {rsrc}"
                e = expr_cache.get(src)
                if e is None:
                    e = expr_cache[src] = parse_expr(src)
                try:
                    iv = R.consider_sys_version_info(e, (major, minor))
                except Exception as ex:  # noqa
                    ctx.violation(f"version-raise:{src}:{major}.{minor}", f"consider_sys_version_info raised {ex!r} on {src}", {"src": src})
                    continue
                n += 1
                # CPython: evaluate for several interpreters of that target
                rt: list[Any] = []
                for mic in micros:
                    try:
                        rt.append(bool(eval(src, {"__builtins__": {}, "sys": FakeSys((major, minor, mic, "final", 0), "linux")})))
                    except Exception as ex:  # noqa
                        rt.append("raise:" + type(ex).__name__)
                meta.append({"src": src, "target": [major, minor], "impl": iv, "rt": rt,
                             "enc": lenc, "neg_literal": (rval < 0) if isinstance(rval, int) else any(c < 0 for c in rval)})
                # flipped: the model gets the WRITTEN operator and reverses it with the reverse_op table regenerated from the source
                wop = rev.get(op, op) if flipped else op
                fl = "f" if flipped else ""
                lines_c.append(f"consider{fl} {zt(major)} {zt(minor)} {wop} {' '.join(lenc)} {' '.join(renc)}")
                lines_f.append(f"f5{fl} {zt(major)} {zt(minor)} {wop} {' '.join(lenc)} {' '.join(renc)}")
                lines_r.append([f"runtime{fl} {zt(major)} {zt(minor)} {zt(mic)} {wop} {' '.join(lenc)} {' '.join(renc)}" for mic in micros])  # type: ignore
    ctx.log(f"(c) {n} version tests x {len(micros)} micro versions")
    f5s = ["none"] * len(meta)
    if exe:
        mc = run_driver(exe, lines_c)
        f5s = run_driver(exe, lines_f)
        mr = run_driver(exe, [l for ls in lines_r for l in ls])  # type: ignore
        bad = 0
        for i, m in enumerate(meta):
            if mc[i] == "raise":
                bad += 1
                ctx.broke("C", "consider_core raises IndexError", f"{m['src']} target {m['target']}", m)
                continue
            mv = tz(mc[i])
            if m["neg_literal"]:
                mv = 5  # glue rule: a negative literal is a UnaryExpr, not an IntExpr: never destructured, UNKNOWN
            if mv != m["impl"]:
                bad += 1
                if bad <= 5:
                    ctx.broke("C", "consider vs consider_sys_version_info", f"{m['src']} target {m['target']}: model {mv} impl {m['impl']}", m)
            # runtime transcription vs CPython (only where the model claims a value)
            enc = m["enc"]
            # the run-time rule models releaselevel/serial by arbitrary ints: compare it with CPython only where
            # those components cannot be inspected (or where mypy decided, which the theorem covers)
            indep = (enc[0] == "i" and tz(enc[1]) <= 2) or (enc[0] == "s" and enc[2] != "_" and tz(enc[2]) <= 3)
            for j, mic in enumerate(micros):
                if not (indep or m["impl"] in (1, 3)):
                    continue
                r = mr[i * len(micros) + j]
                cp = m["rt"][j]
                if r != "none" and (cp is True or cp is False) and (r == "true") != cp:
                    bad += 1
                    if bad <= 5:
                        ctx.broke("C", "runtime_test vs CPython", f"{m['src']} target {m['target']} micro {mic}: rule {r} cpython {cp}", m)
                if r != "none" and not (cp is True or cp is False) and m["impl"] in (1, 3):
                    bad += 1
                    if bad <= 5:
                        ctx.broke("C", "runtime_test vs CPython", f"{m['src']}: rule {r} but CPython raises {cp}", m)
        ctx.add("traces_validated_against_impl", len(meta))
    # S: the property's own oracle on the implementation
    for i, m in enumerate(meta):
        iv = m["impl"]
        if iv in (R.ALWAYS_TRUE, R.ALWAYS_FALSE):
            decided += 1
            want = iv == R.ALWAYS_TRUE
            wrong = [mic for mic, v in zip(micros, m["rt"]) if v is not want]
            if wrong:
                if f5s[i] == "true":
                    key = "F5:open-ended-version_info-literal-equal-target-prefix"
                else:
                    key = f"version:{m['src']}:{m['target']}"
                ctx.violation(key, f"`{m['src']}` with --python-version {m['target'][0]}.{m['target'][1]} is folded to {want} "
                              f"but CPython {m['target'][0]}.{m['target'][1]}.{wrong[0]} evaluates {m['rt'][micros.index(wrong[0])]}",
                              {"kind": "version_test", **m})
    ctx.add("evaluations", n)
    ctx.cov["version_tests"] = n
    ctx.cov["version_tests_decided"] = decided
    ctx.sample(meta[len(meta) // 2])
    # platform
    plats = ["linux", "win32", "darwin", "cygwin", "linux2", "", "win"]
    lits = ["linux", "win32", "win", "darwin", "", "lin", "Linux"]
    lines = []
    pm = []
    for p, lit, op in itertools.product(plats, lits, CMP):
        src = f"sys.platform {op} {lit!r}"
        iv = R.consider_sys_platform(parse_expr(src), p)
        try:
            cp = bool(eval(src, {"__builtins__": {}, "sys": FakeSys((3, 12, 0, "final", 0), p)}))
        except Exception:  # noqa
            cp = None
        if iv in (1, 3) and (iv == 1) is not cp:
            ctx.violation(f"platform:{src}:{p}", f"{src} with platform {p!r}: mypy {iv}, CPython {cp}", {"src": src, "platform": p})
        if all(32 < ord(c) < 127 for c in p + lit) and p and lit:
            lines.append(f"platform {p} {op} {lit}")
            pm.append((src, p, iv))
    sw_lines = []
    sw_meta = []
    for p, lit in itertools.product(plats, lits):
        src = f"sys.platform.startswith({lit!r})"
        iv = R.consider_sys_platform(parse_expr(src), p)
        if iv in (1, 3) and (iv == 1) is not p.startswith(lit):
            ctx.violation(f"platform:{src}:{p}", f"{src} with platform {p!r}: mypy {iv}", {"src": src, "platform": p})
        if all(32 < ord(c) < 127 for c in p + lit) and p and lit:
            sw_lines.append(f"startswith {p} {lit}")
            sw_meta.append((src, p, iv))
    if exe:
        for (src, p, iv), m in zip(sw_meta, run_driver(exe, sw_lines)):
            if tz(m) != iv:
                ctx.broke("C", "platform_startswith_core vs consider_sys_platform", f"{src} platform {p}: model {tz(m)} impl {iv}")
                break
    if exe:
        out = run_driver(exe, lines)
        for (src, p, iv), m in zip(pm, out):
            if tz(m) != iv:
                ctx.broke("C", "consider_platform_cmp vs consider_sys_platform", f"{src} platform {p}: model {tz(m)} impl {iv}")
                break
    ctx.add("evaluations", len(plats) * len(lits) * (len(CMP) + 1))
    # and/or/not table: exhaustive through the real infer_condition_value
    from mypy.options import Options
    o = Options()
    o.always_true = ["AT"]
    o.always_false = ["AF"]
    names = {1: "AT", 2: "TYPE_CHECKING", 3: "AF", 4: "(not TYPE_CHECKING)", 5: "unknown_name"}
    lines = []
    exp = []
    for a in names:
        assert R.infer_condition_value(parse_expr(names[a]), o) == a
        lines.append(f"not {zt(a)}")
        exp.append(R.infer_condition_value(parse_expr(f"not {names[a]}"), o))
        for b in names:
            for opn in ("or", "and"):
                lines.append(f"{opn} {zt(a)} {zt(b)}")
                exp.append(R.infer_condition_value(parse_expr(f"{names[a]} {opn} {names[b]}"), o))
    if exe:
        out = run_driver(exe, lines)
        for l, m, x in zip(lines, out, exp):
            if m == "raise" or tz(m) != x:
                ctx.broke("C", "and/or/not table vs infer_condition_value", f"{l}: model {m} impl {x}")
    ctx.add("evaluations", len(lines))
    # nested not/and/or through the real infer_condition_value vs Cond.infer_cond (infer_condition_value_compositional)
    leaves = {"AT": 1, "TYPE_CHECKING": 2, "MYPY": 2, "AF": 3, "PY2": 3, "PY3": 1, "unknown_name": 5, "sys.platform == 'nope'": 3}
    rngc = vlib.Rng(ctx.seed, "nested-cond")

    def gen(depth: int) -> tuple[str, list[str]]:
        if depth == 0 or rngc.random() < 0.2:
            k = rngc.choice(sorted(leaves))
            return k, [zt(leaves[k])]
        if rngc.random() < 0.3:
            s1, t1 = gen(depth - 1)
            return f"(not {s1})", t1 + ["!"]
        o = rngc.choice(["and", "or"])
        (s1, t1), (s2, t2) = gen(depth - 1), gen(depth - 1)
        return f"({s1} {o} {s2})", t1 + t2 + ["&" if o == "and" else "|"]
    o.platform = "linux"
    nest = [gen(rngc.choice([2, 3, 4])) for _ in range(ctx.n(400, 4000))]
    for k in leaves:
        assert R.infer_condition_value(parse_expr(k), o) == leaves[k], k
    real = [R.infer_condition_value(parse_expr(srcn), o) for srcn, _ in nest]
    if exe:
        outn = run_driver(exe, ["cond " + " ".join(t) for _, t in nest])
        for (srcn, _), mv, rv in zip(nest, outn, real):
            if mv == "raise" or tz(mv) != rv:
                ctx.broke("C", "Cond.infer_cond vs infer_condition_value on nested conditions", f"{srcn}: model {mv} impl {rv}")
                break
        ctx.add("traces_validated_against_impl", len(nest))
    ctx.add("evaluations", len(nest))
    ctx.cov["nested_conditions"] = len(nest)
    # if/elif/else chains: real infer_reachability_of_if_statement vs Chain.chain_marks, all chains of <= 3 conditions x else / no else
    from mypy.fastparse import parse as mparse
    from mypy.errors import Errors
    cnames = {1: "AT", 2: "TYPE_CHECKING", 3: "AF", 4: "(not TYPE_CHECKING)", 5: "unknown_name"}
    clines, creal, cdesc = [], [], []
    for nconds in (1, 2, 3):
        for vals in itertools.product(sorted(cnames), repeat=nconds):
            for has_else in (False, True):
                srcc = "".join(("if " if i == 0 else "elif ") + cnames[v] + ":\n    pass\n" for i, v in enumerate(vals)) + ("else:\n    pass\n" if has_else else "")
                # the parser nests `elif` as else: [IfStmt]; build the flat multi-condition IfStmt the function iterates over
                from mypy.nodes import Block as MBlock, IfStmt as MIfStmt, PassStmt
                st = MIfStmt([parse_expr(cnames[v]) for v in vals], [MBlock([PassStmt()]) for _ in vals], MBlock([PassStmt()]) if has_else else None)
                R.infer_reachability_of_if_statement(st, o)  # type: ignore[arg-type]
                flags = "".join("1" if b.is_unreachable else "0" for b in st.body)  # type: ignore[attr-defined]
                eb = st.else_body  # type: ignore[attr-defined]
                creal.append(flags + " " + ("1" if (eb is not None and eb.is_unreachable) else "0"))
                clines.append("chain " + " ".join(zt(v) for v in vals))
                cdesc.append(srcc.replace("\n", " "))
    if exe:
        for d, mv, rv in zip(cdesc, run_driver(exe, clines), creal):
            if mv != rv:
                ctx.broke("C", "Chain.chain_marks vs infer_reachability_of_if_statement", f"{d}: model {mv} impl {rv}")
                break
        ctx.add("traces_validated_against_impl", len(clines))
    ctx.add("evaluations", len(clines))
    ctx.cov["if_chains"] = len(clines)
    ctx.cov["exhaustive_tables"] = "and/or/not table: all 5x5x2+5 cells through infer_condition_value"


def run(ctx: vlib.Ctx) -> None:
    ctx.cov["rule"] = ("(d) boundary+random int operands x all operators (non-trivial = the fold returns a value); depth-3 constant "
                       "expressions through constant_fold_expr (non-trivial = folded); (c) every index/slice form x operator x literal "
                       "x target version, both operand orders (non-trivial = mypy decides ALWAYS_TRUE/ALWAYS_FALSE)")
    ctx.assumptions += [
        "CPython 3.12.1 eval() is the oracle for run-time values; sys.version_info is modelled as (major, minor, micro, 'final', 0) for micro in {0,1,7}",
        "floats are not modelled: a folded int/int true division is compared as 'the float CPython computes for l / r'",
        "translator tools/py2gallina.py + tools/extractors/t12.py (checked by self-correspondence on every run)",
        "extraction: ExtrOcamlBasic only; OCaml driver tools/ocaml/c12_driver.ml + zio.ml (I/O only)",
    ]
    try:
        t12.generate()
    except (Unsupported, Exception) as e:  # noqa
        ctx.broke("T", "t12 translator", repr(e))
    ok = ctx.prove("C12/Properties.v", ["C12", "gen", "lib"])
    exe = vlib.build_extracted("c12", "C12/Extract.v", "tools/ocaml/c12_driver.ml")
    if exe is None:
        ctx.broke("C", "extraction", "extracted model does not build")
    fold_stage(ctx, exe)
    fold_float_str_stage(ctx, exe)
    version_stage(ctx, exe)
    try:
        from harness import C12ab
    except ImportError:
        C12ab = None  # type: ignore
    if C12ab is not None:
        C12ab.run(ctx)
    ctx.cov["distinct_nontrivial"] = ctx.cov.get("fold_int_folded", 0) + ctx.cov.get("fold_expr_folded", 0) + ctx.cov.get("version_tests_decided", 0) + ctx.cov.get("ab_nontrivial", 0)


def replay(ctx: vlib.Ctx, path: str) -> None:
    import json
    d = json.load(open(path))
    print(json.dumps(d, indent=1)[:3000])
    run(ctx)
