"""C05 child process: drives the REAL mypyc pipeline (imported from sys.argv-given repo) and dumps

  --vtables JOB.json : ClassIR mro / methods / vtable / vtable_entries / trait_vtables of one generated module
  --passes  JOB.json : every FuncIR right before and right after do_copy_propagation and do_flag_elimination,
                       as produced inside emitmodule.compile_scc_to_ir (pass functions wrapped in the emitmodule
                       namespace, so pass order and inputs are the code's own)

Run as  /venv/bin/python C05_irdump.py --vtables|--passes job.json   with PYTHONPATH=<repo>.  Never imported by
the parent for its mypy-dependent parts (the parent only uses parse_test_file / parse_pass_dump).
"""
from __future__ import annotations

import json
import os
import re
import shutil
import sys
import time
from typing import Any


def parse_test_file(path: str) -> list[tuple[str, str, list[tuple[str, str]]]]:
    """[(case name, main program text, [(file name, text)])] of a mypyc .test file."""
    cases = []
    name = None
    sect = ("skip", "")
    main: list[str] = []
    files: list[tuple[str, list[str]]] = []
    with open(path, encoding="utf-8") as f:
        lines = f.read().split("\n")

    def flush() -> None:
        if name is not None:
            cases.append((name, "\n".join(main), [(fn, "\n".join(tx)) for fn, tx in files]))

    for ln in lines:
        m = re.match(r"^\[case ([^\]]+)\]\s*$", ln)
        if m:
            flush()
            name, sect, main, files = m.group(1), ("main", ""), [], []
            continue
        if name is None:
            continue
        m = re.match(r"^\[([a-zA-Z0-9_]+)( [^\]]*)?\]\s*$", ln)
        if m and not ln.startswith("[["):
            if m.group(1) == "file":
                files.append((m.group(2).strip(), []))
                sect = ("file", "")
            else:
                sect = ("skip", "")
            continue
        if ln.startswith("--") and not ln.startswith("---"):
            continue
        if ln.startswith("\\["):
            ln = ln[1:]
        if sect[0] == "main":
            main.append(ln)
        elif sect[0] == "file":
            files[-1][1].append(ln)
    flush()
    return cases


# ------------------------------------------------------------------------------------------ front end

def front_end(work: str, repo: str, main: str, files, case: str, is_run: bool, pyver=None):
    """Type-check native.py (+ other*.py) exactly as mypyc's own tests do; returns (result, sources, copts, options)."""
    from mypy import build
    from mypy.options import Options
    from mypyc.codegen import emitmodule
    from mypyc.options import CompilerOptions
    from mypyc.test.testutil import infer_ir_build_options_from_test_name

    shutil.rmtree(work, ignore_errors=True)
    os.makedirs(work)
    os.chdir(work)
    fixtures = os.path.join(repo, "mypyc", "test-data", "fixtures")
    has_builtins = False
    for fn, text in files:
        rel = fn[4:] if fn.startswith("tmp/") else fn
        os.makedirs(os.path.dirname(os.path.join(work, rel)) or work, exist_ok=True)
        with open(os.path.join(work, rel), "w", encoding="utf-8") as f:
            f.write(text)
        if os.path.basename(rel) == "builtins.pyi":
            has_builtins = True
    if not has_builtins:
        shutil.copyfile(os.path.join(fixtures, "ir.py"), os.path.join(work, "builtins.pyi"))
    shutil.copyfile(os.path.join(fixtures, "testutil.py"), os.path.join(work, "testutil.py"))
    with open("native.py", "w", encoding="utf-8") as f:
        f.write(main)
    copts = infer_ir_build_options_from_test_name(case)
    if copts is None:
        return None
    options = Options()
    options.use_builtins_fixtures = True
    options.show_traceback = True
    options.strict_optional = True
    options.strict_bytes = True
    options.disable_bytearray_promotion = True
    options.disable_memoryview_promotion = True
    options.export_types = True
    options.preserve_asts = True
    options.allow_empty_bodies = True
    options.incremental = False
    options.cache_dir = os.devnull
    options.hide_error_codes = True
    if is_run:
        options.python_version = sys.version_info[:2]
        options.check_untyped_defs = True
        copts = CompilerOptions(strict_traceback_checks=True, experimental_features=copts.experimental_features)
    else:
        options.python_version = copts.python_version or (3, 10)
    options.per_module_options["unchecked.*"] = {"follow_imports": "error"}
    options.per_module_options["skipped"] = {"follow_imports": "skip"}
    options.per_module_options["skipped.*"] = {"follow_imports": "skip"}
    sources = [build.BuildSource("native.py", "native", None)]
    for fn, _ in files:
        rel = fn[4:] if fn.startswith("tmp/") else fn
        if os.path.basename(rel).startswith("other") and rel.endswith(".py") and is_run:
            sources.append(build.BuildSource(rel, rel.split(".")[0].replace(os.sep, "."), None))
    for s in sources:
        options.per_module_options.setdefault(s.module, {})["mypyc"] = True
    groups = [(sources, None)]
    result = emitmodule.parse_and_typecheck(sources=sources, options=options, compiler_options=copts,
                                            groups=groups, alt_lib_path=".")
    return result, sources, copts, options


def compile_to_ir(result, sources, copts, options):
    from mypyc.codegen import emitmodule
    from mypyc.errors import Errors
    from mypyc.irbuild.mapper import Mapper
    errors = Errors(options)
    mapper = Mapper({s.module: None for s in sources})
    result.manager.errors.set_file("<mypyc>", module=None, scope=None, options=result.manager.options)
    modules = emitmodule.compile_modules_to_ir(result, mapper, copts, errors)
    return modules, errors


# ------------------------------------------------------------------------------------------ vtables

def dump_vtables(job: dict) -> dict:
    from mypy.errors import CompileError
    from mypyc.ir.ops import Call
    from mypyc.sametype import is_same_method_signature
    out: dict[str, Any] = {"classes": [], "error": None, "error_lines": []}
    result = None
    try:
        fe = front_end(job["work"], job["repo"], job["text"], [], "gen", True)
        result, sources, copts, options = fe
        modules, errors = compile_to_ir(result, sources, copts, options)
        if errors.num_errors:
            out["error"] = "mypyc errors"
            out["error_lines"] = [int(m.group(1)) for e in errors.new_messages() for m in [re.match(r"[^:]+:(\d+):", e)] if m]
            out["messages"] = errors.new_messages()[:20]
            return out
    except CompileError as e:
        out["error"] = "compile error"
        out["error_lines"] = [int(m.group(1)) for x in e.messages for m in [re.match(r"[^:]+:(\d+):", x)] if m]
        out["messages"] = e.messages[:20]
        return out
    except Exception as e:  # an internal failure of the compiler on an accepted program
        import traceback
        out["error"] = f"crash {type(e).__name__}: {e}"
        out["traceback"] = traceback.format_exc()[-3000:]
        return out
    finally:
        if result is not None:
            result.manager.metastore.close()
    classes = [c for m in modules.values() for c in m.classes]
    owner: dict[int, tuple] = {}
    for c in classes:
        for n, f in c.methods.items():
            owner[id(f)] = ("impl", c.name, n)
    for c in classes:
        for (t, n), f in c.glue_methods.items():
            # monitored contract: the glue function of class c for (t, n) invokes c's own method n
            calls = [op for b in f.blocks for op in b.ops if isinstance(op, Call)]
            target_ok = n in c.methods and any(op.fn is c.methods[n].decl for op in calls)
            owner[id(f)] = ("glue", c.name, t.name, n, int(target_ok))

    def entry(e) -> list:
        return [e.cls.name, e.name, list(owner.get(id(e.method), ("unknown", repr(e.method)))),
                None if e.shadow_method is None else list(owner.get(id(e.shadow_method), ("unknown",)))]

    # signature classes per method name (is_same_method_signature made into ids; checked to be an equivalence)
    by_name: dict[str, list] = {}
    for c in classes:
        for n, f in c.methods.items():
            by_name.setdefault(n, []).append((c.name, f))
    sig_id: dict[tuple[str, str], int] = {}
    sig_bad = []
    for n, lst in by_name.items():
        reps: list = []
        for cname, f in lst:
            k = None
            for i, r in enumerate(reps):
                if is_same_method_signature(r.sig, f.sig):
                    k = i
                    break
            if k is None:
                reps.append(f)
                k = len(reps) - 1
            sig_id[(cname, n)] = k + 1
        for (c1, f1) in lst:
            for (c2, f2) in lst:
                if is_same_method_signature(f1.sig, f2.sig) != (sig_id[(c1, n)] == sig_id[(c2, n)]):
                    sig_bad.append([n, c1, c2])
    out["sig_not_equivalence"] = sig_bad[:5]
    for c in classes:
        out["classes"].append({
            "name": c.name, "is_trait": bool(c.is_trait), "base": c.base.name if c.base else None,
            "mro": [x.name for x in c.mro], "base_mro": [x.name for x in c.base_mro],
            "traits": [x.name for x in c.traits], "line": c.line if hasattr(c, "line") else 0,
            "methods": [[n, sig_id[(c.name, n)]] for n in c.methods],
            "vtable": dict(c.vtable or {}),
            "entries": [entry(e) for e in c.vtable_entries],
            "trait_vtables": [[t.name, [entry(e) for e in es]] for t, es in c.trait_vtables.items()],
            "glue": [[t.name, n] for (t, n) in c.glue_methods if t is not c],
            "subclasses": (None if c.subclasses() is None else sorted(x.name for x in c.subclasses())),
            "final": {n: bool(c.is_method_final(n)) for n in sorted(by_name)},
            "has_method": {n: bool(c.has_method(n)) for n in sorted(by_name)},
            "allow_interpreted_subclasses": bool(c.allow_interpreted_subclasses),
            "is_ext_class": bool(c.is_ext_class),
        })
    return out


# ------------------------------------------------------------------------------------------ pass pairs

class PassDumper:
    """Text dump of a FuncIR for the pass validators.

    F <name>
    A <arg ids...>
    X <ids of registers whose address is taken by a LoadAddress>
    B <label> <error-handler label or 0>
    a <dest> <src>                 Assign        (operand: vN | kN   N = value id / interned literal)
    o <dest> <sym> <src...>        any other non-control op (sym = interned description of everything but the sources)
    g <label>   |  c <sym> <neg> <src> <true> <false>  |  r <src>  |  u
    E
    """

    def __init__(self, out) -> None:
        self.out = out
        self.syms: dict[str, int] = {}
        self.n = 0

    def sym(self, s: str) -> int:
        if s not in self.syms:
            self.syms[s] = len(self.syms) + 1
        return self.syms[s]

    def begin_pair(self) -> None:
        # value ids / label ids are shared between the before- and after-dump of one function:
        # IRTransform keeps op objects (patched in place) and creates fresh BasicBlocks in order.
        self.ids: dict[int, int] = {}
        self.keep: list = []

    def vid(self, v) -> int:
        k = id(v)
        if k not in self.ids:
            self.ids[k] = len(self.ids) + 1
            self.keep.append(v)       # keep alive: id() must stay unique
        return self.ids[k]

    def dump(self, name: str, fn, block_labels=None) -> None:
        from mypyc.ir import ops as O
        from mypyc.ir.pprint import IRPrettyPrintVisitor
        LIT = (O.Integer, O.Float, O.CString, O.Undef)
        w = self.out.write

        class Names(dict):
            def __missing__(self, k):
                return "_"
        pp = IRPrettyPrintVisitor(Names())

        def operand(v) -> str:
            if isinstance(v, LIT):
                val = getattr(v, "value", None)
                return f"k{self.sym('LIT ' + type(v).__name__ + ' ' + repr(val) + ' ' + repr(v.type))}"
            return f"v{self.vid(v)}"

        def shape(x, depth=0) -> str:
            # everything about an op except WHICH values it reads (those are dumped as its sources)
            if isinstance(x, O.Value):
                return "%"
            if isinstance(x, O.BasicBlock):
                return "<block>"
            if isinstance(x, (list, tuple)) and depth < 4:
                return "[" + ",".join(shape(y, depth + 1) for y in x) + "]"
            if isinstance(x, dict) and depth < 4:
                return "{" + ",".join(f"{k!r}:{shape(v, depth + 1)}" for k, v in x.items()) + "}"
            return repr(x)

        def describe(op) -> str:
            try:
                attrs = vars(op)
                return type(op).__name__ + " " + " ".join(f"{k}={shape(v)}" for k, v in sorted(attrs.items()))
            except TypeError:
                return type(op).__name__ + " " + repr(op.type) + " " + op.accept(pp)

        w(f"F {re.sub(chr(92) + 's+', '_', name)}\n")
        w("A " + " ".join(str(self.vid(a)) for a in fn.arg_regs) + "\n")
        addr = []
        for b in fn.blocks:
            for op in b.ops:
                if isinstance(op, O.LoadAddress) and isinstance(op.src, O.Register):
                    addr.append(self.vid(op.src))
        w("X " + " ".join(map(str, sorted(set(addr)))) + "\n")
        # labels: position in the block list (IRTransform maps blocks one to one, in order)
        labels = block_labels if block_labels is not None else {id(b): i + 1 for i, b in enumerate(fn.blocks)}
        self.last_labels = labels

        def lab(b) -> int:
            return labels.get(id(b), 0)      # 0 = a block that is not in the function (dangling)
        for b in fn.blocks:
            w(f"B {lab(b)} {lab(b.error_handler) if b.error_handler is not None else 0}\n")
            for op in b.ops:
                if isinstance(op, O.Goto):
                    w(f"g {lab(op.label)}\n")
                elif isinstance(op, O.Branch):
                    s = self.sym(f"BR {op.op} {op.traceback_entry!r} {int(op.rare)} {op.line}")
                    w(f"c {s} {int(op.negated)} {operand(op.value)} {lab(op.true)} {lab(op.false)}\n")
                elif isinstance(op, O.Return):
                    w(f"r {operand(op.value)}\n")
                elif isinstance(op, O.Unreachable):
                    w("u\n")
                elif isinstance(op, O.Assign):
                    w(f"a {self.vid(op.dest)} {operand(op.src)}\n")
                else:
                    dest = op.dest if isinstance(op, O.AssignMulti) else op
                    w(f"o {self.vid(dest)} {self.sym(describe(op))} " + " ".join(operand(s) for s in op.sources()) + "\n")
        w("E\n")
        self.n += 1


def build_synth(spec: dict):
    """Hand-built FuncIR from a JSON spec (IR shapes the passes must handle although irbuild rarely emits them)."""
    from mypyc.ir import ops as O
    from mypyc.ir.func_ir import FuncDecl, FuncIR, FuncSignature, RuntimeArg
    from mypyc.ir.rtypes import bool_rprimitive, int64_rprimitive, pointer_rprimitive
    T = {"i64": int64_rprimitive, "bool": bool_rprimitive}
    env: dict = {}
    args = []
    for n, t in spec["args"]:
        env[n] = O.Register(T[t], n, is_arg=True)
        args.append(env[n])
    for n, t in spec["regs"]:
        env[n] = O.Register(T[t], n)
    blocks = [O.BasicBlock(i) for i in range(len(spec["blocks"]))]

    def val(x):
        if isinstance(x, str) and x.startswith("#"):
            return O.Integer(int(x[1:]), int64_rprimitive)
        return env[x]
    for b, ops in zip(blocks, spec["blocks"]):
        for op in ops:
            k = op[0]
            if k == "assign":
                b.ops.append(O.Assign(env[op[1]], val(op[2])))
            elif k == "intop":
                env[op[1]] = O.IntOp(int64_rprimitive, val(op[2]), val(op[3]), O.IntOp.ADD if len(op) < 5 else op[4])
                b.ops.append(env[op[1]])
            elif k == "cmp":
                env[op[1]] = O.ComparisonOp(val(op[2]), val(op[3]), O.ComparisonOp.SLT if len(op) < 5 else op[4])
                b.ops.append(env[op[1]])
            elif k == "addr":
                env[op[1]] = O.LoadAddress(pointer_rprimitive, env[op[2]])
                b.ops.append(env[op[1]])
            elif k == "loadmem":
                env[op[1]] = O.LoadMem(int64_rprimitive, val(op[2]))
                b.ops.append(env[op[1]])
            elif k == "goto":
                b.ops.append(O.Goto(blocks[op[1]]))
            elif k == "branch":
                br = O.Branch(val(op[1]), blocks[op[2]], blocks[op[3]], O.Branch.BOOL)
                br.negated = bool(op[4]) if len(op) > 4 else False
                b.ops.append(br)
            elif k == "return":
                b.ops.append(O.Return(val(op[1])))
            elif k == "unreachable":
                b.ops.append(O.Unreachable())
            else:
                raise ValueError(k)
    sig = FuncSignature([RuntimeArg(n, T[t]) for n, t in spec["args"]], int64_rprimitive)
    return FuncIR(FuncDecl(spec["name"], None, "synthetic", sig), args, blocks)


def dump_rich(d: "PassDumper", name: str, fn, labels: dict, xspec=None) -> None:
    """Dump for the check-inserting passes: like PassDumper.dump plus what the parent's normaliser needs
    (register names, which ops are LoadErrorValue(undefines) / bitmap arithmetic / UnboundLocalError raises,
    branch variants).  LoadAddress of a register is not a read of it (uninit.py exempts it)."""
    from mypyc.ir import ops as O
    w = d.out.write
    LIT = (O.Integer, O.Float, O.CString, O.Undef)

    def operand(v) -> str:
        if isinstance(v, LIT):
            return f"k{d.sym('LIT ' + type(v).__name__ + ' ' + repr(getattr(v, 'value', None)) + ' ' + repr(v.type))}"
        return f"v{d.vid(v)}"

    def shape(x, depth=0) -> str:
        if isinstance(x, O.Value):
            return "%"
        if isinstance(x, O.BasicBlock):
            return "<block>"
        if isinstance(x, (list, tuple)) and depth < 4:
            return "[" + ",".join(shape(y, depth + 1) for y in x) + "]"
        return repr(x)

    def describe(op) -> str:
        # error_kind is left out: exceptions.py refines it in place (adjust_error_kinds); the X lines carry it
        return type(op).__name__ + " " + " ".join(f"{k}={shape(v)}" for k, v in sorted(vars(op).items()) if k != "error_kind")
    w(f"F {re.sub(chr(92) + 's+', '_', name)}\n")
    w("A " + " ".join(str(d.vid(a)) for a in fn.arg_regs) + "\n")
    regs = []
    for b in fn.blocks:
        for op in b.ops:
            for v in list(op.sources()) + ([op.dest] if isinstance(op, (O.Assign, O.AssignMulti)) else []):
                if isinstance(v, O.Register) and v not in regs:
                    regs.append(v)
    for r in list(fn.arg_regs) + regs:
        w(f"N {d.vid(r)} {r.name or '-'} {int(bool(r.name))} {int(r.type.error_overlap)}\n")

    def lab(b) -> int:
        return labels.get(id(b), 0)
    for b in fn.blocks:
        w(f"B {lab(b)} {lab(b.error_handler) if b.error_handler is not None else 0}\n")
        for op in b.ops:
            if isinstance(op, O.Goto):
                w(f"g {lab(op.label)}\n")
            elif isinstance(op, O.Branch):
                sy = d.sym(f"BR {op.op} {op.traceback_entry!r} {int(op.rare)} {op.line}")
                w(f"c {sy} {int(op.negated)} {operand(op.value)} {lab(op.true)} {lab(op.false)} "
                  f"{'iserr' if op.op == O.Branch.IS_ERROR else 'bool'} {int(op.traceback_entry is not None)}\n")
            elif isinstance(op, O.Return):
                w(f"r {operand(op.value)}\n")
            elif isinstance(op, O.Unreachable):
                w("u\n")
            elif isinstance(op, O.Assign):
                w(f"a {d.vid(op.dest)} {operand(op.src)}\n")
            else:
                tag = "-"
                srcs = list(op.sources())
                if isinstance(op, O.LoadErrorValue) and op.undefines:
                    tag = "undef"
                elif isinstance(op, O.IntOp) and isinstance(op.rhs, O.Integer) and op.op in (O.IntOp.AND, O.IntOp.OR):
                    tag = ("and:" if op.op == O.IntOp.AND else "or:") + str(op.rhs.value)
                elif isinstance(op, O.ComparisonOp) and op.op == O.ComparisonOp.EQ and isinstance(op.rhs, O.Integer) and op.rhs.value == 0:
                    tag = "eqz"
                elif isinstance(op, O.RaiseStandardError) and op.class_name == O.RaiseStandardError.UNBOUND_LOCAL_ERROR:
                    tag = "raise_unbound"
                elif isinstance(op, O.LoadAddress):
                    if isinstance(op.src, O.Register):
                        tag = f"loadaddr:{d.vid(op.src)}"      # the register is written through the pointer: outside the model
                    srcs = []
                dest = op.dest if isinstance(op, O.AssignMulti) else op
                w(f"O {d.vid(dest)} {d.sym(describe(op))} {tag} " + " ".join(operand(x) for x in srcs) + "\n")
                if xspec is not None:
                    xs = xspec(op, describe, operand)
                    if xs:
                        w("Y " + xs + "\n")
    if xspec is not None:
        w("D " + xspec(None, describe, operand) + "\n")
    w("E\n")
    d.n += 1


def exception_spec(d: "PassDumper", fn):
    """What insert_exception_handling must do for an op, derived from the op alone (error kind table of mypyc/ir/ops.py):
    the symbol of the branch to insert and, for overlapping error values, the symbols of the comparison ops and of the
    PyErr_Occurred call.  Written against the IR classes, not against exceptions.py."""
    from mypyc.ir import ops as O
    from mypyc.ir.rtypes import RTuple, bool_rprimitive, is_float_rprimitive
    from mypyc.primitives.exc_ops import err_occurred_op
    func_name = fn.traceback_name

    def bsym(variant: int, op, rare: bool = False, with_tb: bool = True) -> int:
        tb = None
        line = -1
        if with_tb:
            line = op.line
            if op.line != O.NO_TRACEBACK_LINE_NO and func_name is not None:
                tb = (func_name, op.line)
        return d.sym(f"BR {variant} {tb!r} {int(rare)} {line}")

    def spec(op, describe, operand):
        if op is None:      # the default handler: e = <error value of the return type>; return e
            return str(d.sym(describe(O.LoadErrorValue(fn.ret_type))))
        if not isinstance(op, O.RegisterOp):
            return None
        ek = op.error_kind
        if isinstance(op, (O.GetAttr, O.SetAttr)) and op.class_type.class_ir.is_always_defined(op.attr):
            ek = O.ERR_NEVER
        if ek == O.ERR_NEVER:
            return None
        if ek == O.ERR_MAGIC:
            return f"m {bsym(O.Branch.IS_ERROR, op)}"
        if ek == O.ERR_FALSE:
            return f"f {bsym(O.Branch.BOOL, op)}"
        if ek == O.ERR_ALWAYS:
            return f"a {bsym(O.Branch.BOOL, op)} {operand(O.Integer(0, bool_rprimitive))}"
        if ek == O.ERR_MAGIC_OVERLAPPING:
            probes = []
            typ = op.type
            cur = op
            while isinstance(typ, RTuple):
                cur = O.TupleGet(cur, 0)
                probes.append(f"{d.sym(describe(cur))} 1")
                typ = cur.type
            err = O.Float(float(typ.c_undefined)) if is_float_rprimitive(typ) else O.Integer(int(typ.c_undefined), rtype=typ)
            cmp_ = O.ComparisonOp(cur, err, O.ComparisonOp.EQ)
            probes.append(f"{d.sym(describe(cmp_))} 2 {operand(err)}")
            call = O.CallC(err_occurred_op.c_function_name, [], err_occurred_op.return_type, err_occurred_op.steals,
                           err_occurred_op.is_borrowed, err_occurred_op.error_kind, op.line,
                           dependencies=err_occurred_op.dependencies)
            return (f"v {len(probes)} " + " ".join(probes) + f" {bsym(O.Branch.BOOL, op, rare=True, with_tb=False)} "
                    f"{d.sym(describe(call))} {bsym(O.Branch.IS_ERROR, op)}")
        return f"? {ek}"
    return spec


def dump_passes(job: dict) -> None:
    from mypy.errors import CompileError
    from mypyc.codegen import emitmodule
    from mypyc.ir.pprint import format_func
    from mypyc.transform import ir_transform
    repo = job["repo"]
    out = open(job["out"], "w")
    txt = open(job["out"] + ".txt", "w") if job.get("pretty") else None
    d = PassDumper(out)
    status = []
    real_cp = emitmodule.do_copy_propagation
    real_fe = emitmodule.do_flag_elimination
    cur = {"tag": ""}

    def fname(fn) -> str:
        return f"{cur['tag']}::{fn.decl.module_name}.{fn.decl.class_name + '.' if fn.decl.class_name else ''}{fn.name}"

    def wrap(kind: str, real):
        def wrapped(fn, options) -> None:
            d.begin_pair()
            out.write(f"P {kind}\n")
            d.dump(fname(fn), fn)
            if txt:
                txt.write(f"### {kind} before {fname(fn)}\n" + "\n".join(format_func(fn)) + "\n")
            old_blocks = list(fn.blocks)
            maps: list = []
            pv_init = ir_transform.PatchVisitor.__init__

            def spy(self, op_map, block_map, *a, **k):   # observe IRTransform's old->new block map
                maps.append(block_map)
                pv_init(self, op_map, block_map, *a, **k)
            ir_transform.PatchVisitor.__init__ = spy
            try:
                real(fn, options)             # the real pass on the real IR
            finally:
                ir_transform.PatchVisitor.__init__ = pv_init
            before_labels = d.last_labels
            new_labels = None
            if len(maps) == 1:
                # a new block keeps the label of the old block it was made from; others get fresh labels
                new_labels = {}
                for ob in old_blocks:
                    nb = maps[0].get(ob)
                    if nb is not None:
                        new_labels[id(nb)] = before_labels[id(ob)]
                k = len(old_blocks)
                for nb in fn.blocks:
                    if id(nb) not in new_labels:
                        k += 1
                        new_labels[id(nb)] = k
                d.keep.extend(old_blocks)
            d.dump(fname(fn), fn, new_labels)
            if txt:
                txt.write(f"### {kind} after {fname(fn)}\n" + "\n".join(format_func(fn)) + "\n")
        return wrapped
    real_un = emitmodule.insert_uninit_checks

    def wrapped_uninit(fn, strict) -> None:
        from mypyc.analysis.dataflow import cleanup_cfg
        if not job.get("uninit", True):
            return real_un(fn, strict)
        cleanup_cfg(fn.blocks)        # the pass's own first step (idempotent): BEFORE = what the splitting sees
        d.begin_pair()
        out.write("P uninit\n")
        labels = {id(b): i + 1 for i, b in enumerate(fn.blocks)}
        d.keep.extend(fn.blocks)
        dump_rich(d, fname(fn), fn, labels)
        real_un(fn, strict)
        k = len(labels)
        for b in fn.blocks:           # the pass keeps the original block objects as heads and adds new blocks
            if id(b) not in labels:
                k += 1
                labels[id(b)] = k
        d.keep.extend(fn.blocks)
        dump_rich(d, fname(fn), fn, labels)
    emitmodule.insert_uninit_checks = wrapped_uninit
    real_ex = emitmodule.insert_exception_handling

    def wrapped_exc(fn, strict) -> None:
        if not job.get("exceptions", True):
            return real_ex(fn, strict)
        d.begin_pair()
        out.write("P exc\n")
        labels = {id(b): i + 1 for i, b in enumerate(fn.blocks)}
        d.keep.extend(fn.blocks)
        dump_rich(d, fname(fn), fn, labels, exception_spec(d, fn))
        real_ex(fn, strict)
        k = len(labels)
        for b in fn.blocks:
            if id(b) not in labels:
                k += 1
                labels[id(b)] = k
        d.keep.extend(fn.blocks)
        dump_rich(d, fname(fn), fn, labels)
    emitmodule.insert_exception_handling = wrapped_exc
    emitmodule.do_copy_propagation = wrap("copyprop", real_cp)
    emitmodule.do_flag_elimination = wrap("flagelim", real_fe)
    cache: dict[str, Any] = {}
    for item in job["cases"]:
        t0 = time.time()
        n0 = d.n
        err = ""
        if item["kind"] == "synth":
            from mypyc.options import CompilerOptions
            cur["tag"] = item["name"]
            try:
                for spec in item["funcs"]:
                    fn = build_synth(spec)
                    emitmodule.do_copy_propagation(fn, CompilerOptions())
                    emitmodule.do_flag_elimination(fn, CompilerOptions())
            except Exception as e:  # noqa
                import traceback
                err = f"exception {type(e).__name__}: {e} {traceback.format_exc()[-800:]}"
            status.append({"item": item["name"], "file": "", "err": err, "pairs": (d.n - n0) // 2, "s": round(time.time() - t0, 2)})
            continue
        if item["kind"] == "test":
            tf = item["file"]
            if tf not in cache:
                cache[tf] = {c[0]: c for c in parse_test_file(tf)}
            name, main, files = cache[tf][item["case"]]
            is_run = os.path.basename(tf).startswith("run-")
            cur["tag"] = f"{os.path.basename(tf)}::{name}"
        else:
            name, main, files, is_run = "gen", item["text"], [], True
            cur["tag"] = item["name"]
        result = None
        try:
            fe = front_end(job["work"], repo, main, files, name, is_run)
            if fe is None:
                err = "skipped"
            else:
                result, sources, copts, options = fe
                modules, errors = compile_to_ir(result, sources, copts, options)
                if errors.num_errors:
                    err = "mypyc errors"
        except CompileError as e:
            err = "compile error: " + " | ".join(e.messages[:2])
        except Exception as e:  # noqa
            err = f"exception {type(e).__name__}: {e}"
        except SystemExit as e:  # mypy's report_internal_error
            err = f"exception SystemExit: {e}"
        finally:
            if result is not None:
                result.manager.metastore.close()
        status.append({"item": item.get("case") or item.get("name"), "file": item.get("file", ""), "err": err,
                       "pairs": (d.n - n0) // 2, "s": round(time.time() - t0, 2)})
    out.close()
    if txt:
        txt.close()
    json.dump(status, open(job["out"] + ".status", "w"))


if __name__ == "__main__":
    mode, jobfile = sys.argv[1], sys.argv[2]
    job = json.load(open(jobfile))
    sys.path.insert(0, job["repo"])
    if mode == "--vtables":
        res = dump_vtables(job)
        json.dump(res, open(job["out"], "w"))
    elif mode == "--passes":
        dump_passes(job)
    else:
        sys.exit(2)
