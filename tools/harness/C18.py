"""C18 — files and module names map to each other consistently.

P+A  coq/C18/Properties.v (crawl/find inverse, duplicate detection, dir-vs-files, refutation witnesses)
C    extracted Coq model (build/c18/run) vs the real mypy.find_sources.create_source_list,
     mypy.modulefinder.compute_search_paths / FindModuleCache.find_module / find_modules_recursive on
     exhaustively enumerated small directory trees + a seeded sample of deeper ones, x namespace_packages
     x explicit_package_bases x cwd (above / top of / inside / outside the tree) x mypy_path.
S    the property itself on real mypy:
     S1 (API)  for the sources of `FILES...` and of `DIR`: unless two sources share a module name, the module
               assigned to each file is found (on the search paths mypy derives) at that file or its sibling stub;
     S2 (CLI)  in-process mypy.api.run: `mypy DIR` vs `mypy FILES...` (two orders) vs `mypy -p PKG` report the
               same diagnostics unless a run stops with "Duplicate module named".
"""
from __future__ import annotations

import itertools
import json
import os
import shutil
import subprocess
import sys
import tempfile
from typing import Any

import vlib

sys.path.insert(0, vlib.REPO)

TOP = "w"        # the directory handed to mypy
OUT = "z"        # an empty directory outside the tree (a possible cwd)
Tree = dict      # name -> None (file) | Tree (directory)

# ------------------------------------------------------------------------------------------- trees


def tree_str(t: Tree) -> str:
    out = []
    for k, v in t.items():
        if v is None:
            out.append(k)
        else:
            out.append(k + "/{ " + tree_str(v) + " }")
    return " ".join(out)


def materialise(t: Tree, root: str, content: Any = None) -> None:
    for k, v in t.items():
        p = os.path.join(root, k)
        if v is None:
            with open(p, "w") as f:
                if content is not None:
                    f.write(content(p))
        else:
            os.mkdir(p)
            materialise(v, p, content)


def n_files(t: Tree) -> int:
    return sum(1 if v is None else n_files(v) for v in t.values())


def py_files(t: Tree, prefix: str) -> list[str]:
    out = []
    for k, v in t.items():
        p = prefix + "/" + k
        if v is None:
            if k.endswith((".py", ".pyi")):
                out.append(p)
        else:
            out += py_files(v, p)
    return out


def subdirs(t: Tree, prefix: str) -> list[str]:
    out = []
    for k, v in t.items():
        if v is not None:
            out.append(prefix + "/" + k)
            out += subdirs(v, prefix + "/" + k)
    return out


def enum_trees(depth: int, max_files: int, fnames: list[str], dnames: list[str], allow_empty_dirs: bool) -> list[Tree]:
    """All trees of at most `depth` nested directory levels below this one with at most max_files files."""
    res: list[Tree] = []
    file_sets = [c for r in range(0, min(len(fnames), max_files) + 1) for c in itertools.combinations(fnames, r)]
    for fs in file_sets:
        left = max_files - len(fs)
        base = {f: None for f in fs}
        if depth == 0:
            res.append(base)
            continue
        # choose for each directory name: absent, or a subtree
        def rec(i: int, cur: Tree, left: int) -> None:
            if i == len(dnames):
                res.append(dict(cur))
                return
            rec(i + 1, cur, left)
            for sub in enum_trees(depth - 1, left, fnames, dnames, allow_empty_dirs):
                k = n_files(sub)
                if k == 0 and not allow_empty_dirs:
                    continue
                cur2 = dict(cur)
                cur2[dnames[i]] = sub
                rec(i + 1, cur2, left - k)
        rec(0, base, left)
    return res


def random_tree(rng: vlib.Rng, depth: int, budget: list[int], exotic: bool) -> Tree:
    t: Tree = {}
    stems = ["a", "b", "c"]
    pool = ["__init__.py", "__init__.pyi"] + [s + e for s in stems for e in (".py", ".pyi")]
    if exotic:
        pool += ["a-x.py", "b-stubs.py", "a", "c-x"]
    for f in pool:
        if budget[0] > 0 and rng.random() < (0.45 if f.startswith("__init__") else 0.22):
            t[f] = None
            budget[0] -= 1
    if depth > 0:
        dn = list(stems) + (["a-stubs", "b-x"] if exotic else [])
        for d in dn:
            if d in t:
                continue
            if rng.random() < 0.4:
                sub = random_tree(rng, depth - 1, budget, exotic)
                if sub or rng.random() < 0.3:
                    t[d] = sub
    return t


# ------------------------------------------------------------------------------------------- queries

def configs(t: Tree, idx: int, quick: bool) -> list[tuple[int, int, str, list[str]]]:
    """(ns, explicit, cwd, mypy_path) combinations for one tree (paths relative to the world root)."""
    inner = [d for d in subdirs(t, TOP)][:1]
    out = []
    for ns in (0, 1):
        for ex in (0, 1):
            var = [(TOP, []), (OUT, [TOP])] + ([(inner[0], []), (".", [inner[0]])] if inner else [])
            if quick:
                # every tree sees cwd above and outside the tree; the other placements rotate over the trees
                var = [var[(idx + 2 * ns + ex) % len(var)]]
            for cwd, mp in [(".", []), (OUT, [])] + var:
                out.append((ns, ex, cwd, mp))
    return out


def qline(ts: str, cfg: tuple[int, int, str, list[str]], cmd: str) -> str:
    ns, ex, cwd, mp = cfg
    return f"{ts} | {ns} {ex} | {cwd} | {' '.join(mp)} | {cmd}"


def run_driver(exe: str, lines: list[str]) -> list[str]:
    # split across processes for volume
    n = max(1, min(vlib.NPROC, len(lines) // 2000 + 1))
    chunks = [lines[i::n] for i in range(n)]
    procs = [subprocess.Popen([exe], stdin=subprocess.PIPE, stdout=subprocess.PIPE, text=True) for _ in chunks]
    import threading
    outs: list[list[str]] = [[] for _ in chunks]

    def feed(i: int) -> None:
        o, _ = procs[i].communicate("\n".join(chunks[i]) + "\n")
        outs[i] = o.splitlines()
    th = [threading.Thread(target=feed, args=(i,)) for i in range(n)]
    for x in th:
        x.start()
    for x in th:
        x.join()
    res = [""] * len(lines)
    for i in range(n):
        if len(outs[i]) != len(chunks[i]):
            raise RuntimeError(f"driver returned {len(outs[i])} lines for {len(chunks[i])} inputs")
        res[i::n] = outs[i]
    return res


# ------------------------------------------------------------------------------------------- implementation side
_STD = None


def _rel(p: str, root: str) -> str:
    r = os.path.relpath(os.path.abspath(p), root)
    return r


def _srcs_str(srcs: list[Any], root: str) -> str:
    if not srcs:
        return "EMPTY"
    out = []
    for s in srcs:
        m = "<>" if s.module == "__main__" else s.module
        out.append(f"{_rel(s.path, root)}={m}@{_rel(s.base_dir, root) if s.base_dir is not None else '-'}")
    return ";".join(out)


def impl_tree(job: tuple[str, Tree, list[tuple[tuple[int, int, str, list[str]], list[str]]]]) -> list[list[str]]:
    """Answer the queries of every configuration of one tree with the real mypy code (tree materialised once)."""
    global _STD
    workdir, world, cfg_cmds = job
    from mypy.find_sources import InvalidSourceList, create_source_list
    from mypy.fscache import FileSystemCache
    from mypy.modulefinder import FindModuleCache, ModuleNotFoundReason, SearchPaths, compute_search_paths, load_stdlib_py_versions
    from mypy.options import Options
    if _STD is None:
        _STD = load_stdlib_py_versions(None)
    root = os.path.realpath(tempfile.mkdtemp(prefix="c", dir=workdir))
    old = os.getcwd()
    res: list[list[str]] = []
    try:
        materialise(world, root)
        os.environ.pop("MYPYPATH", None)
        ab = lambda p: os.path.normpath(os.path.join(root, p))  # noqa: E731
        for cfg, cmds in cfg_cmds:
            ns, ex, cwd, mp = cfg
            os.chdir(os.path.join(root, cwd))
            o = Options()
            o.namespace_packages = bool(ns)
            o.explicit_package_bases = bool(ex)
            o.mypy_path = [os.path.join(root, p) for p in mp]
            o.python_executable = None
            o.incremental = False
            fmcs: dict[str, Any] = {}

            def finder(sp: list[str]) -> Any:
                k = " ".join(sp)
                if k not in fmcs:
                    fmcs[k] = FindModuleCache(SearchPaths(tuple(ab(p) for p in sp), (), (), ()), FileSystemCache(), o, stdlib_py_versions=_STD)
                return fmcs[k]
            ans = []
            for cmd in cmds:
                w = cmd.split()
                try:
                    if w[0] == "csl":
                        # paths are given relative to cwd, as on a command line
                        args = [os.path.relpath(ab(p), os.getcwd()) for p in w[1:]]
                        ans.append(_srcs_str(create_source_list(args, o, FileSystemCache()), root))
                    elif w[0] == "sp":
                        args = [os.path.relpath(ab(p), os.getcwd()) for p in w[1:]]
                        srcs = create_source_list(args, o, FileSystemCache())
                        sp = compute_search_paths(srcs, o, os.path.join(vlib.REPO, "mypy"))
                        ans.append(" ".join(_rel(p, root) for p in sp.mypy_path + sp.python_path))
                    elif w[0] == "find":
                        r = finder(w[2:]).find_module(w[1])
                        ans.append("NOTFOUND" if isinstance(r, ModuleNotFoundReason) else _rel(r, root))
                    elif w[0] == "fmr":
                        ans.append(_srcs_str(finder(w[2:]).find_modules_recursive(w[1]), root))
                    else:
                        ans.append("!BADCMD")
                except InvalidSourceList:
                    ans.append("ERR:InvalidSourceList")
            res.append(ans)
        return res
    finally:
        os.chdir(old)
        shutil.rmtree(root, ignore_errors=True)


# ------------------------------------------------------------------------------------------- S2: real command lines
MINI_TYPESHED = {
    "builtins.pyi": "class object:\n    def __init__(self) -> None: ...\nclass type:\n    def __init__(self, x: object) -> None: ...\n"
                    "class int: ...\nclass bool(int): ...\nclass float: ...\nclass str: ...\nclass bytes: ...\nclass function: ...\n"
                    "class ellipsis: ...\nclass tuple: ...\nclass dict: ...\nclass list: ...\n",
    "typing.pyi": "Any = object()\nTypeVar = 0\nGeneric = 0\nProtocol = 0\nTuple = 0\nCallable = 0\nType = 0\nOptional = 0\nUnion = 0\n"
                  "Final = 0\nLiteral = 0\nClassVar = 0\nNamedTuple = 0\nTYPE_CHECKING = 0\noverload = 0\ncast = 0\nclass Sequence: ...\nclass Mapping: ...\n"
                  "class Iterable: ...\nclass Iterator: ...\nclass Awaitable: ...\nclass Coroutine: ...\nclass Generator: ...\nclass _SpecialForm: ...\n",
    "typing_extensions.pyi": "from typing import Final as Final, Literal as Literal\n",
    "types.pyi": "class ModuleType:\n    __file__: str\nclass NoneType: ...\nclass GenericAlias: ...\nclass UnionType: ...\n",
    "_typeshed.pyi": "",
    "abc.pyi": "class ABCMeta(type): ...\n",
    "sys.pyi": "platform: str\nversion_info: tuple\n",
    "collections/__init__.pyi": "",
    "collections/abc.pyi": "",
    "_collections_abc.pyi": "",
    "mypy_extensions.pyi": "",
}


def make_typeshed(d: str) -> str:
    std = os.path.join(d, "stdlib")
    os.makedirs(os.path.join(std, "collections"))
    os.makedirs(os.path.join(d, "stubs", "mypy-extensions"))
    os.makedirs(os.path.join(d, "stubs", "librt"))
    mods = []
    for k, v in MINI_TYPESHED.items():
        with open(os.path.join(std, k), "w") as f:
            f.write(v)
        mods.append(k.split("/")[0].replace(".pyi", ""))
    with open(os.path.join(std, "VERSIONS"), "w") as f:
        f.write("".join(f"{m}: 3.0-\n" for m in sorted(set(mods))))
    return d


def canon_out(out: str, err: str, root: str, cwd: str) -> tuple[list[str], str]:
    """Diagnostics with paths made relative to the world root; returns (sorted lines, kind)."""
    lines = []
    kind = "ok"
    for ln in (out + err).splitlines():
        if "Duplicate module named" in ln:
            kind = "duplicate"
        if "Source file found twice" in ln:
            kind = "found-twice"
        if ln.startswith(("Found ", "Success:")):
            continue
        head, sep, rest = ln.partition(": ")
        m = head.rsplit(":", 1)
        path = m[0] if len(m) == 2 and m[1].isdigit() else head
        if sep and (path.endswith((".py", ".pyi")) or os.path.exists(os.path.join(cwd, path))):
            rp = os.path.relpath(os.path.normpath(os.path.join(cwd, path)), root)
            ln = rp + head[len(path):] + sep + rest
        lines.append(ln)
    return sorted(lines), kind


def cli_case(job: tuple[str, str, Tree, int, int, str]) -> dict[str, Any]:
    """Run mypy DIR / FILES (2 orders) / -p PKG on one layout; cwd is relative to the world root."""
    workdir, typeshed, world, ns, ex, cwd = job
    from mypy import api
    root = os.path.realpath(tempfile.mkdtemp(prefix="s", dir=workdir))
    old = os.getcwd()
    try:
        materialise(world, root, lambda p: 'x: int = ""\n')
        cw = os.path.join(root, cwd)
        os.chdir(cw)
        os.environ.pop("MYPYPATH", None)
        base = ["--no-incremental", "--cache-dir=" + os.devnull, "--custom-typeshed-dir=" + typeshed, "--config-file=",
                "--no-site-packages", "--no-error-summary", "--hide-error-context", "--no-color-output",
                "--namespace-packages" if ns else "--no-namespace-packages"] + (["--explicit-package-bases"] if ex else [])
        files = sorted(py_files(world[TOP], TOP))
        rel = lambda p: os.path.relpath(os.path.join(root, p), cw)  # noqa: E731
        runs = {"DIR": [rel(TOP)], "FILES": [rel(f) for f in files], "FILES-rev": [rel(f) for f in reversed(files)]}
        if cwd == ".":
            runs["PKG"] = ["-p", TOP]
        res: dict[str, Any] = {}
        for k, args in runs.items():
            if not args:
                continue
            out, err, st = api.run(base + args)
            lines, kind = canon_out(out, err, root, cw)
            res[k] = {"status": st, "lines": lines, "kind": kind}
        return res
    finally:
        os.chdir(old)
        shutil.rmtree(root, ignore_errors=True)


# ------------------------------------------------------------------------------------------- helpers on answers

def parse_srcs(s: str) -> list[tuple[str, str, str]] | None:
    if s.startswith("ERR") or s.startswith("!"):
        return None
    if s == "EMPTY":
        return []
    out = []
    for item in s.split(";"):
        p, _, rest = item.partition("=")
        m, _, b = rest.partition("@")
        out.append((p, m, b))
    return out


def sibling_stub(p: str) -> str:
    return p[:-3] + ".pyi" if p.endswith(".py") else p


def shadowing_dir(world: Tree, p: str) -> bool:
    """Is there a directory beside file p whose name is p's stem?"""
    parts = p.split("/")
    t: Any = world
    for c in parts[:-1]:
        t = t[c]
    stem = parts[-1].rsplit(".", 1)[0]
    return isinstance(t.get(stem), dict)


def has_shadow(t: Tree) -> bool:
    """Some directory n sits beside a module file n.py / n.pyi (the negation of Model.no_shadow)."""
    for k, v in t.items():
        if v is not None:
            if (k + ".py") in t and t[k + ".py"] is None or (k + ".pyi") in t and t[k + ".pyi"] is None:
                return True
            if has_shadow(v):
                return True
    return False


def entry_of(g: str, m: str) -> str:
    """The search path entry through which module m was found at path g."""
    parts = g.split("/")
    k = len(m.split("."))
    if parts[-1] in ("__init__.py", "__init__.pyi"):
        k += 1
    return "/".join(parts[:-k]) or "."


# ------------------------------------------------------------------------------------------- the check

def make_worlds(ctx: vlib.Ctx) -> tuple[list[Tree], dict[str, int]]:
    rng = vlib.Rng(ctx.seed, "trees")
    fn = ["__init__.py", "__init__.pyi", "a.py", "a.pyi", "b.py"]
    ex3 = [t for t in enum_trees(2, 3, fn, ["a", "b"], False) if n_files(t) > 0]
    if ctx.quick:
        # every tree with <= 2 files, a seeded sample of the 3-file ones
        keep = [t for t in ex3 if n_files(t) <= 2]
        rest = [t for t in ex3 if n_files(t) > 2]
        exhaustive = keep + rng.sample(rest, max(0, 1500 - len(keep)))
        complete_upto = 2
    else:
        # every tree with <= 3 files, a seeded sample of the 4-file ones
        ex4 = [t for t in enum_trees(2, 4, fn, ["a", "b"], False) if n_files(t) == 4]
        exhaustive = ex3 + rng.sample(ex4, min(len(ex4), 1000))
        complete_upto = 3
    sample = []
    seen = set()
    for i in range(ctx.n(700, 2000)):
        t = random_tree(rng, 3, [8], exotic=(i % 4 == 0))
        s = tree_str(t)
        if n_files(t) and s not in seen:
            seen.add(s)
            sample.append(t)
    stats = {"exhaustive_trees": len(exhaustive), "exhaustive_complete_up_to_files": complete_upto, "sampled_trees": len(sample)}
    return [{TOP: t, OUT: {}} for t in exhaustive + sample], stats


FIXED_IDS = ["w", "a", "b", "w.a", "a.b", "w.a.b", "a.a", "w.b", "w.a.a"]


def run(ctx: vlib.Ctx) -> None:
    from concurrent.futures import ProcessPoolExecutor
    ctx.cov["rule"] = ("directory trees: exhaustive (depth<=2 below the top directory, <=3 files [thorough 4], names a,b,__init__, .py/.pyi) "
                       "+ seeded random (depth 3, <=8 files, names a,b,c, some non-identifier / -stubs names) x namespace_packages x "
                       "explicit_package_bases x cwd in {above, top, inside, outside} x mypy_path; non-trivial = the crawl climbs through at "
                       "least one package level or find_module has to choose between candidates (module name with a dot, a stub sibling, "
                       "a shadowing directory or a duplicate)")
    ctx.assumptions += [
        "hand model coq/C18/Model.v tied to mypy by correspondence on the enumerated trees only (no translator)",
        "names are concretised as single lower-case letters, '<l>-stubs', '<l>-x', '__init__'; orders in the model are Python's string orders on these names",
        "file system: case-sensitive, no symlinks, no hidden / __pycache__ / site-packages / node_modules entries, no --exclude, no --package-root, "
        "no py.typed / installed packages / typeshed (user paths only); directories above the materialised tree hold no __init__ file",
        "extraction: ExtrOcamlBasic; OCaml driver tools/ocaml/c18_driver.ml (I/O only)",
        "S2 runs mypy in-process (mypy.api.run) with a minimal custom typeshed written by the harness, incremental mode off",
    ]
    ctx.prove("C18/Properties.v", ["C18", "lib"])
    exe = vlib.build_extracted("c18", "C18/Extract.v", "tools/ocaml/c18_driver.ml")
    if exe is None:
        ctx.broke("C", "extraction", "extracted model does not build")
        return
    worlds, stats = make_worlds(ctx)
    ctx.cov.update(stats)
    workdir = tempfile.mkdtemp(prefix="verif-c18-", dir="/dev/shm" if os.access("/dev/shm", os.W_OK) else None)
    try:
        correspondence(ctx, exe, worlds, workdir)
        cli_stage(ctx, exe, worlds, workdir)
        spelling_stage(ctx, exe, worlds, workdir)
    finally:
        shutil.rmtree(workdir, ignore_errors=True)


def correspondence(ctx: vlib.Ctx, exe: str, worlds: list[Tree], workdir: str) -> None:
    from concurrent.futures import ProcessPoolExecutor
    cases: list[tuple[Tree, str, tuple[int, int, str, list[str]]]] = []
    for wd in worlds:
        ts = tree_str(wd)
        for cfg in configs(wd[TOP], len(cases), ctx.quick):
            cases.append((wd, ts, cfg))
    ctx.log(f"C: {len(worlds)} trees, {len(cases)} (tree, options, cwd, mypy_path) cases")
    # phase 1 (model): sources of DIR and of FILES, search paths
    cmds1: list[list[str]] = []
    for wd, ts, cfg in cases:
        files = sorted(py_files(wd[TOP], TOP))
        c = [f"csl {TOP}", "csl " + " ".join(files), "csl " + " ".join(reversed(files)), f"sp {TOP}", "sp " + " ".join(files)]
        cmds1.append(c)
    flat = [qline(ts, cfg, c) for (wd, ts, cfg), cs in zip(cases, cmds1) for c in cs]
    m1 = run_driver(exe, flat)
    # phase 2: find_module on the derived search paths for every assigned module, its prefixes and fixed ids;
    # find_modules_recursive as `-p` does it (search path = mypy_path + cwd)
    cmds: list[list[str]] = []
    k = 0
    for (wd, ts, cfg), cs in zip(cases, cmds1):
        a = m1[k:k + len(cs)]
        k += len(cs)
        extra: list[str] = []
        for src_ans, sp_ans in ((a[0], a[3]), (a[1], a[4])):
            srcs = parse_srcs(src_ans)
            if srcs is None or sp_ans.startswith("ERR"):
                continue
            ids = set(FIXED_IDS)
            for _, m, _ in srcs:
                if m != "<>":
                    parts = m.split(".")
                    for i in range(1, len(parts) + 1):
                        ids.add(".".join(parts[:i]))
            for m in sorted(ids):
                extra.append(f"find {m} {sp_ans}")
        psp = " ".join(cfg[3] + [cfg[2]])
        for m in ("w", "a", "b"):
            extra.append(f"fmr {m} {psp}")
        cmds.append(cs + extra)
    flat2 = [qline(ts, cfg, c) for (wd, ts, cfg), cs in zip(cases, cmds) for c in cs]
    model = run_driver(exe, flat2)
    ctx.log(f"C: model answered {len(flat) + len(flat2)} queries")
    jobs: list[tuple[str, Tree, list[Any]]] = []
    for (wd, ts, cfg), cs in zip(cases, cmds):
        if jobs and jobs[-1][1] is wd:
            jobs[-1][2].append((cfg, cs))
        else:
            jobs.append((workdir, wd, [(cfg, cs)]))
    with ProcessPoolExecutor(max_workers=vlib.NPROC) as ex:
        impl = [a for r in ex.map(impl_tree, jobs, chunksize=8) for a in r]
    ctx.log("C: mypy answered the same queries")
    uniq_ts = sorted({ts for _, ts, _ in cases})
    valid = dict(zip(uniq_ts, [v == "1" for v in run_driver(exe, [qline(ts, (0, 0, ".", []), "valid") for ts in uniq_ts])]))
    noshadow = dict(zip(uniq_ts, [v == "1" for v in run_driver(exe, [qline(ts, (0, 0, ".", []), "noshadow") for ts in uniq_ts])]))
    k = 0
    bad = 0
    nontrivial = 0
    s1_cases = s1_checked = 0
    pkg_checked = 0
    pkg_bad: list[str] = []
    import collections
    api_only: dict[str, int] = collections.Counter()
    n_eval = 0
    dup_cases = 0
    for (wd, ts, cfg), cs, ia in zip(cases, cmds, impl):
        ma = model[k:k + len(cs)]
        k += len(cs)
        n_eval += len(cs)
        for c, m, i in zip(cs, ma, ia):
            if m != i:
                bad += 1
                if bad <= 5:
                    ctx.broke("C", "model vs mypy", f"tree [{ts}] ns={cfg[0]} explicit={cfg[1]} cwd={cfg[2]} mypy_path={cfg[3]} :: {c[:200]}\n  model: {m}\n  mypy:  {i}",
                              {"tree": ts, "cfg": cfg, "cmd": c, "model": m, "impl": i})
        # ---- Statement.dir_eq_package (not proved) evaluated on the model's own answers: a bounded test
        if cfg[2] == "." and not cfg[3] and valid[ts] and noshadow[ts]:
            d_m = parse_srcs(ma[0])
            p_m = parse_srcs(next((m for c, m in zip(cs, ma) if c.startswith(f"fmr {TOP} ")), "ERR"))
            if d_m and p_m is not None and all(b == "." for _, _, b in d_m):
                pkg_checked += 1
                if {(p, m) for p, m, _ in d_m} != {(p, m) for p, m, _ in p_m if p.endswith((".py", ".pyi"))} and len(pkg_bad) < 3:
                    pkg_bad.append(f"[{ts}] ns={cfg[0]} explicit={cfg[1]}: DIR {ma[0]} vs -p {p_m}")
        # ---- S1 on the implementation's own answers
        finds = {}
        for c, i in zip(cs, ia):
            if c.startswith("find "):
                w = c.split()
                finds[(w[1], " ".join(w[2:]))] = i
        if valid[ts]:
            s1_cases += 1
        all_files = parse_srcs(ia[1]) or []
        owner = {p: m for p, m, _ in all_files}
        for mode, src_ans, sp_ans in (("DIR", ia[0], ia[3]), ("FILES", ia[1], ia[4])):
            srcs = parse_srcs(src_ans)
            if not srcs or sp_ans.startswith("ERR"):
                continue
            mods = [m for _, m, _ in srcs]
            dup = len(set(mods)) < len(mods)
            if any("." in m for m in mods) or dup or any(p.endswith(".py") and sibling_stub(p) in owner for p, _, _ in srcs):
                nontrivial += 1
            if dup:
                dup_cases += 1
                continue          # mypy stops with "Duplicate module named" (checked on real command lines in S2)
            if not valid[ts]:
                continue          # names outside the property's scope ("-stubs" / non-identifier names): correspondence only
            given = {p for p, _, _ in srcs}
            for p, m, b in srcs:
                if m == "<>":
                    continue
                g = finds.get((m, sp_ans))
                if g is None or g in (p, sibling_stub(p)):
                    s1_checked += 1
                    continue
                # API-level inconsistencies that cannot show on a command line naming the file (load_graph looks a
                # module up among the given sources before it searches): counted and sampled, not violations
                stem_path = p.rsplit(".", 1)[0]
                if shadowing_dir(wd, p) and g == stem_path:
                    api_only["namespace directory shadows the module file beside it"] += 1
                    ctx.cov.setdefault("s1_api_only_samples", {}).setdefault("namespace-directory", f"[{ts}] ns={cfg[0]} explicit={cfg[1]} cwd={cfg[2]}: {p} -> {m} -> {g}")
                    continue
                if g in (stem_path + "/__init__.py", stem_path + "/__init__.pyi") and cfg[1] and stem_path in cfg[3] + [cfg[2]]:
                    api_only["package directory that is itself an explicit package base shadows the module file beside it"] += 1
                    ctx.cov.setdefault("s1_api_only_samples", {}).setdefault("package-is-explicit-base", f"[{ts}] explicit=1 cwd={cfg[2]} mypy_path={cfg[3]}: {p} -> {m} -> {g}")
                    continue
                if g != "NOTFOUND" and entry_of(g, m) != b:
                    # found through an earlier search path entry (a mypy_path root or another base inside the tree):
                    # the theorem (and the property) speak about the file's own base
                    api_only["found through another search path entry than the file's base"] += 1
                    ctx.cov.setdefault("s1_api_only_samples", {}).setdefault("other-entry", f"[{ts}] ns={cfg[0]} explicit={cfg[1]} cwd={cfg[2]} mypy_path={cfg[3]}: {p} -> {m}@{b} -> {g}")
                    continue
                if mode == "DIR" and g not in given and owner.get(g) == m:
                    # a file mapping to the same module name exists but `mypy DIR` left it out (no duplicate error):
                    # the command-line consequence is checked and reported by S2
                    api_only["mypy DIR leaves out a file mapping to the same module name as a kept one"] += 1
                    continue
                key = f"C18:find-not-inverse:{ts}:{cfg}:{p}"
                ctx.violation(key, f"file {p} is given module name {m}, but with the search paths mypy derives ({sp_ans}) "
                                   f"find_module({m}) = {g} (neither the file nor its sibling stub), and no duplicate-module error is due; tree [{ts}] "
                                   f"namespace_packages={cfg[0]} explicit_package_bases={cfg[1]} cwd={cfg[2]} mypy_path={cfg[3]} sources={mode}",
                              {"kind": "S1", "tree": ts, "ns": cfg[0], "explicit": cfg[1], "cwd": cfg[2], "mypy_path": cfg[3], "file": p,
                               "module": m, "found": g, "mode": mode})
    ctx.cov["s1_api_only_inconsistencies"] = dict(api_only)
    # the statement Statement.crawl_find_inverse evaluated by the model on every enumerated valid tree (a bounded test)
    inv_q = [(ts, cfg, sorted(py_files(wd[TOP], TOP))) for wd, ts, cfg in cases if valid[ts]]
    inv_a = run_driver(exe, [qline(ts, cfg, "inv " + " ".join(fs)) for ts, cfg, fs in inv_q])
    for (ts, cfg, fs), a in zip(inv_q, inv_a):
        if "0" in a or a.startswith("!"):
            ctx.broke("C", "Statement.crawl_find_inverse fails in the model", f"tree [{ts}] cfg {cfg} files {fs}: {a}")
            break
    ctx.cov["model_inverse_statement_checked_files"] = sum(len(a) for a in inv_a)
    ctx.add("evaluations", n_eval)
    ctx.add("traces_validated_against_impl", n_eval)
    ctx.cov["correspondence_cases"] = len(cases)
    ctx.cov["correspondence_mismatches"] = bad
    ctx.cov["distinct_nontrivial"] = nontrivial
    ctx.cov["s1_duplicate_module_source_lists"] = dup_cases
    ctx.cov["s1_cases_with_valid_names"] = s1_cases
    ctx.cov["trees_satisfying_valid_names"] = sum(1 for v in valid.values() if v)
    ctx.cov["trees_satisfying_no_shadow"] = sum(1 for v in noshadow.values() if v)
    ctx.cov["trees_with_module_beside_same_named_directory"] = sum(1 for v in noshadow.values() if not v)
    ctx.cov["model_dir_eq_package_checked"] = pkg_checked
    ctx.cov["model_dir_eq_package_counterexamples"] = pkg_bad
    ctx.cov["trees_outside_valid_names"] = sum(1 for v in valid.values() if not v)
    ctx.cov["s1_files_checked"] = s1_checked
    mid = len(cases) // 2
    ctx.sample({"tree": cases[mid][1], "cfg": list(cases[mid][2]), "queries": cmds[mid][:3], "mypy": impl[mid][:3]})
    ctx.sample({"tree": cases[-1][1], "cfg": list(cases[-1][2]), "queries": cmds[-1][:2], "mypy": impl[-1][:2]})
    ctx.log(f"C: {n_eval} answers compared, {bad} mismatches; S1: {dup_cases} duplicate-module source lists skipped")


def cli_stage(ctx: vlib.Ctx, exe: str, worlds: list[Tree], workdir: str) -> None:
    from concurrent.futures import ProcessPoolExecutor
    rng = vlib.Rng(ctx.seed, "cli")
    typeshed = make_typeshed(os.path.join(workdir, "typeshed"))
    pool = [w for w in worlds if 1 <= n_files(w[TOP]) <= 6]
    # always include the layouts the theorems name as witnesses
    fixed: list[Tree] = [
        {TOP: {"a.py": None, "a": {"b.py": None}}, OUT: {}},
        {TOP: {"__init__.py": None, "a.py": None, "a": {"__init__.py": None}}, OUT: {}},
        {TOP: {"__init__.py": None, "a.py": None, "a.pyi": None, "b": {"__init__.pyi": None, "a.py": None}}, OUT: {}},
        {TOP: {"a": {"b.py": None}, "b": {"b.py": None}}, OUT: {}},
        {TOP: {"__init__.py": None, "a.py": None, "a": {"a": {"a.py": None}}}, OUT: {}},
    ]
    chosen = fixed + rng.sample(pool, min(len(pool), ctx.n(110, 500)))
    jobs = []
    for wd in chosen:
        for ns, ex, cwd in ((0, 0, "."), (1, 0, "."), (1, 1, "."), (1, 0, OUT)):
            jobs.append((workdir, typeshed, wd, ns, ex, cwd))
    with ProcessPoolExecutor(max_workers=vlib.NPROC) as exr:
        results = list(exr.map(cli_case, jobs, chunksize=4))
    n_runs = 0
    stops = 0
    compared = 0
    for (_, _, wd, ns, ex, cwd), res in zip(jobs, results):
        n_runs += len(res)
        ts = tree_str(wd)
        kinds = {k: v["kind"] for k, v in res.items()}
        for k, v in res.items():
            if v["status"] not in (0, 1, 2) or any("INTERNAL ERROR" in ln or "Traceback" in ln for ln in v["lines"]):
                ctx.violation(f"C18:crash:{ts}:{ns}{ex}:{cwd}:{k}", f"mypy {k} crashed on [{ts}]", {"kind": "S2", "tree": ts, "res": res})
        if "duplicate" in kinds.values() or "found-twice" in kinds.values():
            stops += 1
        # FILES in two orders
        if "FILES" in res and kinds["FILES"] == "ok" and kinds.get("FILES-rev") == "ok":
            if res["FILES"]["lines"] != res["FILES-rev"]["lines"]:
                ctx.violation(f"C18:order:{ts}:{ns}{ex}:{cwd}", f"mypy FILES in two orders differ on [{ts}]",
                              {"kind": "S2", "tree": ts, "ns": ns, "explicit": ex, "cwd": cwd, "res": res})
        # DIR vs FILES
        if "FILES" in res and kinds["FILES"] == "ok" and kinds["DIR"] == "ok":
            compared += 1
            a, b = res["DIR"]["lines"], res["FILES"]["lines"]
            if a != b:
                missing = [ln for ln in b if ln not in a]
                files = {ln.split(":")[0] for ln in missing}
                if not [ln for ln in a if ln not in b] and files and all(shadowing_dir(wd, f) for f in files):
                    key = "C18:dir-skips-module-beside-same-named-directory"
                else:
                    key = f"C18:dir-vs-files:{ts}:{ns}{ex}:{cwd}"
                ctx.violation(key, f"`mypy {TOP}` and `mypy <every .py[i] file under {TOP}>` report different diagnostics without any duplicate-module "
                                   f"error on tree [{ts}] (namespace_packages={ns} explicit_package_bases={ex} cwd={cwd}): only with FILES: {missing[:3]}",
                              {"kind": "S2", "tree": ts, "ns": ns, "explicit": ex, "cwd": cwd, "res": res})
        # DIR vs -p PKG, when the directory is the package rooted at cwd
        if "PKG" in res and kinds["DIR"] == "ok" and kinds["PKG"] == "ok":
            d = parse_srcs(run_driver(exe, [qline(ts, (ns, ex, cwd, []), f"csl {TOP}")])[0])
            if d and all((m == TOP or m.startswith(TOP + ".")) and b == "." for _, m, b in d):
                compared += 1
                if res["DIR"]["lines"] != res["PKG"]["lines"]:
                    key = ("C18:package-walk-differs-where-module-beside-same-named-directory" if has_shadow(wd[TOP])
                           else f"C18:dir-vs-package:{ts}:{ns}{ex}")
                    ctx.violation(key, f"`mypy {TOP}` and `mypy -p {TOP}` differ on tree [{ts}] (namespace_packages={ns} "
                                  f"explicit_package_bases={ex}): {res['DIR']['lines'][:3]} vs {res['PKG']['lines'][:3]}",
                                  {"kind": "S2", "tree": ts, "ns": ns, "explicit": ex, "cwd": cwd, "res": res})
    ctx.add("evaluations", n_runs)
    ctx.cov["cli_layouts"] = len(jobs)
    ctx.cov["cli_runs"] = n_runs
    ctx.cov["cli_layouts_stopped_by_duplicate_error"] = stops
    ctx.cov["cli_comparisons"] = compared
    ctx.sample({"cli_tree": tree_str(jobs[5][2]), "ns": jobs[5][3], "explicit": jobs[5][4], "cwd": jobs[5][5], "result": results[5]})
    ctx.log(f"S2: {n_runs} mypy runs on {len(jobs)} layouts, {stops} stopped by duplicate/found-twice, {compared} comparisons")


# ------------------------------------------------------------------------------------------- S3: path spellings

def spellings(target: str, root: str, cw: str, is_dir: bool) -> dict[str, str]:
    """Different spellings of the same path `target` (relative to the world root) as seen from cwd `cw`."""
    ab = os.path.join(root, target)
    rel = os.path.relpath(ab, cw)
    d, b = os.path.split(rel)
    dd = os.path.join(rel, "..", os.path.basename(ab)) if b in (".", "..") else os.path.join(d or ".", b, "..", b)
    out = {"relative": rel, "absolute": ab, "dot-dotdot": dd,
           "via-sibling": os.path.join("..", os.path.basename(cw), rel)}
    if is_dir:
        out["trailing-slash"] = rel + "/"
    return out


def spelling_case(job: tuple[str, str, Tree, dict[str, str], int, int, str, list[str], list[str]]) -> dict[str, Any]:
    """Run mypy on the same targets (all directories or all files) in every spelling; same options, same cwd."""
    workdir, typeshed, world, contents, ns, ex, cwd, mp, targets = job
    from mypy import api
    root = os.path.realpath(tempfile.mkdtemp(prefix="p", dir=workdir))
    old = os.getcwd()
    try:
        materialise(world, root, lambda p: contents.get(os.path.relpath(p, root), 'x: int = ""\n'))
        cw = os.path.normpath(os.path.join(root, cwd))
        os.chdir(cw)
        os.environ.pop("MYPYPATH", None)
        if mp:
            os.environ["MYPYPATH"] = os.pathsep.join(os.path.join(root, q) for q in mp)
        base = ["--no-incremental", "--cache-dir=" + os.devnull, "--custom-typeshed-dir=" + typeshed, "--config-file=",
                "--no-site-packages", "--no-error-summary", "--hide-error-context", "--no-color-output",
                "--namespace-packages" if ns else "--no-namespace-packages"] + (["--explicit-package-bases"] if ex else [])
        is_dir = all(os.path.isdir(os.path.join(root, t)) for t in targets)
        per = [spellings(t, root, cw, is_dir) for t in targets]
        res: dict[str, Any] = {}
        for label in per[0]:
            out, err, st = api.run(base + [sp[label] for sp in per])
            lines, kind = canon_out(out, err, root, cw)
            import re
            lines = [re.sub(r'\(also at "([^"]+)"\)', lambda m: '(also at "%s")' % os.path.relpath(os.path.normpath(os.path.join(cw, m.group(1))), root), ln)
                     for ln in lines]
            res[label] = {"status": st, "lines": sorted(lines), "kind": kind}
        return res
    finally:
        os.environ.pop("MYPYPATH", None)
        os.chdir(old)
        shutil.rmtree(root, ignore_errors=True)


# layouts with overlapping import roots: (tree below the world root, file contents, imports made, (ns, explicit, mypy_path) list)
OVERLAP_LAYOUTS: list[tuple[Tree, dict[str, str], str, list[tuple[int, int, list[str]]]]] = [
    # package directory also on MYPYPATH: `import a` finds w/a.py, already a source as w.a
    ({TOP: {"__init__.py": None, "a.py": None, "b.py": None}, OUT: {}}, {"w/b.py": "import a\n"}, "a",
     [(0, 0, [TOP]), (1, 0, [TOP]), (1, 1, [TOP])]),
    # namespace packages, no __init__: sources are `a`, `b`; `import w.a` reaches w/a.py through cwd / MYPYPATH
    ({TOP: {"a.py": None, "b.py": None}, OUT: {}}, {"w/b.py": "import w.a\n"}, "w,w.a",
     [(1, 0, []), (1, 0, ["."])]),
    # nested package whose inner directory is also a root
    ({TOP: {"__init__.py": None, "a": {"__init__.py": None, "b.py": None}, "b.py": None}, OUT: {}}, {"w/b.py": "import b as bb\nimport a.b\n"}, "b,a,a.b",
     [(0, 0, [TOP]), (1, 1, [TOP]), (1, 0, ["w/a"])]),
    # control: roots do not overlap
    ({TOP: {"a": {"__init__.py": None, "b.py": None}, "b.py": None}, OUT: {}}, {"w/b.py": "import a.b\n"}, "a,a.b",
     [(0, 0, []), (1, 1, [TOP])]),
]


def spelling_stage(ctx: vlib.Ctx, exe: str, worlds: list[Tree], workdir: str) -> None:
    """The outcome (duplicate / found-twice stop, or the diagnostics) must not depend on how the paths are spelled."""
    from concurrent.futures import ProcessPoolExecutor
    rng = vlib.Rng(ctx.seed, "spellings")
    typeshed = os.path.join(workdir, "typeshed")
    if not os.path.isdir(typeshed):
        make_typeshed(typeshed)
    jobs: list[tuple[Any, ...]] = []
    meta: list[dict[str, Any]] = []
    for wd, contents, deps, optl in OVERLAP_LAYOUTS:
        files = sorted(py_files(wd[TOP], TOP))
        for ns, ex, mp in optl:
            for cwd in (".", OUT, TOP):
                for mode, targets in (("DIR", [TOP]), ("FILES", files)):
                    jobs.append((workdir, typeshed, wd, contents, ns, ex, cwd, mp, targets))
                    meta.append({"tree": tree_str(wd), "contents": contents, "ns": ns, "explicit": ex, "cwd": cwd, "mypy_path": mp,
                                 "mode": mode, "targets": targets, "deps": deps})
    pool = [w for w in worlds if 1 <= n_files(w[TOP]) <= 5]
    for wd in rng.sample(pool, min(len(pool), ctx.n(12, 150))):
        files = sorted(py_files(wd[TOP], TOP))
        if not files:
            continue
        for ns, ex, mp in ((1, 0, []), (0, 0, [TOP]), (1, 1, [TOP])):
            for cwd in (".", OUT):
                for mode, targets in (("DIR", [TOP]), ("FILES", files)):
                    jobs.append((workdir, typeshed, wd, {}, ns, ex, cwd, mp, targets))
                    meta.append({"tree": tree_str(wd), "contents": {}, "ns": ns, "explicit": ex, "cwd": cwd, "mypy_path": mp,
                                 "mode": mode, "targets": targets, "deps": ""})
    with ProcessPoolExecutor(max_workers=vlib.NPROC) as exr:
        results = list(exr.map(spelling_case, jobs, chunksize=2))
    # the model's prediction of the outcome kind for the overlap layouts (load_roots + add_dependency)
    mq = [qline(m["tree"], (m["ns"], m["explicit"], m["cwd"], m["mypy_path"]), f"dep {m['deps']} " + " ".join(m["targets"]))
          for m in meta if m["deps"]]
    mans = iter(run_driver(exe, mq)) if mq else iter([])
    n_runs = 0
    kinds: dict[str, int] = {}
    for m, res in zip(meta, results):
        n_runs += len(res)
        ref = res["absolute"]
        kinds[ref["kind"]] = kinds.get(ref["kind"], 0) + 1
        for label, r in res.items():
            if (r["kind"], r["lines"]) != (ref["kind"], ref["lines"]):
                ctx.violation(f"C18:outcome-depends-on-path-spelling:{m['tree']}:{m['ns']}{m['explicit']}:{m['cwd']}:{m['mypy_path']}:{m['mode']}",
                              f"same files, options and cwd, but `mypy {label} spelling` gives {r['kind']} {r['lines'][:2]} while the absolute "
                              f"spelling gives {ref['kind']} {ref['lines'][:2]}; tree [{m['tree']}] contents {m['contents']} namespace_packages={m['ns']} "
                              f"explicit_package_bases={m['explicit']} cwd={m['cwd']} MYPYPATH={m['mypy_path']} targets={m['targets']}",
                              {"kind": "S3", **m, "spelling": label, "results": res})
                break
        if m["deps"]:
            pred = next(mans)
            real = {"ok": "ok", "duplicate": "duplicate", "found-twice": "found-twice"}[ref["kind"]]
            if pred != real and not pred.startswith("ERR"):
                ctx.broke("C", "load_graph same-file check: model vs mypy", f"tree [{m['tree']}] {m}: model {pred}, mypy {real} {ref['lines'][:2]}")
    ctx.add("evaluations", n_runs)
    ctx.cov["spelling_groups"] = len(jobs)
    ctx.cov["spelling_runs"] = n_runs
    ctx.cov["spelling_outcome_kinds"] = kinds
    ctx.log(f"S3: {n_runs} mypy runs in {len(jobs)} (layout, options, cwd, mode) groups x path spellings; outcomes {kinds}")


def replay(ctx: vlib.Ctx, path: str) -> None:
    d = json.load(open(path))
    print(json.dumps(d, indent=1)[:4000])
    r = d.get("replay", {})
    if "tree" in r:
        print("\nTo reproduce by hand: create the files of the tree\n   ", r["tree"],
              "\n(name/{ ... } is a directory; every .py file holding `x: int = \"\"`), cd to", r.get("cwd", "."),
              "and run mypy with namespace_packages =", r.get("ns"), "explicit_package_bases =", r.get("explicit"))
    run(ctx)
