"""C16 — the daemon survives client faults and its channel delivers intact messages.

T  tools/extractors/t16.py: gen/Frame.v (frame_from_buffer, HEADER_SIZE, encode_frame; templates of
   read_bytes/read/receive), gen/ServeShape.v (try/except structure of Server.serve as flags)
P  C16/Properties.v: framing theorems (all segmentations), serve-loop theorems decided by the flags
C  (a) extracted read_bytes vs the real IPCBase.read_bytes over a real socketpair with controlled
       chunking: every segmentation of every frame stream <= 12 bytes, random beyond
   (b) the serve model (vm_compute) vs a real daemon driven by raw-socket clients
S  intact delivery (frames received == messages written) and survival (after every fault the daemon
   still answers status/check like a fresh mypy run; no status file after exit)
"""
from __future__ import annotations

import itertools
import json
import os
import re
import shutil
import socket
import struct
import subprocess
import sys
import tempfile
import time
from typing import Any

import vlib
from extractors import t16
from py2gallina import Unsupported

sys.path.insert(0, vlib.REPO)


# =========================================================================================== framing

class ChunkSock:
    """A real AF_UNIX socketpair whose reading end returns exactly the given chunks, then EOF.

    recv() first pushes the next chunk into the writing end (nothing else is queued, the chunk is
    small), so the kernel hands back exactly that chunk: deterministic segmentation over a real socket."""

    def __init__(self, chunks: list[bytes]):
        self.a, self.b = socket.socketpair(socket.AF_UNIX, socket.SOCK_STREAM)
        self.b.settimeout(20)
        self.chunks = list(chunks)
        self.eof = False
        self.glue_ok = True

    def recv(self, size: int) -> bytes:
        while self.chunks:
            c = self.chunks.pop(0)
            self.a.sendall(c)           # a zero-length write produces no read event
            if c:
                got = self.b.recv(size)
                if got != c:
                    self.glue_ok = False
                return got
        if not self.eof:
            self.a.shutdown(socket.SHUT_WR)
            self.eof = True
        return self.b.recv(size)

    def close(self) -> None:
        self.a.close()
        self.b.close()


class Collector:
    def __init__(self) -> None:
        self.data = b""

    def sendall(self, b: bytes) -> None:
        self.data += b


def hx(b: bytes) -> str:
    return b.hex() if b else "-"


def impl_wire(msgs: list[bytes]) -> bytes:
    from mypy.ipc import IPCBase
    s = IPCBase("verif", None)
    s.connection = Collector()  # type: ignore[assignment]
    for m in msgs:
        s.write_bytes(m)
    return s.connection.data  # type: ignore[attr-defined]


def impl_read(chunks: list[bytes], count: int | None) -> tuple[list[bytes], str, bool]:
    """Run the real IPCBase.read_bytes over a real socket; returns (frames, final state text, glue ok)."""
    from mypy.ipc import IPCBase
    r = IPCBase("verif", None)
    cs = ChunkSock(chunks)
    r.connection = cs  # type: ignore[assignment]
    frames: list[bytes] = []
    try:
        try:
            while count is None or len(frames) < count:
                b = r.read_bytes()
                if count is None and not b:
                    break
                frames.append(b)
            st = f"{hx(bytes(r.buffer))} {r.message_size}"
        except struct.error:
            st = "STRUCT_ERROR"
        except Exception as e:  # noqa
            st = "EXC " + type(e).__name__
    finally:
        cs.close()
    return frames, st, cs.glue_ok


def compositions(n: int):
    """all ways to cut a stream of n bytes into consecutive non-empty chunks (2^(n-1))"""
    if n == 0:
        yield ()
        return
    for mask in range(1 << (n - 1)):
        cuts = [i + 1 for i in range(n - 1) if mask >> i & 1]
        yield tuple(cuts)


def cut(stream: bytes, cuts: tuple[int, ...]) -> list[bytes]:
    out, p = [], 0
    for c in cuts:
        out.append(stream[p:c])
        p = c
    if p < len(stream) or not stream:
        out.append(stream[p:])
    return [c for c in out] if stream else []


def small_streams(limit: int) -> list[tuple[bytes, list[bytes] | None]]:
    """(stream, messages it is the wire form of | None).  All message-length vectors whose wire form
    has <= limit bytes, every prefix of those (complete frames + partial frame), plus malformed
    streams (oversized header, trailing garbage)."""
    out: dict[bytes, list[bytes] | None] = {}
    vecs: list[tuple[int, ...]] = []
    for k in range(0, limit // 4 + 1):
        for v in itertools.product(range(limit + 1), repeat=k):
            if sum(4 + x for x in v) <= limit:
                vecs.append(v)
    for v in vecs:
        msgs, nxt = [], 0x61
        for ln in v:
            msgs.append(bytes((nxt + i) % 256 for i in range(ln)))
            nxt += ln + 1
        w = impl_wire(msgs)
        out[w] = msgs
        for k in range(len(w)):
            out.setdefault(w[:k], None)
    for extra in (b"\xff\xff\xff\xff" + b"abcdefgh"[:limit - 4], b"\x00\x00\x01\x00" + b"abcdefgh"[:limit - 4],
                  b"\x00\x00\x00\x01a\xff", b"\x00\x00\x00\x00\x00\x00\x00"):
        out.setdefault(extra[:limit], None)
    return sorted(out.items())


def framing_stage(ctx: vlib.Ctx, exe: str | None) -> None:
    rng = vlib.Rng(ctx.seed, "framing")
    limit = 12
    cases: list[tuple[str, list[bytes], int | None, list[bytes] | None]] = []   # (mode, chunks, count, msgs)
    streams = small_streams(limit)
    for stream, msgs in streams:
        for cuts in compositions(len(stream)):
            chunks = cut(stream, cuts)
            cases.append(("u", chunks, None, msgs))
    n_exh = len(cases)
    # counted reader on the streams that contain empty messages (the until-EOF reader stops at them)
    for stream, msgs in streams:
        if msgs and any(not m for m in msgs):
            for cuts in compositions(len(stream)):
                cases.append(("n", cut(stream, cuts), len(msgs), msgs))
    # random beyond: longer messages, random segmentation incl. empty chunks, truncation, big frames
    nrand = ctx.n(400, 6000)
    for i in range(nrand):
        k = rng.randint(1, 6)
        msgs = []
        for _ in range(k):
            ln = rng.choice([1, 2, 3, 5, 17, 255, 256, 257, 300, 1000]) if rng.random() < 0.5 else rng.randint(1, 40)
            if rng.random() < 0.02:
                ln = rng.choice([65535, 65536, 70000])
            if rng.random() < 0.05:
                ln = 0
            msgs.append(bytes(rng.getrandbits(8) for _ in range(min(ln, 64))) * (ln // 64 + 1))
            msgs[-1] = msgs[-1][:ln]
        stream = impl_wire(msgs)
        whole: list[bytes] | None = msgs
        if rng.random() < 0.3:
            stream = stream[:rng.randint(0, len(stream))]
            whole = None
        chunks, p = [], 0
        while p < len(stream):
            if len(stream) > 3000 and rng.random() < 0.97:
                step = rng.choice([1000, 4096, 50000, 65536, rng.randint(500, 5000)])   # the list-based model is quadratic in #chunks
            else:
                step = rng.choice([1, 2, 3, 4, 5, 7, 64, 4096, 50000]) if rng.random() < 0.7 else rng.randint(1, 20)
            chunks.append(stream[p:p + step])
            p += step
            if rng.random() < 0.1:
                chunks.append(b"")
        if whole is not None and any(not m for m in msgs):
            cases.append(("n", chunks, len(msgs), whole))
        else:
            cases.append(("u", chunks, None, whole))
    ctx.log(f"(a) framing: {len(streams)} streams <= {limit} bytes, {n_exh} exhaustive segmentations, {nrand} random")
    lines, impl_out = [], []
    delivered_full = 0
    glue_bad = 0
    t = time.time()
    for mode, chunks, count, msgs in cases:
        frames, st, glue = impl_read(chunks, count)
        if not glue:
            glue_bad += 1
        impl_out.append((" ".join(hx(f) for f in frames) + " | " + st).strip())
        lines.append((f"u {' '.join(hx(c) for c in chunks)}" if mode == "u" else f"n {count} {' '.join(hx(c) for c in chunks)}"))
        # S: intact delivery, judged against what was written (no model involved)
        if msgs is not None:
            want = msgs
            if mode == "u" and any(not m for m in msgs):
                want = msgs[:[bool(m) for m in msgs].index(False)]    # b"" is read as "peer closed" by design
            if frames != want and sum(1 for v in ctx.violations if v.key.startswith("framing")) < 5:   # smallest first; 5 are enough
                key = "framing:" + ("|".join(hx(c) for c in chunks))[:120]
                ctx.violation(key, f"messages {[hx(m)[:20] for m in msgs]} written, segmentation {[len(c) for c in chunks][:30]}: "
                              f"reader got {[hx(f)[:20] for f in frames]} ({st[:40]})",
                              {"kind": "framing", "msgs": [m.hex() for m in msgs], "chunks": [c.hex() for c in chunks], "mode": mode,
                               "got": [f.hex() for f in frames], "state": st})
            elif frames == want:
                delivered_full += 1
        else:
            # truncated / malformed stream: nothing but complete frames of the stream may be delivered
            stream = b"".join(chunks)
            exp, p = [], 0
            while len(stream) - p >= 4:
                n = struct.unpack("!L", stream[p:p + 4])[0]
                if len(stream) - p - 4 < n or n == 0:
                    break
                exp.append(stream[p + 4:p + 4 + n])
                p += 4 + n
            if frames != exp and sum(1 for v in ctx.violations if v.key.startswith("framing")) < 5:
                key = "framing-partial:" + ("|".join(hx(c) for c in chunks))[:120]
                ctx.violation(key, f"truncated stream {stream.hex()[:60]} cut as {[len(c) for c in chunks][:30]}: reader delivered "
                              f"{[hx(f)[:20] for f in frames]}, complete frames are {[hx(f)[:20] for f in exp]}",
                              {"kind": "framing", "chunks": [c.hex() for c in chunks], "got": [f.hex() for f in frames], "mode": mode})
    ctx.log(f"(a) implementation read {len(cases)} segmented streams through real sockets in {time.time()-t:.1f}s")
    if glue_bad:
        ctx.broke("C", "framing glue", f"socketpair returned a different chunk than was written in {glue_bad} cases")
    if exe:
        p = subprocess.run([exe], input="\n".join(lines) + "\n", text=True, capture_output=True, timeout=900)
        model = [l.strip() for l in p.stdout.splitlines()]
        if len(model) != len(lines):
            ctx.broke("C", "framing driver", f"{len(model)} results for {len(lines)} inputs: {p.stderr[-300:]}")
        else:
            bad = 0
            for l, m, i in zip(lines, model, impl_out):
                if m != i:
                    bad += 1
                    if bad <= 3:
                        ctx.broke("C", "read_bytes model vs IPCBase.read_bytes", f"input `{l[:200]}`: model `{m[:200]}` impl `{i[:200]}`",
                                  {"input": l[:2000], "model": m[:2000], "impl": i[:2000]})
            ctx.add("traces_validated_against_impl", len(lines))
        # encode_frame vs write_bytes
        msgs = [b"", b"a", bytes(range(256)), b"x" * 65536, b"y" * 70000]
        p = subprocess.run([exe], input="\n".join("e " + hx(m) for m in msgs) + "\n", text=True, capture_output=True, timeout=300)
        for m, o in zip(msgs, p.stdout.splitlines()):
            if o.strip() != impl_wire([m]).hex():
                ctx.broke("C", "encode_frame vs write_bytes", f"len {len(m)}: model {o[:20]} impl {impl_wire([m]).hex()[:20]}")
    ctx.add("evaluations", len(cases))
    ctx.cov["framing_streams_small"] = len(streams)
    ctx.cov["framing_segmentations_exhaustive"] = n_exh
    ctx.cov["framing_random"] = nrand
    ctx.cov["framing_delivered_intact"] = delivered_full
    ctx.sample({"framing": lines[n_exh // 2][:120], "impl": impl_out[n_exh // 2][:120]})
    ctx.sample({"framing": lines[-1][:120], "impl": impl_out[-1][:120]})


# =========================================================================================== client side

def client_stage(ctx: vlib.Ctx, exe: str | None) -> None:
    """The real dmypy client exchange (mypy/dmypy/client.py request(): IPCClient, send, receive until
    final) against a scripted peer on a real AF_UNIX socket that answers with reply streams (WriteToConn
    stdout/stderr frames + final response) cut at chosen places; also checks the request frame the
    client writes.  The result must not depend on the segmentation (which is why pacing the writes
    with short sleeps cannot make the outcome flaky)."""
    import contextlib
    import io
    import queue
    import threading
    from mypy.dmypy.client import request
    rng = vlib.Rng(ctx.seed, "client")
    d = tempfile.mkdtemp(prefix="verif-c16-cl-")
    try:
        path = os.path.join(d, "peer.sock")
        ls = socket.socket(socket.AF_UNIX)
        ls.bind(path)
        ls.listen(4)
        status_file = os.path.join(d, "status.json")
        with open(status_file, "w") as f:
            json.dump({"pid": os.getpid(), "connection_name": path}, f)
        q: "queue.Queue[list[bytes] | None]" = queue.Queue()
        got_requests: list[bytes] = []
        peer_errors: list[str] = []

        def peer() -> None:
            while True:
                item = q.get()
                if item is None:
                    return
                conn, _ = ls.accept()
                conn.settimeout(20)
                buf = b""
                try:
                    while not (len(buf) >= 4 and len(buf) - 4 >= struct.unpack("!L", buf[:4])[0]):
                        m = conn.recv(1 << 16)
                        if not m:
                            break
                        buf += m
                    got_requests.append(buf)
                    for c in item:
                        if c:               # a zero-length write puts nothing on the wire (Model.feed)
                            conn.sendall(c)
                            time.sleep(0.0003)
                except OSError as e:
                    peer_errors.append(repr(e) + f" after request {buf[:30]!r} chunks {[len(c) for c in item][:8]}")
                finally:
                    conn.close()
        th = threading.Thread(target=peer, daemon=True)
        th.start()
        final1 = {"out": "a.py:1: error: boom  [misc]\nFound 1 error in 1 file (checked 1 source file)\n", "err": "", "status": 1, "final": True}
        final2 = {"out": "", "err": "", "status": 0, "final": True, "platform": "linux"}
        replysets: list[list[dict[str, Any]]] = [
            [final1],
            [{"stdout": "debug line 1\n"}, {"stderr": "warning: w\n"}, {"stdout": "é✓ done\n"}, final2],
        ]
        cases: list[tuple[list[dict[str, Any]], list[bytes], bool]] = []
        for rs in replysets:
            stream = b"".join(frame(json.dumps(r).encode()) for r in rs)
            n = len(stream)
            cases.append((rs, [stream], True))
            cases.append((rs, [stream[i:i + 1] for i in range(n)], True))
            for k in range(1, n):
                cases.append((rs, [stream[:k], stream[k:]], True))
            for _ in range(ctx.n(30, 300)):
                cuts = sorted(rng.sample(range(1, n), rng.randint(2, 6)))
                cases.append((rs, [stream[a:b] for a, b in zip([0] + cuts, cuts + [n])] + ([b""] if rng.random() < 0.3 else []), True))
            for k in range(n):
                cases.append((rs, [stream[:k]], False))     # peer dies in the middle of its reply: at EVERY position
            for k in sorted({1, 5, n // 2, n - 1}):
                cases.append((rs, [stream[:k][i:i + 1] for i in range(k)], False))   # ... delivered byte by byte
        lines, bad = [], 0
        for rs, chunks, complete in cases:
            if bad >= 3:
                break       # shown broken; every further exchange may cost a client timeout
            q.put(chunks)
            out, err = io.StringIO(), io.StringIO()
            with contextlib.redirect_stdout(out), contextlib.redirect_stderr(err):
                resp = request(status_file, "status", timeout=20, fswatcher_dump_file=None)
            want_out = "".join(r.get("stdout", "") for r in rs)
            want_err = "".join(r.get("stderr", "") for r in rs)
            want = {k: v for k, v in rs[-1].items() if k not in ("final", "stdout", "stderr")}
            if complete:
                ok = resp == want and out.getvalue() == want_out and err.getvalue() == want_err
            else:
                ok = set(resp) == {"error"}     # a truncated reply is reported as an error, never as a (partial) result
            if not ok and bad < 3:
                bad += 1
                ctx.violation("client-framing:" + "|".join(str(len(c)) for c in chunks)[:100],
                              f"dmypy client request(): reply stream cut as {[len(c) for c in chunks][:20]} gave {str(resp)[:150]!r} "
                              f"stdout {out.getvalue()[:60]!r}, sent {str(want)[:150]!r}",
                              {"kind": "client", "chunks": [c.hex() for c in chunks], "resp": str(resp)})
            lines.append("c " + " ".join(hx(c) for c in chunks))
        q.put(None)
        th.join(timeout=10)
        ls.close()
        if peer_errors:
            ctx.broke("C", "client stage glue (scripted peer)", "; ".join(peer_errors[:3]))
        # the request frames the client wrote: exactly one intact frame each, carrying the arguments
        for buf in got_requests:
            okr = len(buf) >= 4 and struct.unpack("!L", buf[:4])[0] == len(buf) - 4
            if okr:
                try:
                    a = json.loads(buf[4:])
                    okr = a.get("command") == "status" and "is_tty" in a and "terminal_width" in a
                except ValueError:
                    okr = False
            if not okr:
                ctx.violation("client-request-frame", f"dmypy client wrote a malformed request frame: {buf[:80]!r}", {"kind": "client", "frame": buf.hex()})
                break
        if exe:
            p = subprocess.run([exe], input="\n".join(lines) + "\n", text=True, capture_output=True, timeout=600)
            model = [l.strip() for l in p.stdout.splitlines()]
            if len(model) != len(lines):
                ctx.broke("C", "client driver", f"{len(model)} results for {len(lines)} inputs")
            else:
                nb = 0
                for (rs, chunks, complete), m in zip(cases[:len(lines)], model):
                    exp = " ".join(hx(json.dumps(r).encode()) for r in rs) if complete else "NONE"
                    if m != exp:
                        nb += 1
                        if nb <= 3:
                            ctx.broke("C", "read_until_final model vs reply stream", f"cut {[len(c) for c in chunks][:20]}: model {m[:120]} expected {exp[:120]}")
                ctx.add("traces_validated_against_impl", len(lines))
            if got_requests:
                p = subprocess.run([exe], input="e " + hx(got_requests[0][4:]) + "\n", text=True, capture_output=True, timeout=60)
                if p.stdout.strip() != got_requests[0].hex():
                    ctx.broke("C", "encode_frame vs client request frame", f"model {p.stdout[:60]} client {got_requests[0].hex()[:60]}")
        ctx.add("evaluations", len(cases))
        ctx.cov["client_exchanges"] = len(cases)
        ctx.sample({"client_reply_cut": [len(c) for c in cases[len(cases) // 2][1]], "frames": len(cases[len(cases) // 2][0])})
        ctx.log(f"(a') dmypy client request(): {len(cases)} exchanges with segmented reply streams (incl. stdout/stderr frames, truncated replies)")
    finally:
        shutil.rmtree(d, ignore_errors=True)


# =========================================================================================== serve loop

V1 = "x: int = 'a'\n"
V2 = "y: str = 1\nz: int = ''\nx: int = 2\n"
WHAT = {
    "F3:connect-close-kills-daemon": "a client that connects and closes without sending (or closes inside a frame, or sends an empty / non-JSON / "
                                     "non-dict frame) makes receive() raise OSError outside any handler in Server.serve: the daemon exits and removes its status file",
    "F3:invalid-utf8-kills-daemon": "a frame that is not UTF-8 makes IPCBase.read raise UnicodeDecodeError inside receive(), outside any handler: the daemon exits",
    "F3:malformed-arguments-kill-daemon": "a request naming a known command with a missing or unexpected argument (e.g. no is_tty) raises KeyError/TypeError in "
                                          "run_command: reported as 'Daemon crashed!' and the daemon exits",
    "F3:wrong-typed-argument-kills-daemon": "a request whose argument has the wrong JSON type (check with files=5) raises inside the command: 'Daemon crashed!', the daemon exits",
    "F3:malformed-stop-leaves-status-file": "a stop request with an unexpected argument raises TypeError in run_command; the daemon exits through `finally` with "
                                            "command == 'stop', which skips the unlink: the status file of the dead daemon remains",
    "F3:leftover-bytes-answered-to-next-client": "bytes a client sends after its request stay in IPCServer.buffer (the server object outlives the connection) and are "
                                                 "taken for the next client's request: that client is answered for a request it never made",
}
WHAT["F3:stalled-client-blocks-daemon"] = ("a client that connects and then neither sends nor closes keeps the single-threaded daemon in recv() for good (the accepted "
                                           "connection has no timeout, --timeout only covers accept): no later client is served and the idle exit never happens")
WHAT["F3:hangup-during-streamed-output-kills-daemon"] = ("on a daemon whose commands print while they run (-v: manager.log -> sys.stderr = WriteToConn), a client that hangs up "
                                                         "makes the write raise BrokenPipeError inside the command; the crash report cannot be sent either: the daemon exits")
REPLY_NAMES = ["NoReply", "ErrNoCommand", "ErrNotStr", "ErrUnknown", "ErrBadArgs", "Done", "Stopped", "CrashReport"]


def frame(b: bytes) -> bytes:
    return struct.pack("!L", len(b)) + b


def jreq(command: Any, **kw: Any) -> bytes:
    d: dict[str, Any] = {"command": command, "is_tty": False, "terminal_width": 80}
    d.update(kw)
    return json.dumps(d).encode()


STATUS = jreq("status")
CHECK = jreq("check", files=["a.py"], export_types=False)
STOP = jreq("stop")


class Step:
    """one client connection: chunks written, whether the client waits for the reply, and how the
    model is told to classify the payload (tag, see C16/ServeInst.v)"""

    def __init__(self, name: str, chunks: list[bytes], stays: bool, model: str, fault: str | None = None,
                 expect_check: str | None = None, edit: str | None = None, kind: str = "conn"):
        self.name, self.chunks, self.stays, self.model = name, chunks, stays, model
        self.kind = kind                # "conn" | "stalled" (writes the chunks, then neither sends nor closes) | "idle" (nobody connects)
        self.fault = fault              # finding class when this step is a client fault
        self.expect_check = expect_check  # "v1"/"v2": reply must equal a fresh mypy run on that version
        self.edit = edit                # write this content to a.py before connecting


def model_event(st: Step) -> str:
    return {"conn": f"Conn ({st.model})", "stalled": f"Stalled {st.model}", "idle": "IdleTimeout"}[st.kind]


def stalled_step(k: int) -> Step:
    fs = frame(STATUS)
    return Step(f"stalled@{k}", [fs[:k]] if k else [], True, f"[firstn {k} ({mfr(9, STATUS)})]" if k else "[]",
                fault="F3:stalled-client-blocks-daemon", kind="stalled")


def idle_step() -> Step:
    return Step("idle", [], False, "", kind="idle")


def verbose_steps() -> dict[str, Step]:
    """on a daemon started with -v the build logs through sys.stderr = WriteToConn while `check` runs (tag 12)"""
    return {
        "check-verbose": step_request("check-verbose", CHECK, 12),
        "hangup-check-verbose": step_request("hangup-check-verbose", CHECK, 12, stays=False,
                                             fault="F3:hangup-during-streamed-output-kills-daemon"),
    }


def mfr(tag: int, payload: bytes) -> str:
    return f"fr {tag} {len(payload)}"


def step_request(name: str, payload: bytes, tag: int, stays: bool = True, **kw: Any) -> Step:
    return Step(name, [frame(payload)], stays, f"mk_conn [{mfr(tag, payload)}] {'true' if stays else 'false'}", **kw)


def fault_steps(args_validated: bool = False) -> dict[str, Step]:
    """every client fault of the property's quantifier, by name"""
    out: dict[str, Step] = {}
    fs = frame(STATUS)
    for k in range(len(fs)):
        out[f"close@{k}"] = Step(f"close@{k}", [fs[:k]] if k else [], False,
                                 f"mk_conn [firstn {k} ({mfr(9, STATUS)})] false", fault="F3:connect-close-kills-daemon")
    g = b"this is not json"
    out["garbage"] = step_request("garbage", g, 2, fault="F3:connect-close-kills-daemon")
    u = b"\xff\xfe{}"
    out["bad-utf8"] = step_request("bad-utf8", u, 1, fault="F3:invalid-utf8-kills-daemon")
    # json.loads raises RecursionError (not a ValueError) on this: still "not valid JSON" for receive()
    out["deep-json"] = step_request("deep-json", b"[" * 3000, 2, fault="F3:connect-close-kills-daemon")
    out["non-dict"] = step_request("non-dict", b"[1, 2]", 3, fault="F3:connect-close-kills-daemon")
    out["empty-frame"] = Step("empty-frame", [frame(b"")], True, "mk_conn [encode_frame []] true", fault="F3:connect-close-kills-daemon")
    out["oversized-header"] = Step("oversized-header", [b"\xff\xff\xff\xffabc"], False,
                                   "mk_conn [[255%N; 255%N; 255%N; 255%N; 97%N; 98%N; 99%N]] false", fault="F3:connect-close-kills-daemon")
    out["no-command"] = step_request("no-command", b'{"x": 1}', 4, fault="F3:error-response-fault")
    out["command-not-str"] = step_request("command-not-str", b'{"command": 1}', 5, fault="F3:error-response-fault")
    out["unknown-command"] = step_request("unknown-command", jreq("frobnicate"), 6, fault="F3:error-response-fault")
    # no is_tty: KeyError in run_command as it stands; a valid request once run_command tolerates its absence
    out["missing-is_tty"] = step_request("missing-is_tty", b'{"command": "status"}', 9 if args_validated else 7, fault="F3:malformed-arguments-kill-daemon")
    out["missing-field"] = step_request("missing-field", json.dumps({"command": "check", "is_tty": False, "terminal_width": 80, "export_types": False}).encode(),
                                        7, fault="F3:malformed-arguments-kill-daemon")
    out["extra-field"] = step_request("extra-field", jreq("status", bogus=1), 7, fault="F3:malformed-arguments-kill-daemon")
    out["wrong-type"] = step_request("wrong-type", jreq("check", files=5, export_types=False), 11, fault="F3:wrong-typed-argument-kills-daemon")
    out["malformed-stop"] = step_request("malformed-stop", jreq("stop", bogus=1), 8, fault="F3:malformed-stop-leaves-status-file")
    out["hangup-status"] = step_request("hangup-status", STATUS, 9, stays=False, fault="F3:hangup-fault")
    out["hangup-check"] = step_request("hangup-check", CHECK, 9, stays=False, fault="F3:hangup-fault")
    a, b = jreq("frobnicate"), b'{"x": 1}'
    out["two-frames"] = Step("two-frames", [frame(a) + frame(b)], True, f"mk_conn [{mfr(6, a)} ++ {mfr(4, b)}] true",
                             fault="F3:leftover-bytes-answered-to-next-client")
    return out


def probe(name: str = "status") -> Step:
    return step_request(name, STATUS, 9)


def check_step(version: str, edit: str | None = None) -> Step:
    return step_request("check-" + version, CHECK, 9, expect_check=version, edit=edit)


def stop_step() -> Step:
    return step_request("stop", STOP, 10)


def pid_state(pid: int) -> str:
    try:
        with open(f"/proc/{pid}/stat") as f:
            return f.read().rsplit(")", 1)[1].split()[0]
    except OSError:
        return "gone"


FORKSERVER = r"""
import json, os, signal, sys
signal.signal(signal.SIGCHLD, signal.SIG_IGN)          # children are reaped automatically
from mypy.dmypy_server import Server, process_start_options
for line in sys.stdin:
    req = json.loads(line)
    pid = os.fork()
    if pid == 0:
        # what mypy.dmypy_server._daemonize_cb does: new session, stdio to the log file, then Server.serve
        try:
            os.setsid()
            os.chdir(req["dir"])
            fd = os.open(req["log"], os.O_WRONLY | os.O_CREAT | os.O_APPEND, 0o644)
            devnull = os.open(os.devnull, os.O_RDONLY)
            os.dup2(devnull, 0); os.dup2(fd, 1); os.dup2(fd, 2)
            sys.stdin = open(0, closefd=False); sys.stdout = open(1, "w", closefd=False); sys.stderr = open(2, "w", closefd=False)
            options = process_start_options(req.get("flags", []) + ["--cache-dir", req["cache"]], False)
            Server(options, req["status_file"], timeout=req.get("timeout")).serve()
        finally:
            sys.stdout.flush(); sys.stderr.flush()
            os._exit(0)
    sys.stdout.write(json.dumps({"pid": pid}) + "\n")
    sys.stdout.flush()
"""


class ForkServer:
    """one Python process with mypy imported that forks a real Server.serve() per scenario (what `dmypy start`
    does through daemonize/_daemonize_cb, minus the interpreter start-up); requests are serialised by a lock"""

    def __init__(self) -> None:
        import threading
        env = vlib.py_env()
        env.pop("MYPY_CACHE_DIR", None)
        self.p = subprocess.Popen([vlib.PY, "-c", FORKSERVER], stdin=subprocess.PIPE, stdout=subprocess.PIPE, text=True, env=env)
        self.lock = threading.Lock()

    def spawn(self, req: dict[str, Any]) -> int:
        with self.lock:
            assert self.p.stdin and self.p.stdout
            self.p.stdin.write(json.dumps(req) + "\n")
            self.p.stdin.flush()
            return json.loads(self.p.stdout.readline())["pid"]

    def close(self) -> None:
        try:
            assert self.p.stdin
            self.p.stdin.close()
            self.p.wait(timeout=30)
        except Exception:  # noqa
            self.p.kill()


class Daemon:
    def __init__(self, fs: "ForkServer | None" = None, idle: int | None = None, verbose: bool = False,
                 conn_timeout: bool = False) -> None:
        self.fs = fs
        self.idle, self.verbose, self.conn_timeout = idle, verbose, conn_timeout
        self.held: list[socket.socket] = []     # connections of stalled clients, kept open until the scenario ends
        self.dir = tempfile.mkdtemp(prefix="verif-c16-")
        self.status_file = os.path.join(self.dir, "status.json")
        with open(os.path.join(self.dir, "a.py"), "w") as f:
            f.write(V1)
        self.pid = 0
        self.name = ""
        self.wedged = False

    def start(self, extra: "list[str] | None" = None) -> None:
        if self.fs is not None:
            self.fs.spawn({"dir": self.dir, "status_file": self.status_file, "cache": os.path.join(self.dir, "cache"),
                           "log": os.path.join(self.dir, "log"), "timeout": self.idle, "flags": ["-v"] if self.verbose else []})
            self.wait_status()
            return
        env = vlib.py_env()
        env.pop("MYPY_CACHE_DIR", None)
        st, out = vlib.sh([vlib.PY, "-m", "mypy.dmypy", "--status-file", self.status_file, "start", "--log-file",
                           os.path.join(self.dir, "log")] + (extra or []) + (["--timeout", str(self.idle)] if self.idle else [])
                          + ["--"] + (["-v"] if self.verbose else []) + ["--cache-dir", os.path.join(self.dir, "cache")],
                          cwd=self.dir, env=env, timeout=180)
        if st != 0 and "Timed out waiting" not in out:
            raise RuntimeError("dmypy start failed: " + out[-500:])
        self.wait_status()

    def wait_status(self) -> None:
        for _ in range(2400):
            try:
                d = json.load(open(self.status_file))
                self.pid, self.name = d["pid"], d["connection_name"]
                return
            except (OSError, ValueError, KeyError):
                time.sleep(0.05)
        raise RuntimeError("no status file after dmypy start")

    def alive(self) -> bool:
        return pid_state(self.pid) not in ("gone", "Z", "X")

    def wait_dead(self, timeout: float = 60) -> bool:
        t = time.time()
        while time.time() - t < timeout:
            if not self.alive():
                return True
            time.sleep(0.02)
        return False

    def connect(self, st: Step) -> tuple[int, dict[str, Any] | None]:
        """perform one client connection; returns (reply code, final response)"""
        if st.kind == "idle":
            # nobody connects: a daemon with --timeout leaves; wait for that (bounded), no reply either way
            self.wait_dead(120 if self.idle else 1)
            return 0, None
        if st.edit is not None:
            with open(os.path.join(self.dir, "a.py"), "w") as f:
                f.write(st.edit)
            t = time.time() + 3
            os.utime(os.path.join(self.dir, "a.py"), (t, t))
        s = socket.socket(socket.AF_UNIX)
        # generous, but a wedged daemon (e.g. waiting for 4 GB announced by a stale header) must not stall the run
        s.settimeout((180 if st.expect_check else 30) if not self.wedged else (30 if st.expect_check else 5))
        buf = b""
        try:
            deadline = time.time() + (120 if not self.wedged else 5)
            while True:
                try:
                    s.connect(self.name)
                    break
                except BlockingIOError:
                    # EAGAIN: the listen backlog (1) is full because the daemon is busy with the previous
                    # connection: not a refusal, wait for our turn
                    if time.time() > deadline:
                        raise
                    time.sleep(0.005)
            try:
                for c in st.chunks:
                    s.sendall(c)
            except OSError:
                pass        # the peer may already have answered and closed (it must not, but what it sent is still read below)
            if st.kind == "stalled":
                # neither send more nor close.  A daemon without a receive timeout now sits in recv for good: later
                # steps of this scenario wait less (the outcome "no reply" does not depend on how long we wait)
                self.held.append(s)
                if not self.conn_timeout:
                    self.wedged = True
                return 0, None
            if st.stays:
                while True:
                    m = s.recv(1 << 16)
                    if not m:
                        break
                    buf += m
        except socket.timeout:
            self.wedged = True     # neither answered nor closed: later steps of this scenario wait less
        except OSError:
            pass
        finally:
            if s not in self.held:
                s.close()
        final = None
        while len(buf) >= 4:
            n = struct.unpack("!L", buf[:4])[0]
            try:
                d = json.loads(buf[4:4 + n])
            except ValueError:
                break
            buf = buf[4 + n:]
            if isinstance(d, dict) and d.get("final"):
                final = d
        if final is None:
            return 0, None
        err = final.get("error")
        if err is None:
            return (6 if st.chunks == [frame(STOP)] else 5), final
        if err.startswith("No command found"):
            return 1, final
        if err.startswith("Command is not a string"):
            return 2, final
        if err.startswith("Unrecognized command"):
            return 3, final
        if err.startswith("Daemon crashed"):
            return 7, final
        return 4, final

    def cleanup(self) -> None:
        for h in self.held:
            try:
                h.close()
            except OSError:
                pass
        if self.pid and self.alive():
            try:
                os.kill(self.pid, 9)
            except OSError:
                pass
        shutil.rmtree(self.dir, ignore_errors=True)


def fresh_mypy(content: str) -> str:
    d = tempfile.mkdtemp(prefix="verif-c16-fresh-")
    try:
        with open(os.path.join(d, "a.py"), "w") as f:
            f.write(content)
        env = vlib.py_env()
        env.pop("MYPY_CACHE_DIR", None)
        p = subprocess.run([vlib.PY, "-m", "mypy", "--cache-dir", os.path.join(d, "cache"), "a.py"], cwd=d, env=env,
                           capture_output=True, text=True, timeout=600)
        return f"{p.returncode}\n{p.stdout}"
    finally:
        shutil.rmtree(d, ignore_errors=True)


def run_scenario(steps: list[Step], fs: "ForkServer | None" = None, opts: dict[str, Any] | None = None) -> dict[str, Any]:
    """run the steps against one real daemon; returns observed replies, final liveness / status file, check outputs"""
    d = Daemon(fs, **(opts or {}))
    try:
        d.start()
        replies, finals = [], []
        for st in steps:
            code, final = d.connect(st)
            replies.append(code)
            finals.append(final)
            if code in (6, 7):
                d.wait_dead(60)       # it announced that it is going down: let it finish
        # is it still serving?  Decided by a request, not by timing: a daemon that is on its way out either
        # refuses the connection or closes it without a reply when the process ends.
        answers = False
        if d.alive():
            code, _ = d.connect(probe())
            answers = code == 5
        if not answers and not d.held:
            d.wait_dead(15)           # on its way out?  (a daemon that is alive but wedged is not "exited")
        serving = d.alive()
        log = ""
        try:
            log = open(os.path.join(d.dir, "log")).read()[-1500:]
        except OSError:
            pass
        return {"replies": replies, "finals": finals, "serving": serving, "answers": answers, "status_file": os.path.exists(d.status_file), "log": log}
    finally:
        d.cleanup()


def scenario_for(name: str, f: Step, heavy: bool) -> list[Step]:
    if heavy:
        return [f, probe(), check_step("v1"), Step(f.name, f.chunks, f.stays, f.model, f.fault), probe("status2"),
                check_step("v2", edit=V2), stop_step()]
    return [f, probe(), stop_step()]


def serve_stage(ctx: vlib.Ctx, shape_flags: dict[str, bool] | None) -> None:
    from concurrent.futures import ThreadPoolExecutor
    rng = vlib.Rng(ctx.seed, "serve")
    faults = fault_steps(bool(shape_flags and shape_flags.get("args_validated")))
    nclose = sum(1 for k in faults if k.startswith("close@"))
    if any(v.key.startswith("framing") for v in ctx.violations):
        # the channel itself is already shown broken above (every request may wedge the daemon until the client
        # times out): keep one scenario per fault class, drop the per-offset sweep
        keep = {"close@0", "close@3", "close@4", f"close@{nclose - 1}"}
        faults = {k: v for k, v in faults.items() if not k.startswith("close@") or k in keep}
        ctx.cov["serve_reduced"] = "framing violations found: per-offset early-close sweep reduced to 4 offsets"
    names = list(faults)
    sopts: dict[str, dict[str, Any]] = {}
    workers = max(2, min(10, vlib.NPROC - 4))
    fs = ForkServer()
    t = time.time()
    try:
        with ThreadPoolExecutor(max_workers=workers) as ex:
            fresh_f = {v: ex.submit(fresh_mypy, c) for v, c in (("v1", V1), ("v2", V2))}
            # phase 1: every fault on its own daemon: [fault, status, stop]; plus random multi-fault sessions;
            #          one scenario through the genuine `python -m mypy.dmypy start` command line
            scenarios: list[tuple[str, list[Step]]] = [(n, [f, probe(), stop_step()]) for n, f in faults.items()]
            for i in range(ctx.n(8, 80)):
                seq: list[Step] = []
                for _ in range(rng.randint(3, 9)):
                    seq.append(faults[rng.choice(names)])
                    if rng.random() < 0.5:
                        seq.append(probe())
                scenarios.append((f"random{i}", seq + [probe(), stop_step()]))
            # stalled clients (connect, write k bytes, then neither send nor close), idle exit (--timeout), and a client
            # that hangs up while a verbose daemon streams its log to it
            ct = bool(shape_flags and shape_flags.get("conn_timeout"))
            flen = len(frame(STATUS))
            for k in (0, 2, 4, 9, flen - 1):
                scenarios.append((f"stalled@{k}", [stalled_step(k), probe(), stop_step()]))
            scenarios.append(("stalled-after-work", [probe(), faults["unknown-command"], stalled_step(5), probe(), probe("status2")]))
            for n, _ in scenarios[-6:]:
                sopts[n] = {"conn_timeout": ct}
            # a request of a different length right after a connection that died inside a frame (its parsed header
            # must not survive into the next connection)
            long_status = step_request("status-long", jreq("status", fswatcher_dump_file=None), 9)
            for k in (4, 10, flen - 1):
                scenarios.append((f"close@{k}-then-longer-request", [faults[f"close@{k}"], long_status, probe(), stop_step()]))
            scenarios.append(("idle", [idle_step()]))
            scenarios.append(("idle-after-fault", [faults["close@0"], idle_step()]))
            sopts["idle"] = sopts["idle-after-fault"] = {"idle": 4}
            vb = verbose_steps()
            scenarios.append(("verbose-hangup", [vb["hangup-check-verbose"], probe(), stop_step()]))
            scenarios.append(("verbose-check-then-hangup", [vb["check-verbose"], vb["hangup-check-verbose"], probe(), stop_step()]))
            sopts["verbose-hangup"] = sopts["verbose-check-then-hangup"] = {"verbose": True}
            futs = [ex.submit(run_scenario, steps, fs, sopts.get(n)) for n, steps in scenarios]
            cli = ("cli-start", [probe(), faults["unknown-command"], faults["close@0"], probe(), stop_step()])
            scenarios.append(cli)
            futs.append(ex.submit(run_scenario, cli[1], None))
            results: list[dict[str, Any]] = []
            for fu in futs:
                try:
                    results.append(fu.result(timeout=1800))
                except Exception as e:  # noqa
                    results.append({"error": repr(e)})
            # phase 2: checks interleaved with the faults the daemon survives (as observed in phase 1; on a
            #          daemon that survives nothing this still runs the clean edit/check session)
            survivors = [n for (n, st), r in zip(scenarios, results) if n in faults and r.get("replies", [0, 0])[1] == 5
                         and n not in ("two-frames", "malformed-stop")]
            ctx.cov["serve_faults_survived"] = len(survivors)
            heavy: list[tuple[str, list[Step]]] = []
            for h in range(ctx.n(2, 6)):
                order = list(survivors)
                rng.shuffle(order)
                if ctx.quick:
                    order = [n for n in order if not n.startswith("close@")] + [n for n in order if n.startswith("close@")][:12]
                    rng.shuffle(order)
                half = len(order) // 2
                seq = [check_step("v1")]
                for n in order[:half]:
                    seq += [faults[n]] + ([probe()] if rng.random() < 0.3 else [])
                seq.append(check_step("v2", edit=V2))
                for n in order[half:]:
                    seq += [faults[n]] + ([probe()] if rng.random() < 0.3 else [])
                seq += [check_step("v1", edit=V1), check_step("v1"), stop_step()]
                heavy.append((f"checks{h}", seq))
            if not ctx.quick:
                for n in faults:
                    heavy.append((f"heavy-{n}", [faults[n], probe(), check_step("v1"), faults[n], check_step("v2", edit=V2), stop_step()]))
            hf = [ex.submit(run_scenario, steps, fs) for _, steps in heavy]
            for fu in hf:
                try:
                    results.append(fu.result(timeout=1800))
                except Exception as e:  # noqa
                    results.append({"error": repr(e)})
            scenarios += heavy
            fresh = {v: f.result(timeout=1800) for v, f in fresh_f.items()}
    finally:
        fs.close()
    ctx.log(f"(b) serve: {len(scenarios)} scenarios on real daemons ({len(faults)} client faults incl. early close at each of "
            f"{nclose} byte offsets; {len(survivors)} survived) in {time.time()-t:.1f}s")
    # ---- model predictions
    header = ("From Coq Require Import ZArith List Bool.\nFrom C16 Require Import Bytes Shape Model Serve ServeInst.\n"
              "From Gen Require Import Frame ServeShape.\nImport ListNotations.\n")
    exprs = [f"esession current_shape {'true' if sopts.get(n, {}).get('idle') else 'false'} [" + "; ".join(model_event(st) for st in steps) + "]"
             for n, steps in scenarios]
    # no shape extracted (broken T, already reported): there is no model of the current loop to compare with;
    # the S oracle below still runs on the implementation
    model = ctx.eval_cases("serve", header, exprs, per_file=12) if shape_flags is not None else None
    injected = 0
    for i, ((name, steps), res) in enumerate(zip(scenarios, results)):
        if "error" in res:
            ctx.broke("C", "daemon scenario glue", f"{name}: {res['error']}")
            continue
        obs = f"([{'; '.join(str(r) for r in res['replies'])}], ({'true' if res['serving'] else 'false'}, {'true' if res['status_file'] else 'false'})"
        if model is not None:
            m = model[i].replace("%Z", "")
            mo = re.match(r"\(\[(.*?)\],\((true|false),(true|false)\),(true|false),\[", m.replace(" ", ""))
            # process still there (serving, or blocked in recv on a stalled client) / status file present
            mm = f"([{mo.group(1)}], ({mo.group(2)}, {mo.group(3)})" if mo else m
            if mm.replace(" ", "") != obs.replace(" ", ""):
                ctx.broke("C", "serve model vs real daemon", f"scenario {name} [{', '.join(s.name for s in steps)}]: model {mm} daemon {obs}",
                          {"scenario": name, "steps": [s.name for s in steps], "model": m, "daemon": obs, "log": res["log"][-600:]})
            ctx.add("traces_validated_against_impl", 1)
        # ---- S: the property's oracle on the implementation alone
        stopped = False
        dead_after: str | None = None
        for j, (st, code) in enumerate(zip(steps, res["replies"])):
            if st.fault:
                injected += 1
            if dead_after is None and not stopped:
                if st.fault is None and st.kind == "conn" and st.name != "stop" and code != 5:
                    # a well-formed request not answered: the culprit is among the faults since the last answered
                    # request.  One candidate: exact.  Several (multi-fault sessions): skip when a single-fault
                    # scenario has already pinned one of them, else report the sequence.
                    last_ok = max([i2 for i2 in range(j) if steps[i2].fault is None and res["replies"][i2] == 5], default=-1)
                    prev = [s2 for s2 in steps[last_ok + 1:j] if s2.fault]
                    have = {v.key for v in ctx.violations}
                    if len(prev) > 1 and any(s2.fault in have or f"F3:{s2.name}-breaks-daemon" in have for s2 in prev):
                        dead_after = "+".join(s2.name for s2 in prev)
                        continue
                    cls = prev[-1].fault if len(prev) == 1 else ("F3:sequence:" + "+".join(s2.name for s2 in prev) if prev else "F3:well-formed-request-unanswered")
                    blame = "+".join(s2.name for s2 in prev) if prev else "-"
                    if len(prev) == 1 and prev[-1].name == "two-frames" and code != 0:
                        cls = "F3:leftover-bytes-answered-to-next-client"
                    what = WHAT.get(cls or "", "")
                    key = cls if cls and not cls.endswith("-fault") else f"F3:{blame}-breaks-daemon"
                    if len(prev) == 1 and prev[-1].name == "two-frames" and code == 0:
                        key = "F3:two-frames-breaks-daemon"
                    ctx.violation(key, f"after client fault `{blame}` the daemon does not answer a later `{st.name}` request "
                                  f"(reply {REPLY_NAMES[code]}); {what}",
                                  {"kind": "serve", "scenario": name, "opts": sopts.get(name, {}), "steps": [s.name for s in steps], "replies": res["replies"],
                                   "fault": blame, "log": res["log"][-800:]})
                    dead_after = blame
                elif st.expect_check and code == 5:
                    out = res["finals"][j] or {}
                    got = f"{out.get('status')}\n{out.get('out', '')}"
                    if got != fresh[st.expect_check]:
                        prev = [s for s in steps[:j] if s.fault]
                        blame = prev[-1].name if prev else "-"
                        ctx.violation(f"F3:check-differs-after:{blame}", f"check after fault `{blame}` differs from a fresh mypy run: {got[:200]!r} vs {fresh[st.expect_check][:200]!r}",
                                      {"kind": "serve", "scenario": name, "opts": sopts.get(name, {}), "steps": [s.name for s in steps], "got": got, "fresh": fresh[st.expect_check]})
            if st.name == "stop" and code == 6:
                stopped = True
        if not res["serving"] and res["status_file"]:
            prev = [s for s in steps if s.fault]
            blame = prev[-1] if prev else None
            key = "F3:malformed-stop-leaves-status-file" if blame is not None and any(s.name == "malformed-stop" for s in steps) else f"F3:status-file-remains:{name}"
            ctx.violation(key, f"scenario {name}: the daemon has exited but its status file is still there",
                          {"kind": "serve", "scenario": name, "opts": sopts.get(name, {}), "steps": [s.name for s in steps], "replies": res["replies"], "log": res["log"][-800:]})
        if res["serving"] and stopped:
            ctx.violation(f"F3:alive-after-stop:{name}", f"scenario {name}: daemon still serving after stop", {"kind": "serve", "scenario": name})
    # the idle exit (`dmypy start --timeout N`: accept times out, IPCException leaves the loop through `finally`)
    # must also remove the status file.  Only waits, never asserts on elapsed time.
    d = Daemon(None)
    try:
        d.start(extra=["--timeout", "5"])
        if d.wait_dead(120):
            ctx.cov["idle_timeout_exit"] = "daemon exited after idling; status file " + ("REMAINS" if os.path.exists(d.status_file) else "removed")
            if os.path.exists(d.status_file):
                ctx.violation("F3:status-file-remains:idle-timeout", "the daemon exited on its idle timeout but its status file is still there",
                              {"kind": "serve-timeout"})
        else:
            ctx.cov["idle_timeout_exit"] = "daemon still alive 120 s after --timeout 5 (not judged)"
    except Exception as e:  # noqa
        ctx.cov["idle_timeout_exit"] = "not run: " + repr(e)[:200]
    finally:
        d.cleanup()
    ctx.add("evaluations", len(scenarios))
    ctx.cov["serve_scenarios"] = len(scenarios)
    ctx.cov["serve_faults_injected"] = injected
    ctx.cov["serve_shape"] = shape_flags
    k = [n for n, _ in scenarios].index("two-frames")
    ctx.sample({"scenario": [s.name for s in scenarios[k][1]], "daemon_replies": [REPLY_NAMES[c] for c in results[k].get("replies", [])],
                "model": model[k] if model else None})
    k = [n for n, _ in scenarios].index("close@0")
    ctx.sample({"scenario": [s.name for s in scenarios[k][1]], "daemon_replies": [REPLY_NAMES[c] for c in results[k].get("replies", [])],
                "serving": results[k].get("serving"), "status_file": results[k].get("status_file"), "model": model[k] if model else None})


# =========================================================================================== run

def run(ctx: vlib.Ctx) -> None:
    ctx.cov["rule"] = ("(a) every segmentation (2^(n-1)) of every stream of <= 12 bytes that is a prefix of a wire stream or malformed, "
                       "through a real socketpair into the real IPCBase.read_bytes; random message lists / segmentations beyond "
                       "(non-trivial = at least one frame completes across a chunk boundary or a partial frame is pending at EOF); "
                       "(b) every client behaviour x position in a session against a real daemon")
    ctx.assumptions += [
        "args_validated is read off run_command's inspect.signature(method).bind check; its `except ValueError: pass` (no introspectable "
        "signature, e.g. compiled mypy) is assumed not to occur: the daemon under test is the interpreted one",
        "POSIX branch of mypy/ipc.py only (the win32 named-pipe code is not modelled)",
        "recv on a stream socket returns b'' only when the peer has closed; a zero-length write produces no read event (Model.feed)",
        "memoryview()/bytes() in frame_from_buffer are value-preserving (no in-place mutation of the viewed bytearray in between): checked by correspondence",
        "translator tools/extractors/t16.py (subclass of py2gallina.Translator) checked by self-correspondence on every run",
        "extraction: ExtrOcamlBasic only; OCaml driver tools/ocaml/c16_driver.ml (I/O and reader loops)",
    ]
    shape_flags = None
    try:
        t16.generate()
        shape_flags = t16.gen_shape()[1]
    except Unsupported as e:
        ctx.broke("T", "t16 translator", str(e))
    except Exception as e:  # noqa
        ctx.broke("T", "t16 translator", repr(e))
    ctx.prove("C16/Properties.v", ["C16", "lib"])
    # audit of this property's generated files (coq/gen is shared with other properties)
    for g in ("Frame.v", "ServeShape.v"):
        try:
            src = vlib.strip_coq_comments(open(os.path.join(vlib.GEN, g), encoding="utf-8").read())
        except OSError as e:
            ctx.broke("A", "gen/" + g, repr(e))
            continue
        bad = [m.group(0) for m in vlib.BANNED.finditer(src)] + [w for w in ("Variable", "Hypothesis", "Context") if w in src.split()]
        if bad:
            ctx.broke("A", "gen/" + g, "banned constructs: " + ", ".join(bad))
    exe = vlib.build_extracted("c16", "C16/Extract.v", "tools/ocaml/c16_driver.ml")
    if exe is None:
        ctx.broke("C", "extraction", "extracted model does not build")
    framing_stage(ctx, exe)
    try:
        client_stage(ctx, exe)
    except Exception as e:  # noqa
        ctx.broke("C", "client stage glue", repr(e))
    if shape_flags is not None:
        repaired = all(shape_flags[k] for k in ("recv_catch_os", "recv_catch_unicode", "reset_on_accept", "args_validated", "send_guarded"))
        ctx.cov["stall_verdict"] = ("stalled_client_does_not_block_forever applies" if shape_flags["conn_timeout"] else "stalled_client_blocks_refuted applies (accepted connection has no receive timeout)")
        ctx.cov["output_verdict"] = ("WriteToConn tolerates a gone client" if shape_flags["stdout_guarded"] else "hangup_during_output_refuted applies (WriteToConn.write unguarded)")
        ctx.cov["serve_loop_verdict"] = ("daemon_survives / failed_request_preserves_state / later_requests_unaffected / status_file_removed_on_exit "
                                         "apply (repaired loop)" if repaired else
                                         "daemon_survives_refuted applies (receive() unguarded)" if not shape_flags["recv_catch_os"] else
                                         "partially repaired loop: no theorem applies")
        if not repaired and shape_flags["recv_catch_os"]:
            ctx.broke("P", "serve_loop_verdict", f"the serve loop is only partially repaired, neither daemon_survives nor its refutation applies: {shape_flags}")
    serve_stage(ctx, shape_flags)
    ctx.cov["distinct_nontrivial"] = ctx.cov.get("framing_delivered_intact", 0) + ctx.cov.get("serve_faults_injected", 0)


def replay(ctx: vlib.Ctx, path: str) -> None:
    d = json.load(open(path))
    print(json.dumps(d, indent=1)[:3000])
    r = d.get("replay", {})
    if r.get("kind") == "framing":
        chunks = [bytes.fromhex(c) for c in r["chunks"]]
        frames, st, _ = impl_read(chunks, len(r["msgs"]) if r.get("mode") == "n" else None)
        print("chunks:", [c.hex() for c in chunks])
        print("reader got:", [f.hex() for f in frames], st)
        if "msgs" in r:
            print("written   :", r["msgs"])
        return
    if r.get("kind") == "serve" and r.get("steps"):
        # re-run the scenario against a daemon started through the genuine `dmypy start` command line
        try:
            flags = t16.gen_shape()[1]
        except Exception:  # noqa
            flags = {}
        faults = fault_steps(bool(flags.get("args_validated")))
        steps = []
        vb = verbose_steps()
        for n in r["steps"]:
            steps.append(faults[n] if n in faults else vb[n] if n in vb else idle_step() if n == "idle" else
                         stalled_step(int(n.split("@")[1])) if n.startswith("stalled@") else stop_step() if n == "stop" else
                         check_step(n[6:], edit={"v1": V1, "v2": V2}[n[6:]]) if n.startswith("check-") else probe(n))
        res = run_scenario(steps, None, r.get("opts") or None)
        for st, code in zip(steps, res["replies"]):
            print(f"  {st.name:22s} -> {REPLY_NAMES[code]}")
        print("daemon still serving:", res["serving"], " status file present:", res["status_file"])
        print("daemon log tail:\n" + res["log"][-1200:])
        return
    run(ctx)
