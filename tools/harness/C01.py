"""C01 — accepted programs do not go wrong (partial: MiniPy core calculus + differential search).

P+A : coq/C01 (Lang, Eval, Check, Proofs*, Properties)
C   : generated MiniPy programs (+ single-edit perturbations, + hand-written corpus):
      (a) real mypy verdict / first error line per definition / revealed types / unreachable lines
          vs the extracted checker model;  (b) CPython run with recording probes vs the extracted evaluator.
S   : mypy-accepted programs (MiniPy and a wider generator) run under CPython: TypeError/AttributeError,
      probe value outside the revealed type, or execution of a line mypy reported unreachable.
"""
from __future__ import annotations

import copy
import json
import os
import re
import shutil
import subprocess
import sys
import tempfile
from typing import Any

import vlib

# ---------------------------------------------------------------------------------------------
# MiniPy AST on the Python side (nested tuples; blocks are lists of statements)
#   ty   : ('i',) ('b',) ('s',) ('n',) ('C', c) ('U', [ty]) ('T', [ty])
#   expr : ('v', x) ('I', z) ('B', b) ('N',) ('S', text) ('new', c, [e]) ('attr', e, a) ('cm', e, m, [e])
#          ('cf', f, [e]) ('bin', op, e, e) ('isn', e) ('inn', e) ('isi', e, cref) ('not', e) ('and', e, e)
#          ('or', e, e) ('tup', [e]) ('idx', e, i) ('if', c, e, e) ('rev', e)
#   cref : ('ki',) ('kb',) ('ks',) ('kc', c)
#   stmt : ('as', x, e) ('de', x, ty, e) ('sif', c, [s], [s]) ('wh', c, [s]) ('ret', e) ('ast', e) ('pass',) ('ex', e)
#   fdecl: {'params': [(x, ty)], 'ret': ty, 'body': [s]}
#   class: {'id': c, 'bases': [c], 'mro': [c], 'fields': [(a, ty)], 'methods': [(m, fdecl)]}
#   prog : {'classes': [class], 'funcs': [(f, fdecl)]}
# ---------------------------------------------------------------------------------------------

INT, BOOL, STR, NONE = ('i',), ('b',), ('s',), ('n',)


def zt(n: int) -> str:
    return ("-" if n < 0 else "") + bin(abs(n))[2:]


def ty_py(t) -> str:
    k = t[0]
    if k == 'i':
        return "int"
    if k == 'b':
        return "bool"
    if k == 's':
        return "str"
    if k == 'n':
        return "None"
    if k == 'C':
        return cname(t[1])
    if k == 'U':
        return "Union[" + ", ".join(ty_py(x) for x in t[1]) + "]"
    if k == 'T':
        return "Tuple[" + ", ".join(ty_py(x) for x in t[1]) + "]" if t[1] else "Tuple[()]"
    raise ValueError(t)


def cname(c: int) -> str:
    return "Exception" if c == 0 else f"C{c}"


def ty_tok(t) -> list[str]:
    k = t[0]
    if k in 'ibsn':
        return [k]
    if k == 'C':
        return ['C', str(t[1])]
    out = [k, str(len(t[1]))]
    for x in t[1]:
        out += ty_tok(x)
    return out


def ty_canon(t) -> str:
    """same canonical text as the OCaml driver's ty_s"""
    k = t[0]
    if k == 'i':
        return "int"
    if k == 'b':
        return "bool"
    if k == 's':
        return "str"
    if k == 'n':
        return "None"
    if k == 'C':
        return f"C{t[1]}"
    if k == 'U':
        return "Never" if not t[1] else "Union[" + ",".join(sorted(set(ty_canon(x) for x in t[1]))) + "]"
    return "Tuple[" + ",".join(ty_canon(x) for x in t[1]) + "]"


def var_py(x: int) -> str:
    return "self" if x == 0 else f"v{x}"


OPS = {'+': '+', '-': '-', '*': '*', '=': '==', '<': '<'}


def cref_py(k) -> str:
    return {'ki': 'int', 'kb': 'bool', 'ks': 'str'}.get(k[0]) or cname(k[1])


def expr_py(e) -> str:
    k = e[0]
    if k == 'v':
        return var_py(e[1])
    if k == 'I':
        return str(e[1]) if e[1] >= 0 else f"({e[1]})"
    if k == 'B':
        return "True" if e[1] else "False"
    if k == 'N':
        return "None"
    if k == 'S':
        return repr(e[1])
    if k == 'new':
        return f"{cname(e[1])}(" + ", ".join(expr_py(a) for a in e[2]) + ")"
    if k == 'attr':
        return f"{expr_py(e[1])}.a{e[2]}"
    if k == 'cm':
        return f"{expr_py(e[1])}.m{e[2]}(" + ", ".join(expr_py(a) for a in e[3]) + ")"
    if k == 'cf':
        return f"f{e[1]}(" + ", ".join(expr_py(a) for a in e[2]) + ")"
    if k == 'bin':
        return f"({expr_py(e[2])} {OPS[e[1]]} {expr_py(e[3])})"
    if k == 'isn':
        return f"({expr_py(e[1])} is None)"
    if k == 'inn':
        return f"({expr_py(e[1])} is not None)"
    if k == 'isi':
        return f"isinstance({expr_py(e[1])}, {cref_py(e[2])})"
    if k == 'isl':
        return f"isinstance({expr_py(e[1])}, (" + ", ".join(cref_py(c) for c in e[2]) + "))"
    if k == 'not':
        return f"(not {expr_py(e[1])})"
    if k == 'and':
        return f"({expr_py(e[1])} and {expr_py(e[2])})"
    if k == 'or':
        return f"({expr_py(e[1])} or {expr_py(e[2])})"
    if k == 'tup':
        return "(" + ", ".join(expr_py(a) for a in e[1]) + ("," if len(e[1]) == 1 else "") + ")"
    if k == 'idx':
        return f"{expr_py(e[1])}[{e[2]}]"
    if k == 'if':
        return f"({expr_py(e[2])} if {expr_py(e[1])} else {expr_py(e[3])})"
    if k == 'rev':
        return f"reveal_type({expr_py(e[1])})"
    raise ValueError(e)


def expr_tok(e, line: int) -> list[str]:
    k = e[0]
    if k == 'v':
        return ['v', str(e[1])]
    if k == 'I':
        return ['I', zt(e[1])]
    if k == 'B':
        return ['B', '1' if e[1] else '0']
    if k == 'N':
        return ['N']
    if k == 'S':
        return ['S', str(len(e[1]))] + [str(ord(c)) for c in e[1]]
    if k == 'new':
        return ['new', str(e[1]), str(len(e[2]))] + [t for a in e[2] for t in expr_tok(a, line)]
    if k == 'attr':
        return ['attr'] + expr_tok(e[1], line) + [str(e[2])]
    if k == 'cm':
        return ['cm'] + expr_tok(e[1], line) + [str(e[2]), str(len(e[3]))] + [t for a in e[3] for t in expr_tok(a, line)]
    if k == 'cf':
        return ['cf', str(e[1]), str(len(e[2]))] + [t for a in e[2] for t in expr_tok(a, line)]
    if k == 'bin':
        return ['bin', e[1]] + expr_tok(e[2], line) + expr_tok(e[3], line)
    if k in ('isn', 'inn', 'not'):
        return [k] + expr_tok(e[1], line)
    if k == 'isi':
        return ['isi'] + expr_tok(e[1], line) + ([e[2][0]] + ([str(e[2][1])] if e[2][0] == 'kc' else []))
    if k == 'isl':
        return ['isl'] + expr_tok(e[1], line) + [str(len(e[2]))] + [t for c in e[2] for t in ([c[0]] + ([str(c[1])] if c[0] == 'kc' else []))]
    if k in ('and', 'or'):
        return [k] + expr_tok(e[1], line) + expr_tok(e[2], line)
    if k == 'tup':
        return ['tup', str(len(e[1]))] + [t for a in e[1] for t in expr_tok(a, line)]
    if k == 'idx':
        return ['idx'] + expr_tok(e[1], line) + [str(e[2])]
    if k == 'if':
        return ['if'] + expr_tok(e[1], line) + expr_tok(e[2], line) + expr_tok(e[3], line)
    if k == 'rev':
        return ['rev', str(line)] + expr_tok(e[1], line)
    raise ValueError(e)


class Emit:
    """prints a program as Python source and, in the same pass, as driver tokens (labels = line numbers)"""

    def __init__(self) -> None:
        self.lines: list[str] = []
        self.seen: set[int] = set()
        self.except_of: dict[int, int] = {}

    def line(self, s: str) -> int:
        self.lines.append(s)
        return len(self.lines)

    def block(self, body: list, ind: str) -> list[str]:
        if not body:
            body = [('pass',)]
        toks: list[list[str]] = [self.stmt(s, ind) for s in body]
        out = toks[-1]
        for t in reversed(toks[:-1]):
            out = ['seq'] + t + out
        return out

    def stmt(self, s, ind: str, elif_: bool = False) -> list[str]:
        k = s[0]
        if k == 'as':
            n = self.line(f"{ind}{var_py(s[1])} = {expr_py(s[2])}")
            first = s[1] not in self.seen
            self.seen.add(s[1])
            return ['lab', str(n), 'df' if first else 'as', str(s[1])] + expr_tok(s[2], n)
        if k == 'aug':
            n = self.line(f"{ind}{var_py(s[1])} {OPS[s[2]]}= {expr_py(s[3])}")
            return ['lab', str(n), 'as', str(s[1])] + expr_tok(('bin', s[2], ('v', s[1]), s[3]), n)
        if k == 'de':
            n = self.line(f"{ind}{var_py(s[1])}: {ty_py(s[2])} = {expr_py(s[3])}")
            self.seen.add(s[1])
            return ['lab', str(n), 'de', str(s[1])] + ty_tok(s[2]) + expr_tok(s[3], n)
        if k == 'ret':
            n = self.line(f"{ind}return {expr_py(s[1])}")
            return ['lab', str(n), 'ret'] + expr_tok(s[1], n)
        if k == 'ast':
            n = self.line(f"{ind}assert {expr_py(s[1])}")
            return ['lab', str(n), 'ast'] + expr_tok(s[1], n)
        if k == 'pass':
            n = self.line(f"{ind}pass")
            return ['lab', str(n), 'pass']
        if k == 'ex':
            n = self.line(f"{ind}{expr_py(s[1])}")
            return ['lab', str(n), 'ex'] + expr_tok(s[1], n)
        if k == 'wh':
            n = self.line(f"{ind}while {expr_py(s[1])}:")
            c = expr_tok(s[1], n)
            b = self.block(s[2], ind + "    ")
            els = s[3] if len(s) > 3 else []
            if els:
                self.line(f"{ind}else:")
            return ['lab', str(n), 'wh'] + c + b + (self.block(els, ind + "    ") if els else ['pass'])
        if k == 'for':
            it = f"range({expr_py(s[3])})" if s[2] else expr_py(s[3])
            n = self.line(f"{ind}for {var_py(s[1])} in {it}:")
            c = expr_tok(s[3], n)
            self.seen.add(s[1])
            b = self.block(s[4], ind + "    ")
            if s[5]:
                self.line(f"{ind}else:")
            return ['lab', str(n), 'for', str(s[1]), '1' if s[2] else '0'] + c + b + (self.block(s[5], ind + "    ") if s[5] else ['pass'])
        if k == 'brk':
            n = self.line(f"{ind}break")
            return ['lab', str(n), 'brk']
        if k == 'cont':
            n = self.line(f"{ind}continue")
            return ['lab', str(n), 'cont']
        if k == 'raise':
            n = self.line(f"{ind}raise {cname(s[1])}(" + ", ".join(expr_py(a) for a in s[2]) + ")")
            return ['lab', str(n), 'raise', str(s[1]), str(len(s[2]))] + [t for a in s[2] for t in expr_tok(a, n)]
        if k == 'try':
            n = self.line(f"{ind}try:")
            b = self.block(s[1], ind + "    ")
            ne = self.line(f"{ind}except {cname(s[2])}" + (f" as {var_py(s[3])}" if s[3] is not None else "") + ":")
            self.except_of[n] = ne
            if s[3] is not None:
                self.seen.add(s[3])
            h = self.block(s[4], ind + "    ")
            if s[5]:
                self.line(f"{ind}else:")
            e = self.block(s[5], ind + "    ") if s[5] else ['pass']
            return ['lab', str(n), 'try'] + b + [str(s[2])] + (['xs', str(s[3])] if s[3] is not None else ['xn']) + h + e
        if k == 'fin':
            n = self.line(f"{ind}try:")
            b = self.block(s[1], ind + "    ")
            self.line(f"{ind}finally:")
            f = self.block(s[2], ind + "    ")
            return ['lab', str(n), 'fin'] + b + f
        if k == 'sif':
            n = self.line(f"{ind}{'elif' if elif_ else 'if'} {expr_py(s[1])}:")
            c = expr_tok(s[1], n)
            a = self.block(s[2], ind + "    ")
            els = s[3]
            if not els:
                b = ['pass']
            elif len(els) == 1 and els[0][0] == 'sif':
                b = self.stmt(els[0], ind, elif_=True)
            else:
                self.line(f"{ind}else:")
                b = self.block(els, ind + "    ")
            return ['lab', str(n), 'sif'] + c + a + b
        raise ValueError(s)

    def fdecl(self, name: str, fd: dict, ind: str, self_param: bool) -> list[str]:
        ps = (["self"] if self_param else []) + [f"{var_py(x)}: {ty_py(t)}" for x, t in fd['params']]
        n = self.line(f"{ind}def {name}({', '.join(ps)}) -> {ty_py(fd['ret'])}:")
        fd['_line'] = n
        self.seen = {0} | {x for x, _ in fd['params']}
        body = self.block(fd['body'], ind + "    ")
        fd['_end'] = len(self.lines)
        out = ['fun', str(n), str(len(fd['params']))]
        for x, t in fd['params']:
            out += [str(x)] + ty_tok(t)
        return out + ty_tok(fd['ret']) + body

    def prog(self, p: dict) -> tuple[str, list[str]]:
        self.line("from __future__ import annotations")
        self.line("from typing import Optional, Union, Tuple")
        toks = ['prog', str(len(p['classes']))]
        for c in p['classes']:
            if c['id'] == 0:
                c['_line'], c['_end'] = 0, 0
                toks += ['cls', '0', '0', '1', '0', '0', '0']
                continue
            bases = ", ".join(cname(b) for b in c['bases'])
            n = self.line(f"class C{c['id']}" + (f"({bases})" if bases else "") + ":")
            c['_line'] = n
            for a, t in c['fields']:
                self.line(f"    a{a}: {ty_py(t)}")
            init = ", ".join(["self"] + [f"a{a}: {ty_py(t)}" for a, t in c['fields']])
            self.line(f"    def __init__({init}) -> None:")
            for a, t in c['fields']:
                self.line(f"        self.a{a} = a{a}")
            if not c['fields']:
                self.line("        pass")
            toks += ['cls', str(c['id']), str(n), str(len(c['mro']))] + [str(x) for x in c['mro']]
            toks += [str(len(c['fields']))]
            for a, t in c['fields']:
                toks += [str(a)] + ty_tok(t)
            toks += [str(len(c['methods']))]
            for m, fd in c['methods']:
                toks += [str(m)] + self.fdecl(f"m{m}", fd, "    ", True)
            c['_end'] = len(self.lines)
        toks += [str(len(p['funcs']))]
        for f, fd in p['funcs']:
            toks += [str(f)] + self.fdecl(f"f{f}", fd, "", False)
        return "\n".join(self.lines) + "\n", toks


def emit(p: dict) -> tuple[str, list[str]]:
    e = Emit()
    r = e.prog(p)
    p['_except_of'] = e.except_of       # try line -> line of its except clause (mypy reports handler-class errors there)
    return r


def defs_of(p: dict) -> list[tuple[str, int, int]]:
    """(kind, first line, last line) per definition in the order of Check.check_defs (after emit)"""
    out = []
    for c in p['classes']:
        first_m = min([fd['_line'] for _, fd in c['methods']], default=c['_end'] + 1)
        out.append((f"class C{c['id']}", c['_line'], first_m - 1))
        for m, fd in c['methods']:
            out.append((f"C{c['id']}.m{m}", fd['_line'], fd['_end']))
    for f, fd in p['funcs']:
        out.append((f"f{f}", fd['_line'], fd['_end']))
    return out


# ---------------------------------------------------------------------------------------------
# values:  ['i', n] ['b', 0|1] ['s', text] ['n'] ['t', [v]] ['o', c, [[a, v]]]
# ---------------------------------------------------------------------------------------------

def val_canon(v) -> str:
    k = v[0]
    if k == 'i':
        return "i" + zt(v[1])
    if k == 'b':
        return f"b{int(v[1])}"
    if k == 's':
        return "s[" + ",".join(str(ord(c)) for c in v[1]) + "]"
    if k == 'n':
        return "n"
    if k == 't':
        return "t(" + ",".join(val_canon(x) for x in v[1]) + ")"
    if k == 'o':
        return f"o{v[1]}{{" + ",".join(f"{a}={val_canon(x)}" for a, x in v[2]) + "}"
    raise ValueError(v)


def val_tok(v) -> list[str]:
    k = v[0]
    if k == 'i':
        return ['i', zt(v[1])]
    if k == 'b':
        return ['b', str(int(v[1]))]
    if k == 's':
        return ['s', str(len(v[1]))] + [str(ord(c)) for c in v[1]]
    if k == 'n':
        return ['n']
    if k == 't':
        return ['t', str(len(v[1]))] + [t for x in v[1] for t in val_tok(x)]
    if k == 'o':
        return ['o', str(v[1]), str(len(v[2]))] + [t for a, x in v[2] for t in [str(a)] + val_tok(x)]
    raise ValueError(v)


def val_py(v) -> str:
    k = v[0]
    if k == 'i':
        return str(v[1])
    if k == 'b':
        return "True" if v[1] else "False"
    if k == 's':
        return repr(v[1])
    if k == 'n':
        return "None"
    if k == 't':
        return "(" + ", ".join(val_py(x) for x in v[1]) + ("," if len(v[1]) == 1 else "") + ")"
    if k == 'o':
        return f"{cname(v[1])}(" + ", ".join(val_py(x) for _, x in v[2]) + ")"
    raise ValueError(v)


def class_by_id(p: dict, c: int) -> dict | None:
    return next((k for k in p['classes'] if k['id'] == c), None)


def member(p: dict, v, t) -> bool:
    """runtime value v is a member of static type t (bool is a subclass of int)"""
    k = t[0]
    if k == 'U':
        return any(member(p, v, x) for x in t[1])
    if k == 'i':
        return v[0] in ('i', 'b')
    if k == 'b':
        return v[0] == 'b'
    if k == 's':
        return v[0] == 's'
    if k == 'n':
        return v[0] == 'n'
    if k == 'T':
        return v[0] == 't' and len(v[1]) == len(t[1]) and all(member(p, a, b) for a, b in zip(v[1], t[1]))
    if k == 'C':
        if v[0] != 'o':
            return False
        cd = class_by_id(p, v[1])
        if cd is None or t[1] not in cd['mro']:
            return False
        fields = dict(cd['fields'])
        return all(a in fields and member(p, x, fields[a]) for a, x in v[2]) and len(v[2]) == len(cd['fields'])
    return False


# ---------------------------------------------------------------------------------------------
# mypy's type strings -> ty
# ---------------------------------------------------------------------------------------------

class TypeParseError(Exception):
    pass


def parse_mypy_type(s: str):
    pos = 0

    def peek(tok: str) -> bool:
        return s.startswith(tok, pos)

    def eat(tok: str) -> None:
        nonlocal pos
        if not s.startswith(tok, pos):
            raise TypeParseError(f"expected {tok!r} at {pos} in {s!r}")
        pos += len(tok)

    def union():
        nonlocal pos
        its = [item()]
        while peek(" | "):
            eat(" | ")
            its.append(item())
        return its[0] if len(its) == 1 else ('U', its)

    def item():
        nonlocal pos
        if peek("Literal["):
            eat("Literal[")
            if peek("'"):
                end = s.index("'", pos + 1)
                pos = end + 1
                r = STR
            elif peek("True") or peek("False"):
                pos += 4 if peek("True") else 5
                r = BOOL
            else:
                m = re.compile(r"-?\d+").match(s, pos)
                if not m:
                    raise TypeParseError(s)
                pos = m.end()
                r = INT
            eat("]")
            if peek("?"):
                eat("?")
            return r
        if peek("tuple["):
            eat("tuple[")
            if peek("()]"):
                eat("()]")
                return ('T', [])
            its = [union()]
            while peek(", "):
                eat(", ")
                its.append(union())
            eat("]")
            return ('T', its)
        m = re.compile(r"[A-Za-z_][\w.]*").match(s, pos)
        if not m:
            raise TypeParseError(f"bad type {s!r} at {pos}")
        pos = m.end()
        name = m.group(0).split(".")[-1]
        if name in ("int", "str", "bool"):
            return {"int": INT, "str": STR, "bool": BOOL}[name]
        if name == "None":
            return NONE
        if name == "Never":
            return ('U', [])
        if name == "Exception":
            return ('C', 0)
        mm = re.fullmatch(r"C(\d+)", name)
        if mm:
            return ('C', int(mm.group(1)))
        raise TypeParseError(f"unknown type name {name!r} in {s!r}")

    t = union()
    if pos != len(s):
        raise TypeParseError(f"trailing text in {s!r}")
    return t


def norm_ty(t):
    """flatten unions, drop duplicates, bool absorbed by int (after Literal erasure)"""
    k = t[0]
    if k == 'T':
        return ('T', [norm_ty(x) for x in t[1]])
    if k != 'U':
        return t
    its: list = []
    for x in t[1]:
        x = norm_ty(x)
        for y in (x[1] if x[0] == 'U' else [x]):
            if y not in its:
                its.append(y)
    if INT in its and BOOL in its:
        its.remove(BOOL)
    return its[0] if len(its) == 1 else ('U', its)


def parse_canon(c: str):
    """canonical type text (ty_canon / the OCaml driver's ty_s) -> ty"""
    def split(body: str) -> list[str]:
        out, depth, cur = [], 0, ""
        for ch in body:
            if ch == "," and depth == 0:
                out.append(cur)
                cur = ""
                continue
            depth += ch == "["
            depth -= ch == "]"
            cur += ch
        return out + ([cur] if cur or out else [])
    if c == "Never":
        return ('U', [])
    if c in ("int", "bool", "str", "None"):
        return {"int": INT, "bool": BOOL, "str": STR, "None": NONE}[c]
    if c.startswith("Union["):
        return ('U', [parse_canon(x) for x in split(c[6:-1])])
    if c.startswith("Tuple["):
        return ('T', [parse_canon(x) for x in split(c[6:-1])])
    m = re.fullmatch(r"C(\d+)", c)
    if m:
        return ('C', int(m.group(1)))
    raise TypeParseError(f"bad canonical type {c!r}")


def union_canon(canons: list[str], p: dict | None = None) -> str:
    """simplified union of canonical type strings (probes inside loops: one per pass): an item that is a subtype of
    another item is dropped, as make_simplified_union does (classes via the MRO, tuples item-wise, bool under int)"""
    q = p if p is not None else {'classes': []}
    items: list = []
    for c in canons:
        for y in members(parse_canon(c)):
            if y not in items:
                items.append(y)
    kept: list = []
    for i, t in enumerate(items):
        if any(psub(q, t, u) for u in kept):
            continue
        if any(psub(q, t, u) and not psub(q, u, t) for u in items[i + 1:]):
            continue
        kept.append(t)
    return ty_canon(kept[0] if len(kept) == 1 else ('U', kept))


# ---------------------------------------------------------------------------------------------
# children: real mypy (one build over many modules), CPython runs
# ---------------------------------------------------------------------------------------------

MYPY_CHILD = r'''
import json, os, sys
from mypy import build
from mypy.modulefinder import BuildSource
from mypy.options import Options
job = json.load(open(sys.argv[1]))
o = Options()
o.incremental = False
o.cache_dir = os.devnull
o.error_summary = False
o.show_traceback = True
o.pretty = False
o.force_union_syntax = False
for f in ["disallow_untyped_defs", "disallow_incomplete_defs", "disallow_untyped_calls", "disallow_untyped_decorators",
          "disallow_any_generics", "disallow_any_explicit", "disallow_any_expr", "disallow_any_decorated",
          "disallow_subclassing_any", "check_untyped_defs", "warn_return_any", "warn_redundant_casts",
          "warn_unused_ignores", "warn_unreachable", "no_implicit_reexport", "extra_checks"]:
    setattr(o, f, True)
o.python_version = (3, 12)
srcs = [BuildSource(os.path.join(job["dir"], m + ".py"), m) for m in job["modules"]]
try:
    res = build.build(srcs, o)
    out = {"errors": res.errors}
except Exception as e:  # CompileError (blocking) or crash
    import traceback
    out = {"errors": list(getattr(e, "messages", [])), "crash": traceback.format_exc()}
json.dump(out, open(sys.argv[2], "w"))
'''

RUN_CHILD = r'''
import builtins, json, signal, sys
job = json.load(open(sys.argv[1]))
sys.setrecursionlimit(400)
def canon(v, depth=0):
    if depth > 20: return ["?", "deep"]
    if v is None: return ["n"]
    if isinstance(v, bool): return ["b", int(v)]
    if isinstance(v, int): return ["i", v]
    if isinstance(v, str): return ["s", v]
    if isinstance(v, tuple): return ["t", [canon(x, depth + 1) for x in v]]
    name = type(v).__name__
    if type(v) is Exception: return ["o", 0, []]
    if name[:1] == "C" and name[1:].isdigit() and type(v).__module__ == "__prog__":
        return ["o", int(name[1:]), [[int(a[1:]), canon(x, depth + 1)] for a, x in vars(v).items()]]
    return ["?", repr(type(v))]
class Timeout(Exception): pass
def on_alarm(*a): raise Timeout()
signal.signal(signal.SIGALRM, on_alarm)
results = []
for item in job["items"]:
    probes = []
    lines = set()
    tag = item["tag"]
    def reveal_type(v, _p=probes):
        _p.append([sys._getframe(1).f_lineno, canon(v)])
        return v
    def tracer(frame, event, arg, _l=lines, _t=tag):
        if frame.f_code.co_filename != _t: return None
        if event == "line": _l.add(frame.f_lineno)
        return tracer
    ns = {"__name__": "__prog__", "reveal_type": reveal_type}
    rec = {"tag": tag, "calls": []}
    try:
        exec(compile(item["src"], tag, "exec"), ns)
    except BaseException as e:
        rec["load_error"] = type(e).__name__ + ": " + str(e)[:200]
        results.append(rec); continue
    for call in item["calls"]:
        del probes[:]
        lines.clear()
        r = {}
        signal.setitimer(signal.ITIMER_REAL, 2.0)
        try:
            args = [eval(a, ns) for a in call["args"]]
            sys.settrace(tracer)
            try:
                v = ns[call["fn"]](*args)
            finally:
                sys.settrace(None)
            r["ok"] = canon(v)
        except Timeout:
            r["timeout"] = True
        except RecursionError:
            r["timeout"] = True
        except BaseException as e:
            sys.settrace(None)
            n = type(e).__name__
            if isinstance(e, NameError): n = "NameError"
            if type(e) is Exception or (n[:1] == "C" and n[1:].isdigit()):
                r["uval"] = canon(e)
                n = "User"
            r["exc"] = n
            r["msg"] = str(e)[:200]
            tb = e.__traceback__
            ln = None
            while tb is not None:
                if tb.tb_frame.f_code.co_filename == tag: ln = tb.tb_lineno
                tb = tb.tb_next
            r["line"] = ln
        finally:
            signal.setitimer(signal.ITIMER_REAL, 0)
        r["probes"] = list(probes)
        r["lines"] = sorted(lines)
        rec["calls"].append(r)
    results.append(rec)
json.dump(results, open(sys.argv[2], "w"))
'''


def run_mypy(tmp: str, mods: dict[str, str], workers: int = 8) -> dict[str, list[tuple[int, str, str, str]]]:
    """mods: module name -> source.  Returns module -> [(line, severity, message, code)]."""
    names = sorted(mods)
    for m in names:
        with open(os.path.join(tmp, m + ".py"), "w") as f:
            f.write(mods[m])
    child = os.path.join(tmp, "_mypy_child.py")
    with open(child, "w") as f:
        f.write(MYPY_CHILD)
    workers = max(1, min(workers, (len(names) + 7) // 8))
    procs = []
    for w in range(workers):
        part = names[w::workers]
        jf, of = os.path.join(tmp, f"_job{w}.json"), os.path.join(tmp, f"_out{w}.json")
        json.dump({"dir": tmp, "modules": part}, open(jf, "w"))
        procs.append((subprocess.Popen([vlib.PY, child, jf, of], env=vlib.py_env(), cwd=tmp,
                                       stdout=subprocess.PIPE, stderr=subprocess.STDOUT, text=True), of, part))
    out: dict[str, list] = {m: [] for m in names}
    for pr, of, part in procs:
        so, _ = pr.communicate(timeout=1500)
        if not os.path.exists(of):
            raise RuntimeError("mypy child failed: " + so[-2000:])
        res = json.load(open(of))
        if "crash" in res:
            for m in part:
                out[m].append((0, "crash", res["crash"][-1500:], "crash"))
        for line in res["errors"]:
            mm = re.match(r"^(?:.*/)?(\w+)\.py:(\d+): (error|note): (.*?)(?:  \[([\w-]+)\])?$", line)
            if mm and mm.group(1) in out:
                out[mm.group(1)].append((int(mm.group(2)), mm.group(3), mm.group(4), mm.group(5) or ""))
            elif mm is None and line.strip():
                for m in part:
                    out[m].append((0, "other", line, ""))
    return out


def run_cpython(tmp: str, items: list[dict], workers: int = 8) -> dict[str, dict]:
    child = os.path.join(tmp, "_run_child.py")
    with open(child, "w") as f:
        f.write(RUN_CHILD)
    workers = max(1, min(workers, (len(items) + 15) // 16))
    procs = []
    for w in range(workers):
        part = items[w::workers]
        jf, of = os.path.join(tmp, f"_rjob{w}.json"), os.path.join(tmp, f"_rout{w}.json")
        json.dump({"items": part}, open(jf, "w"))
        env = dict(os.environ, PYTHONHASHSEED="0")
        env.pop("PYTHONPATH", None)
        procs.append((subprocess.Popen([vlib.PY, "-I", child, jf, of], env=env, cwd=tmp, stdout=subprocess.PIPE,
                                       stderr=subprocess.STDOUT, text=True), of))
    out: dict[str, dict] = {}
    for pr, of in procs:
        so, _ = pr.communicate(timeout=1500)
        if not os.path.exists(of):
            raise RuntimeError("cpython child failed: " + so[-2000:])
        for rec in json.load(open(of)):
            out[rec["tag"]] = rec
    return out


def run_driver(exe: str, lines: list[str]) -> list[str]:
    p = subprocess.run([exe], input="\n".join(lines) + "\n", text=True, capture_output=True, timeout=1500)
    out = p.stdout.splitlines()
    if len(out) != len(lines):
        raise RuntimeError(f"driver returned {len(out)} lines for {len(lines)} inputs: {p.stderr[-500:]}")
    return out


# ---------------------------------------------------------------------------------------------
# generator of MiniPy programs, well-typed by construction (conservative belief tracking)
# ---------------------------------------------------------------------------------------------

def opt(t):
    return ('U', [t, NONE])


def c3(bases_mros: list[list[int]], bases: list[int]) -> list[int] | None:
    seqs = [list(m) for m in bases_mros] + [list(bases)]
    out: list[int] = []
    while True:
        seqs = [s for s in seqs if s]
        if not seqs:
            return out
        for s in seqs:
            h = s[0]
            if not any(h in t[1:] for t in seqs):
                break
        else:
            return None
        out.append(h)
        for s in seqs:
            if s[0] == h:
                del s[0]


def psub(p: dict, a, b) -> bool:
    """generator-side subtype test (same rules as the model)"""
    if a[0] == 'U':
        return all(psub(p, x, b) for x in a[1])
    if b[0] == 'U':
        return any(psub(p, a, x) for x in b[1])
    if a == b:
        return True
    if a == BOOL and b == INT:
        return True
    if a[0] == 'C' and b[0] == 'C':
        cd = class_by_id(p, a[1])
        return cd is not None and b[1] in cd['mro']
    if a[0] == 'T' and b[0] == 'T':
        return len(a[1]) == len(b[1]) and all(psub(p, x, y) for x, y in zip(a[1], b[1]))
    return False


def members(t) -> list:
    return list(t[1]) if t[0] == 'U' else [t]


def mku(ts: list):
    its: list = []
    for t in ts:
        for y in members(t):
            if y not in its:
                its.append(y)
    return its[0] if len(its) == 1 else ('U', its)


class Gen:
    def __init__(self, rng: vlib.Rng, loops: bool = True) -> None:
        self.r = rng
        self.loops = loops
        self.p: dict = {'classes': [], 'funcs': []}
        self.nfield = 0
        self.nmeth = 0

    # ---- types
    def rand_ty(self, depth: int = 1, none_ok: bool = True):
        r = self.r
        cs = [('C', c['id']) for c in self.p['classes'] if c['id'] != 0 and not c.get('exc')]
        base = [INT, INT, STR, BOOL] + cs
        k = r.random()
        if k < 0.5 or depth == 0:
            return r.choice(base)
        if k < 0.75 and none_ok:
            return opt(r.choice([INT, STR] + cs + cs))
        if k < 0.87:
            a, b = r.choice(base), r.choice(base)
            if a == b or {a, b} == {INT, BOOL}:
                return a
            return ('U', [a, b])
        return ('T', [r.choice(base) for _ in range(r.randint(1, 3))])

    # ---- classes
    def classes(self) -> None:
        r = self.r
        n = r.randint(2, 5)
        for i in range(1, n + 1):
            earlier = self.p['classes']
            bases: list[int] = []
            if earlier and r.random() < 0.75:
                bases = [r.choice(earlier)['id']]
                if len(earlier) > 1 and r.random() < 0.4:
                    b2 = r.choice(earlier)['id']
                    if b2 not in bases:
                        bases.append(b2)
            mro = self.mro_for(i, bases)
            if mro is None:
                bases = bases[:1]
                mro = self.mro_for(i, bases)
            assert mro is not None
            own = []
            for _ in range(r.choice([0, 1, 1, 2])):
                self.nfield += 1
                own.append((self.nfield, self.rand_ty()))
            cd = {'id': i, 'bases': bases, 'mro': mro, 'own': own, 'fields': [], 'methods': []}
            self.p['classes'].append(cd)
            cd['fields'] = self.all_fields(cd)
            if own and r.random() < 0.15 and len(cd['fields']) > len(own):
                # covariant redeclaration of an inherited attribute
                j = r.randrange(len(cd['fields']) - len(own))
                a, t = cd['fields'][j]
                if t == INT:
                    cd['fields'][j] = (a, BOOL)
                elif t[0] == 'U' and NONE in t[1]:
                    cd['fields'][j] = (a, mku([x for x in t[1] if x != NONE]))

    def exc_classes(self) -> None:
        """the modelled builtin Exception (class 0) and one or two user exception classes"""
        r = self.r
        self.p['classes'].insert(0, {'id': 0, 'bases': [], 'mro': [0], 'own': [], 'fields': [], 'methods': [], 'exc': True})
        top = max(c['id'] for c in self.p['classes'])
        prev = 0
        for i in range(top + 1, top + 1 + r.randint(1, 2)):
            own = []
            if r.random() < 0.5:
                self.nfield += 1
                own.append((self.nfield, r.choice([INT, STR])))
            base = prev if r.random() < 0.5 else 0
            mro = [i] + class_by_id(self.p, base)['mro']
            cd = {'id': i, 'bases': [base], 'mro': mro, 'own': own, 'fields': [], 'methods': [], 'exc': True}
            self.p['classes'].append(cd)
            cd['fields'] = self.all_fields(cd)
            prev = i

    def mro_for(self, i: int, bases: list[int]) -> list[int] | None:
        ms = [class_by_id(self.p, b)['mro'] for b in bases]
        m = c3(ms, bases)
        return None if m is None else [i] + m

    def all_fields(self, cd: dict) -> list:
        out: list = []
        for c in reversed(cd['mro']):
            k = cd if c == cd['id'] else class_by_id(self.p, c)
            for a, t in (k['fields'] if k is not cd else k['own']):
                if a not in [x for x, _ in out]:
                    out.append((a, t))
        return out

    def methods(self) -> None:
        r = self.r
        for cd in self.p['classes']:
            if cd.get('exc'):
                continue
            inherited: dict[int, dict] = {}
            for c in cd['mro'][1:]:
                for m, fd in class_by_id(self.p, c)['methods']:
                    inherited.setdefault(m, fd)
            for m, fd in list(inherited.items()):
                if r.random() < 0.35:
                    ret = fd['ret']
                    if ret == INT and r.random() < 0.3:
                        ret = BOOL
                    cd['methods'].append((m, self.function(list(fd['params']), ret, self_cls=cd['id'], calls=False)))
            for _ in range(r.choice([0, 1, 1, 2])):
                self.nmeth += 1
                params = [(k + 1, self.rand_ty()) for k in range(r.randint(0, 2))]
                cd['methods'].append((self.nmeth, self.function(params, self.rand_ty(none_ok=True), self_cls=cd['id'], calls=False)))

    # ---- functions
    def function(self, params: list, ret, self_cls: int | None, calls: bool) -> dict:
        ctx = {'decl': dict(params), 'bel': dict(params), 'ro': set(), 'next': len(params) + 1, 'ret': ret, 'calls': calls,
               'tested': set(), 'inloop': False}
        if self_cls is not None:
            ctx['decl'][0] = ctx['bel'][0] = ('C', self_cls)
            ctx['ro'].add(0)
        body = self.block(ctx, self.r.randint(2, 6), 2)
        body.append(('ret', self.expr(ctx, ret, 2)))
        return {'params': params, 'ret': ret, 'body': body}

    def fresh(self, ctx: dict) -> int:
        ctx['next'] += 1
        return ctx['next'] - 1

    def block(self, ctx: dict, n: int, depth: int) -> list:
        out: list = []
        for _ in range(n):
            out += self.stmt(ctx, depth)
            if self.r.random() < 0.45 and ctx['bel']:
                out.append(('ex', ('rev', ('v', self.r.choice(sorted(ctx['bel']))))))
        return out

    def stmt(self, ctx: dict, depth: int) -> list:
        r = self.r
        k = r.random()
        if k < 0.22:
            x, t = self.fresh(ctx), self.rand_ty()
            e = self.expr(ctx, t if r.random() < 0.6 else r.choice(members(t)), 2)
            ctx['decl'][x] = ctx['bel'][x] = t
            return [('de', x, t, e)]
        if k < 0.32:
            x, t = self.fresh(ctx), self.rand_ty(none_ok=False)
            e = self.expr(ctx, t, 2)
            if r.random() < 0.3:
                e = ('rev', e)
            ctx['decl'][x] = ctx['bel'][x] = t
            ctx['ro'].add(x)
            return [('as', x, e)]
        if k < 0.55:
            ws = [x for x in ctx['decl'] if x not in ctx['ro'] and x in ctx['bel']]
            augs = [x for x in ws if psub(self.p, ctx['bel'][x], INT) and psub(self.p, INT, ctx['decl'][x])]
            if augs and r.random() < 0.25:
                x = r.choice(sorted(augs))
                ctx['bel'][x] = INT
                return [('aug', x, r.choice(['+', '-', '*']), self.expr(ctx, INT, 1))]
            if ws:
                x = r.choice(sorted(ws))
                g = r.choice(members(ctx['decl'][x])) if r.random() < 0.6 else ctx['decl'][x]
                e = self.expr(ctx, g, 2)
                ctx['bel'][x] = g
                ctx['tested'].discard(x)
                return [('as', x, e)]
        if k < 0.80 and depth > 0:
            return [self.if_stmt(ctx, depth)]
        if k < 0.84 and depth > 0 and self.loops:
            return self.while_stmt(ctx, depth)
        if k < 0.87 and depth > 0 and self.loops:
            return self.for_stmt(ctx, depth)
        if k < 0.91 and depth > 0 and self.loops:
            return self.try_stmt(ctx, depth)
        if k < 0.925 and self.loops and any(c.get('exc') for c in self.p['classes']):
            return [self.raise_stmt(ctx)]
        if k < 0.93:
            c, tn, _ = self.cond(ctx)
            ctx['bel'].update(tn)
            return [('ast', c)]
        if k < 0.97 and ctx['calls']:
            return [('ex', self.expr(ctx, self.rand_ty(), 2))]
        return [('pass',)]

    def sub_ctx(self, ctx: dict, narrow: dict) -> dict:
        c = dict(ctx)
        c['bel'] = dict(ctx['bel'])
        c['bel'].update(narrow)
        c['decl'] = dict(ctx['decl'])
        c['ro'] = set(ctx['ro'])
        c['tested'] = set(ctx['tested'])
        return c

    def join(self, ctx: dict, cs: list[dict], nexts: list[int]) -> None:
        ctx['next'] = max(nexts + [ctx['next']])
        for x in list(ctx['bel']):
            bs = [c['bel'].get(x) for c in cs]
            if not cs:
                continue
            if all(b == bs[0] for b in bs) and bs[0] is not None:
                ctx['bel'][x] = bs[0]
            else:
                ctx['bel'][x] = ctx['decl'][x]

    def if_stmt(self, ctx: dict, depth: int):
        r = self.r
        c, tn, fn = self.cond(ctx)
        c1 = self.sub_ctx(ctx, tn)
        a = self.block(c1, r.randint(1, 3), depth - 1)
        ret1 = r.random() < 0.2
        if ret1:
            a.append(('ret', self.expr(c1, ctx['ret'], 1)))
        c2 = self.sub_ctx(ctx, fn)
        c2['next'] = c1['next']
        b: list = []
        ret2 = False
        if r.random() < 0.65:
            if r.random() < 0.3 and depth > 1:
                b = [self.if_stmt(c2, depth - 1)]
            else:
                b = self.block(c2, r.randint(1, 3), depth - 1)
                ret2 = r.random() < 0.15
                if ret2:
                    b.append(('ret', self.expr(c2, ctx['ret'], 1)))
        live = [cc for cc, rt in ((c1, ret1), (c2, ret2)) if not rt]
        self.join(ctx, live, [c1['next'], c2['next']])
        return ('sif', c, a, b)

    def while_stmt(self, ctx: dict, depth: int) -> list:
        r = self.r
        n = self.fresh(ctx)
        ctx['decl'][n] = INT
        ctx['ro'].add(n)
        pre = [('de', n, INT, ('I', 0))]
        for x in ctx['bel']:
            ctx['bel'][x] = ctx['decl'][x]
        ctx['bel'][n] = INT
        c: Any = ('bin', '<', ('v', n), ('I', r.randint(1, 6)))
        tn: dict = {}
        if r.random() < 0.35:
            c2, tn, _ = self.cond(ctx)
            c = ('and', c, c2)
        cb = self.sub_ctx(ctx, tn)
        cb['inloop'] = True
        body = [('as', n, ('bin', '+', ('v', n), ('I', 1)))] + self.block(cb, r.randint(1, 4), depth - 1) + self.jump_tail(cb)
        ctx['next'] = max(ctx['next'], cb['next'])
        for x in ctx['bel']:
            ctx['bel'][x] = ctx['decl'][x]
        els: list = []
        if r.random() < 0.3:
            ce = self.sub_ctx(ctx, {})
            els = self.block(ce, r.randint(1, 2), depth - 1)
            ctx['next'] = max(ctx['next'], ce['next'])
        return pre + [('wh', c, body, els)]

    def reset_beliefs(self, ctx: dict) -> None:
        for x in ctx['bel']:
            ctx['bel'][x] = ctx['decl'][x]
        ctx['tested'] = set()

    def jump_tail(self, cb: dict) -> list:
        """optionally `if cond: break/continue` at the end of a loop body"""
        r = self.r
        if r.random() < 0.5:
            return []
        self.reset_beliefs(cb)
        c = ('bin', r.choice(['<', '=']), self.expr(cb, INT, 1, True), self.expr(cb, INT, 1, True))
        return [('sif', c, [(r.choice(['brk', 'cont']),)], [])]

    def for_stmt(self, ctx: dict, depth: int) -> list:
        r = self.r
        self.reset_beliefs(ctx)
        x = self.fresh(ctx)
        k = r.random()
        if k < 0.45:
            it_ty, rng, e = INT, True, self.expr(ctx, INT, 1)
        elif k < 0.6:
            it_ty, rng, e = STR, False, self.expr(ctx, STR, 1)          # iterating a str yields str
        else:
            tys = [r.choice([INT, STR, BOOL]) for _ in range(r.randint(1, 3))]   # item type = simplified union of the items
            rng, e = False, ('tup', [self.expr(ctx, t, 1) for t in tys])
            uniq = [t for i, t in enumerate(tys) if t not in tys[:i]]
            if INT in uniq and BOOL in uniq:
                uniq.remove(BOOL)
            it_ty = uniq[0] if len(uniq) == 1 else ('U', uniq)
        cb = self.sub_ctx(ctx, {})
        cb['inloop'] = True
        cb['decl'][x] = cb['bel'][x] = it_ty
        cb['ro'].add(x)
        body = self.block(cb, r.randint(1, 3), depth - 1) + self.jump_tail(cb)
        ctx['next'] = max(ctx['next'], cb['next'])
        els: list = []
        if r.random() < 0.4:
            ce = self.sub_ctx(ctx, {})
            els = self.block(ce, r.randint(1, 2), depth - 1)
            ctx['next'] = max(ctx['next'], ce['next'])
        self.reset_beliefs(ctx)
        return [('for', x, rng, e, body, els)]

    def raise_stmt(self, ctx: dict):
        c = self.r.choice([k for k in self.p['classes'] if k.get('exc')])
        return ('raise', c['id'], [self.expr(ctx, ft, 1) for _, ft in c['fields']])

    def try_stmt(self, ctx: dict, depth: int) -> list:
        r = self.r
        self.reset_beliefs(ctx)
        cb = self.sub_ctx(ctx, {})
        body = self.block(cb, r.randint(1, 3), depth - 1)
        if r.random() < 0.6:
            body.insert(r.randrange(len(body) + 1), ('sif', self.cond(self.sub_ctx(ctx, {}))[0], [self.raise_stmt(ctx)], []))
        ctx['next'] = max(ctx['next'], cb['next'])
        c = r.choice([k for k in self.p['classes'] if k.get('exc')])
        ch = self.sub_ctx(ctx, {})
        x = None
        if r.random() < 0.6:
            x = self.fresh(ch)
            ch['decl'][x] = ch['bel'][x] = ('C', c['id'])
            ch['ro'].add(x)
        hb = self.block(ch, r.randint(1, 2), depth - 1)
        ctx['next'] = max(ctx['next'], ch['next'])
        els: list = []
        if r.random() < 0.4:
            ce = self.sub_ctx(ctx, {})
            els = self.block(ce, r.randint(1, 2), depth - 1)
            ctx['next'] = max(ctx['next'], ce['next'])
        out: Any = ('try', body, c['id'], x, hb, els)
        if r.random() < 0.35:
            cf = self.sub_ctx(ctx, {})
            cf['inloop'] = False
            fb = self.block(cf, r.randint(1, 2), 0)
            ctx['next'] = max(ctx['next'], cf['next'])
            out = ('fin', [out], fb)
        self.reset_beliefs(ctx)
        return [out]

    # ---- conditions: (expr, beliefs if true, beliefs if false)
    def cond(self, ctx: dict, depth: int = 1):
        r = self.r
        bel = ctx['bel']
        k = r.random()
        optv = [x for x, t in bel.items() if t[0] == 'U' and NONE in t[1]]
        if k < 0.3 and optv:
            x = r.choice(sorted(optv))
            rest = mku([m for m in members(bel[x]) if m != NONE])
            if r.random() < 0.5:
                return ('isn', ('v', x)), {x: NONE}, {x: rest}
            return ('inn', ('v', x)), {x: rest}, {x: NONE}
        if k < 0.55:
            cands = []
            for x, t in bel.items():
                for m in members(t):
                    for K in self.isi_targets(m):
                        cands.append((x, K))
            if cands:
                x, K = r.choice(sorted(cands, key=repr))
                yes, no = [], []
                for m in members(bel[x]):
                    if psub(self.p, m, K):
                        yes.append(m)
                    else:
                        no.append(m)
                        if psub(self.p, K, m):
                            yes.append(K)
                kref = {'i': ('ki',), 'b': ('kb',), 's': ('ks',)}.get(K[0]) or ('kc', K[1])
                tn = {x: mku(yes)} if yes else {}
                fn = {x: mku(no)} if no else {}
                others = [K2 for (x2, K2) in cands if x2 == x and K2 != K]
                if others and r.random() < 0.4:
                    # isinstance(x, (K, K2)): an item below one of the targets is kept, else the targets below it replace it
                    K2 = r.choice(sorted(others, key=repr))
                    kref2 = {'i': ('ki',), 'b': ('kb',), 's': ('ks',)}.get(K2[0]) or ('kc', K2[1])
                    yes2, no2 = [], []
                    for m in members(bel[x]):
                        if psub(self.p, m, K) or psub(self.p, m, K2):
                            yes2.append(m)
                        else:
                            no2.append(m)
                            yes2 += [T for T in (K, K2) if psub(self.p, T, m)]
                    if yes2 and no2:
                        return ('isl', ('v', x), [kref, kref2]), {x: mku(yes2)}, {x: mku(no2)}
                if yes and no:
                    return ('isi', ('v', x), kref), tn, fn
        if k < 0.65:
            tv = [x for x, t in bel.items() if t[0] == 'U' and NONE in t[1] and x not in ctx['tested']
                  and all(m == NONE or m[0] in 'CT' for m in t[1])]
            if tv:
                x = r.choice(sorted(tv))
                ctx['tested'].add(x)
                return ('v', x), {x: mku([m for m in members(bel[x]) if m != NONE])}, {}
        if k < 0.75 and depth > 0:
            c, tn, fn = self.cond(ctx, depth - 1)
            return ('not', c), fn, tn
        if k < 0.85 and depth > 0:
            c1, t1, f1 = self.cond(ctx, depth - 1)
            c2, t2, f2 = self.cond(self.sub_ctx(ctx, t1), depth - 1)
            t = dict(t1)
            t.update(t2)
            return ('and', c1, c2), t, {}
        if k < 0.92 and depth > 0:
            c1, t1, f1 = self.cond(ctx, depth - 1)
            c2, t2, f2 = self.cond(self.sub_ctx(ctx, f1), depth - 1)
            f = dict(f1)
            f.update(f2)
            return ('or', c1, c2), {}, f
        if r.random() < 0.5:
            return ('bin', r.choice(['<', '=']), self.expr(ctx, INT, 1, True), self.expr(ctx, INT, 1, True)), {}, {}
        return self.expr(ctx, BOOL, 1, no_bare_var=True), {}, {}

    def isi_targets(self, m) -> list:
        if m == INT:
            return [BOOL, INT]
        if m in (BOOL, STR):
            return [m]
        if m[0] == 'C':
            return [('C', c['id']) for c in self.p['classes'] if m[1] in c['mro']] + \
                   [('C', b) for b in class_by_id(self.p, m[1])['mro'][1:]]
        return []

    # ---- expressions of (a subtype of) a goal type
    def expr(self, ctx: dict, goal, depth: int, no_bare_var: bool = False):
        r = self.r
        p = self.p
        if goal[0] == 'U' and goal[1] and r.random() < 0.6:
            vs = [x for x, t in ctx['bel'].items() if psub(p, t, goal)]
            if vs and r.random() < 0.5:
                return ('v', r.choice(sorted(vs)))
            return self.expr(ctx, r.choice(goal[1]), depth)
        opts: list = []
        vs = [x for x, t in ctx['bel'].items() if psub(p, t, goal)]
        if vs and not no_bare_var:
            opts += [lambda: ('v', r.choice(sorted(vs)))] * 3
        if depth > 0:
            for x, t in sorted(ctx['bel'].items()) if not no_bare_var else []:
                if t[0] == 'C':
                    for a, ft in class_by_id(p, t[1])['fields']:
                        if psub(p, ft, goal):
                            opts.append(lambda x=x, a=a: ('attr', ('v', x), a))
                    if ctx['calls']:
                        for c in class_by_id(p, t[1])['mro']:
                            for m, fd in class_by_id(p, c)['methods']:
                                res = self.resolve(t[1], m)
                                if res is not None and psub(p, res['ret'], goal):
                                    opts.append(lambda x=x, m=m, res=res: ('cm', ('v', x), m, [self.expr(ctx, pt, depth - 1) for _, pt in res['params']]))
                if t[0] == 'T':
                    for i, it in enumerate(t[1]):
                        if psub(p, it, goal):
                            opts.append(lambda x=x, i=i: ('idx', ('v', x), i))
            if ctx['calls']:
                for f, fd in p['funcs']:
                    if psub(p, fd['ret'], goal):
                        opts.append(lambda f=f, fd=fd: ('cf', f, [self.expr(ctx, pt, depth - 1) for _, pt in fd['params']]))
            opts.append(lambda: ('if', self.cond(ctx, 0)[0], self.expr(ctx, goal, depth - 1), self.expr(ctx, goal, depth - 1)))
            ov = [x for x, t in ctx['bel'].items() if t[0] == 'U' and NONE in t[1] and psub(p, mku([m for m in t[1] if m != NONE]), goal)
                  and all(m == NONE or m[0] in 'CT' for m in t[1])]
            if ov:
                opts.append(lambda: ('or', ('v', r.choice(sorted(ov))), self.expr(ctx, goal, depth - 1)))
        k = goal[0]
        if k == 'i':
            opts += [lambda: ('I', r.randint(-2, 9))] * 2
            if depth > 0:
                opts += [lambda: ('bin', r.choice(['+', '-', '*']), self.expr(ctx, INT, depth - 1), self.expr(ctx, INT, depth - 1))] * 2
        elif k == 'b':
            opts.append(lambda: ('B', r.random() < 0.5))
            if depth > 0:
                opts.append(lambda: ('bin', '<', self.expr(ctx, INT, depth - 1), self.expr(ctx, INT, depth - 1)))
                def eq():
                    t = r.choice([INT, STR])
                    return ('bin', '=', self.expr(ctx, t, depth - 1, True), self.expr(ctx, t, depth - 1, True))
                opts.append(eq)
                opts.append(lambda: ('bin', '<', self.expr(ctx, STR, depth - 1), self.expr(ctx, STR, depth - 1)))
                opts.append(lambda: ('not', self.expr(ctx, self.rand_ty(0), depth - 1, True)))
                opts.append(lambda: (r.choice(['and', 'or']), self.expr(ctx, BOOL, depth - 1, True), self.expr(ctx, BOOL, depth - 1, True)))
                vs2 = sorted(ctx['bel'])
                if vs2:
                    opts.append(lambda: (r.choice(['isn', 'inn']), ('v', r.choice(vs2))))
        elif k == 's':
            opts += [lambda: ('S', r.choice(['', 'a', 'b', 'ab', 'xyz']))] * 2
            if depth > 0:
                opts.append(lambda: ('bin', '+', self.expr(ctx, STR, depth - 1), self.expr(ctx, STR, depth - 1)))
        elif k == 'n':
            opts.append(lambda: ('N',))
        elif k == 'C':
            subs = [c for c in p['classes'] if goal[1] in c['mro']]
            def new():
                c = r.choice(subs)
                return ('new', c['id'], [self.expr(ctx, ft, max(depth - 1, 0) if ft[0] != 'C' else 0) for _, ft in c['fields']])
            if depth > 0:
                opts.append(new)
            elif not vs:
                opts.append(lambda: self.fallback(goal))
        elif k == 'T':
            opts.append(lambda: ('tup', [self.expr(ctx, t, max(depth - 1, 0)) for t in goal[1]]))
        elif k == 'U':
            opts.append(lambda: self.expr(ctx, r.choice(goal[1]), depth))
        if not opts:
            return self.fallback(goal)
        return r.choice(opts)()

    def fallback(self, goal):
        k = goal[0]
        if k == 'C':
            c = class_by_id(self.p, goal[1])
            return ('new', c['id'], [self.fallback(ft) for _, ft in c['fields']])
        if k == 'U':
            return self.fallback(NONE if NONE in goal[1] else goal[1][0])
        if k == 'T':
            return ('tup', [self.fallback(t) for t in goal[1]])
        return {'i': ('I', 0), 'b': ('B', False), 's': ('S', ''), 'n': ('N',)}[k]

    def resolve(self, c: int, m: int) -> dict | None:
        for k in class_by_id(self.p, c)['mro']:
            for mm, fd in class_by_id(self.p, k)['methods']:
                if mm == m:
                    return fd
        return None

    def program(self) -> dict:
        self.classes()
        if self.loops:
            self.exc_classes()
        self.methods()
        for i in range(1, self.r.randint(2, 4) + 1):
            params = [(k + 1, self.rand_ty()) for k in range(self.r.randint(1, 3))]
            fd = self.function(params, self.rand_ty(), None, calls=True)
            self.p['funcs'].append((i, fd))
        return self.p

    # ---- argument values of a type
    def value(self, t, depth: int = 2):
        r = self.r
        k = t[0]
        if k == 'i':
            return ['b', r.randint(0, 1)] if r.random() < 0.1 else ['i', r.randint(-3, 6)]
        if k == 'b':
            return ['b', r.randint(0, 1)]
        if k == 's':
            return ['s', r.choice(['', 'a', 'bc', 'ab'])]
        if k == 'n':
            return ['n']
        if k == 'U':
            ms = t[1]
            if depth <= 0 and NONE in ms:
                return ['n']
            return self.value(r.choice(ms), depth)
        if k == 'T':
            return ['t', [self.value(x, depth - 1) for x in t[1]]]
        subs = [c for c in self.p['classes'] if t[1] in c['mro']]
        c = r.choice(subs) if depth > 0 else class_by_id(self.p, t[1])
        return ['o', c['id'], [[a, self.value(ft, depth - 1)] for a, ft in c['fields']]]


def strip_private(p: dict) -> dict:
    """JSON-able copy of a program without the printer's line annotations"""
    q = copy.deepcopy(p)
    q.pop('_except_of', None)
    for c in q['classes']:
        for k in [k for k in c if k.startswith('_')]:
            del c[k]
        for _, fd in c['methods']:
            for k in [k for k in fd if k.startswith('_')]:
                del fd[k]
    for _, fd in q['funcs']:
        for k in [k for k in fd if k.startswith('_')]:
            del fd[k]
    return q


# ---------------------------------------------------------------------------------------------
# hand-written corpus (always run): small programs around narrowing, joins, loops
# ---------------------------------------------------------------------------------------------

def V(x):
    return ('v', x)


def corpus() -> list[tuple[str, dict, list]]:
    """(name, program, calls) ; calls = [(function id, [values])]"""
    out = []
    OI = opt(INT)
    # accept_loop stops after 4 passes although the binder still changes (checker.py `iter > 3`)
    shift = [('as', 7, V(6)), ('as', 6, V(5)), ('as', 5, V(4)), ('as', 4, V(3)), ('as', 3, V(2))]
    body = [('de', k, OI, ('N',)) for k in range(2, 8)] + [('as', k, ('N',)) for k in range(2, 8)] + [
        ('de', 8, INT, ('I', 0)),
        ('wh', ('bin', '<', V(8), V(1)), [('as', 8, ('bin', '+', V(8), ('I', 1)))] + shift + [('as', 2, ('I', 1))]),
        ('ex', ('rev', V(7))),
        ('sif', ('inn', V(7)), [('ret', ('bin', '+', V(7), ('S', 'x')))], []),
        ('ret', ('I', 0))]
    out.append(("loop-cap-optional-chain", {'classes': [], 'funcs': [(1, {'params': [(1, INT)], 'ret': INT, 'body': body})]},
                [(1, [['i', 3]]), (1, [['i', 9]])]))
    c1 = {'id': 1, 'bases': [], 'mro': [1], 'fields': [(1, INT)], 'methods': []}
    c2 = {'id': 2, 'bases': [], 'mro': [2], 'fields': [], 'methods': []}
    U12 = ('U', [('C', 1), ('C', 2)])
    mk1 = ('new', 1, [('I', 5)])
    body = [('de', k, U12, mk1) for k in range(2, 8)] + [('as', k, mk1) for k in range(2, 8)] + [
        ('de', 8, INT, ('I', 0)),
        ('wh', ('bin', '<', V(8), V(1)), [('as', 8, ('bin', '+', V(8), ('I', 1)))] + shift + [('as', 2, ('new', 2, []))]),
        ('ex', ('rev', V(7))),
        ('ret', ('attr', V(7), 1))]
    out.append(("loop-cap-attribute", {'classes': [c1, c2], 'funcs': [(1, {'params': [(1, INT)], 'ret': INT, 'body': body})]},
                [(1, [['i', 2]]), (1, [['i', 8]])]))
    # isinstance on a union drops the item unrelated to the tested class although a common subclass exists
    ca = {'id': 1, 'bases': [], 'mro': [1], 'fields': [], 'methods': []}
    cb = {'id': 2, 'bases': [], 'mro': [2], 'fields': [], 'methods': []}
    cb2 = {'id': 3, 'bases': [2], 'mro': [3, 2], 'fields': [(1, INT)], 'methods': []}
    cd_ = {'id': 4, 'bases': [1, 2], 'mro': [4, 1, 2], 'fields': [], 'methods': []}
    body = [('sif', ('isi', V(1), ('kc', 2)), [('ex', ('rev', V(1))), ('ret', ('attr', V(1), 1))], []), ('ret', ('I', 0))]
    out.append(("isinstance-union-multiple-inheritance",
                {'classes': [ca, cb, cb2, cd_],
                 'funcs': [(1, {'params': [(1, ('U', [('C', 1), ('C', 3)]))], 'ret': INT, 'body': body})]},
                [(1, [['o', 4, []]]), (1, [['o', 3, [[1, ['i', 7]]]]])]))
    # narrowing / join / reset on assignment
    body = [('sif', ('isn', V(1)), [('as', 1, ('I', 1)), ('ex', ('rev', V(1)))], [('ex', ('rev', V(1)))]),
            ('ex', ('rev', V(1))),
            ('de', 2, ('U', [INT, STR]), ('S', 'a')),
            ('sif', ('isi', V(2), ('ks',)), [('as', 2, ('I', 3))], [('as', 2, ('S', 'q'))]),
            ('ex', ('rev', V(2))),
            ('sif', ('isi', V(2), ('ki',)), [('ret', ('bin', '+', V(2), V(1)))], []),
            ('ex', ('rev', V(2))),
            ('ret', ('I', 0))]
    out.append(("narrow-join", {'classes': [], 'funcs': [(1, {'params': [(1, OI)], 'ret': INT, 'body': body})]},
                [(1, [['n']]), (1, [['i', 4]])]))
    body = [('de', 2, INT, ('I', 0)),
            ('wh', ('and', ('bin', '<', V(2), ('I', 5)), ('isn', V(1))),
             [('as', 2, ('bin', '+', V(2), ('I', 1))), ('ex', ('rev', V(1))),
              ('sif', ('bin', '<', ('I', 2), V(2)), [('as', 1, V(2))], [])]),
            ('ex', ('rev', V(1))),
            ('ret', ('if', ('isn', V(1)), ('I', -1), V(1)))]
    out.append(("loop-exit-narrowing", {'classes': [], 'funcs': [(1, {'params': [(1, OI)], 'ret': INT, 'body': body})]},
                [(1, [['n']]), (1, [['i', 4]])]))
    # ill-typed on purpose: the return check must see through a conditional expression
    body = [('ret', ('if', ('bin', '<', V(1), ('I', 3)), ('S', 'a'), V(1)))]
    out.append(("reject-return-conditional", {'classes': [], 'funcs': [(1, {'params': [(1, INT)], 'ret': INT, 'body': body})]}, []))
    # augmented assignment on ints / strs (printer sugar for x = x op e)
    body = [('de', 2, INT, ('I', 0)), ('as', 2, ('B', True)), ('ex', ('rev', V(2))), ('aug', 2, '+', V(1)), ('ex', ('rev', V(2))),
            ('de', 3, ('U', [STR, INT, NONE]), ('N',)), ('as', 3, ('S', 'a')), ('aug', 3, '+', ('S', 'b')), ('ex', ('rev', V(3))),
            ('as', 3, ('I', 3)), ('aug', 3, '*', ('I', 2)), ('ex', ('rev', V(3))), ('ret', V(2))]
    out.append(("augmented-int-str", {'classes': [], 'funcs': [(1, {'params': [(1, INT)], 'ret': INT, 'body': body})]},
                [(1, [['i', 2]]), (1, [['b', 1]])]))
    # a narrowing entry (flag False) taken at `break` hides the assignment made earlier in the loop
    optf = {'params': [(1, INT)], 'ret': OI, 'body': [('ret', ('if', ('bin', '<', ('I', 0), V(1)), ('N',), ('I', 1)))]}
    body = [('sif', ('inn', V(1)),
             [('de', 2, INT, ('I', 0)),
              ('wh', ('bin', '<', V(2), ('I', 2)), [('as', 2, ('bin', '+', V(2), ('I', 1))), ('as', 1, ('cf', 1, [V(2)])),
                                                     ('sif', ('isn', V(1)), [('brk',)], [])], []),
              ('ex', ('rev', V(1))), ('ret', ('bin', '+', V(1), ('I', 1)))], []),
            ('ret', ('I', 0))]
    out.append(("break-in-narrowing-frame", {'classes': [], 'funcs': [(1, optf), (2, {'params': [(1, OI)], 'ret': INT, 'body': body})]},
                [(2, [['i', 4]]), (2, [['n']])]))
    # break out of a try block whose finally re-assigns the narrowed local
    body = [('de', 2, OI, ('N',)), ('as', 2, ('I', 1)),
            ('wh', ('bin', '<', V(1), ('I', 3)), [('as', 1, ('bin', '+', V(1), ('I', 1))), ('fin', [('brk',)], [('as', 2, ('N',))])], []),
            ('ex', ('rev', V(2))), ('ret', ('bin', '+', V(2), ('I', 1)))]
    out.append(("break-through-finally", {'classes': [], 'funcs': [(1, {'params': [(1, INT)], 'ret': INT, 'body': body})]},
                [(1, [['i', 0]]), (1, [['i', 5]])]))
    # directed try / for shapes inside the extended MiniPy (they also go through the model)
    exc0 = {'id': 0, 'bases': [], 'mro': [0], 'fields': [], 'methods': [], 'exc': True}
    e1 = {'id': 1, 'bases': [0], 'mro': [1, 0], 'fields': [], 'methods': [], 'exc': True}
    e2 = {'id': 2, 'bases': [0], 'mro': [2, 0], 'fields': [(1, INT)], 'methods': [], 'exc': True}
    inner = ('try', [('as', 2, ('N',)), ('sif', ('bin', '=', V(1), ('I', 1)), [('raise', 1, [])], []), ('as', 2, ('I', 2)),
                     ('sif', ('bin', '=', V(1), ('I', 2)), [('raise', 2, [('I', 5)])], [])],
             2, 3, [('ex', ('rev', V(2))), ('as', 2, ('attr', V(3), 1))], [('ex', ('rev', V(2)))])
    body = [('de', 2, OI, ('N',)), ('as', 2, ('I', 1)),
            ('try', [inner], 1, None, [('ex', ('rev', V(2))), ('ret', ('if', ('isn', V(2)), ('I', -1), ('bin', '+', V(2), ('I', 1))))], []),
            ('ex', ('rev', V(2))), ('ret', ('I', 0))]
    out.append(("nested-try", {'classes': [exc0, e1, e2], 'funcs': [(1, {'params': [(1, INT)], 'ret': INT, 'body': body})]},
                [(1, [['i', k]]) for k in range(4)]))
    body = [('de', 2, OI, ('N',)), ('as', 2, ('I', 1)),
            ('fin', [('try', [('as', 2, ('N',)), ('sif', ('bin', '<', V(1), ('I', 2)), [('raise', 1, [])], []), ('as', 2, ('I', 7))],
                      2, None, [('ex', ('rev', V(2)))], [])],
             [('ex', ('rev', V(2))), ('de', 4, OI, V(2))]),
            ('ex', ('rev', V(2))), ('ret', ('I', 0))]
    out.append(("try-finally", {'classes': [exc0, e1, e2], 'funcs': [(1, {'params': [(1, INT)], 'ret': INT, 'body': body})]},
                [(1, [['i', k]]) for k in range(3)]))
    body = [('de', 2, ('U', [INT, STR, NONE]), ('N',)), ('as', 2, ('N',)),
            ('for', 3, True, V(1), [('sif', ('bin', '=', V(3), ('I', 2)), [('as', 2, ('S', 'x')), ('brk',)], []),
                                    ('sif', ('bin', '=', V(3), ('I', 0)), [('cont',)], []), ('as', 2, V(3)), ('ex', ('rev', V(2)))],
             [('ex', ('rev', V(2))), ('as', 2, ('I', 9))]),
            ('ex', ('rev', V(2))),
            ('de', 4, INT, ('I', 0)),
            ('wh', ('bin', '<', V(4), V(1)), [('as', 4, ('bin', '+', V(4), ('I', 1))), ('sif', ('isi', V(2), ('ks',)), [('brk',)], []), ('as', 2, ('S', 'w'))],
             [('as', 2, ('N',))]),
            ('ex', ('rev', V(2))), ('ret', ('I', 0))]
    fbody = [('de', 2, INT, ('I', 0)),
             ('for', 3, False, V(1), [('aug', 2, '+', ('I', 1)), ('ex', ('rev', V(3)))], []),
             ('for', 4, False, ('tup', [('I', 1), ('S', 's'), ('B', True)]),
              [('ex', ('rev', V(4))), ('sif', ('isi', V(4), ('ks',)), [('brk',)], [('aug', 2, '+', V(4))])], [('as', 2, ('I', -1))]),
             ('ret', V(2))]
    out.append(("for-str-and-mixed-tuple", {'classes': [], 'funcs': [(1, {'params': [(1, STR)], 'ret': INT, 'body': fbody})]},
                [(1, [['s', 'ab']]), (1, [['s', '']])]))
    cA = {'id': 1, 'bases': [], 'mro': [1], 'fields': [], 'methods': []}
    cA1 = {'id': 2, 'bases': [1], 'mro': [2, 1], 'fields': [], 'methods': []}
    cA2 = {'id': 3, 'bases': [1], 'mro': [3, 1], 'fields': [], 'methods': []}
    ibody = [('sif', ('isl', V(1), [('kc', 2), ('ks',)]), [('ex', ('rev', V(1)))], [('ex', ('rev', V(1)))]),
             ('sif', ('isl', V(2), [('kb',), ('ks',)]), [('ex', ('rev', V(2)))], [('ex', ('rev', V(2)))]),
             ('sif', ('isl', V(3), [('kc', 2), ('kc', 3)]), [('ex', ('rev', V(3)))], [('ex', ('rev', V(3)))]),
             ('ret', ('I', 0))]
    out.append(("isinstance-tuple-of-classes",
                {'classes': [cA, cA1, cA2],
                 'funcs': [(1, {'params': [(1, opt(('C', 1))), (2, ('U', [INT, STR, NONE])), (3, ('C', 1))], 'ret': INT, 'body': ibody})]},
                [(1, [['o', 2, []], ['b', 1], ['o', 3, []]]), (1, [['n'], ['i', 3], ['o', 1, []]]), (1, [['o', 1, []], ['s', 'a'], ['o', 2, []]])]))
    out.append(("for-while-else-break", {'classes': [], 'funcs': [(1, {'params': [(1, INT)], 'ret': INT, 'body': body})]},
                [(1, [['i', k]]) for k in range(5)]))
    body = [('sif', ('B', True), [('ret', ('I', 1))], [('ret', ('S', 'never checked'))])]
    out.append(("unreachable-else", {'classes': [], 'funcs': [(1, {'params': [(1, INT)], 'ret': INT, 'body': body})]},
                [(1, [['i', 0]])]))
    return out


# ---------------------------------------------------------------------------------------------
# single-edit perturbations
# ---------------------------------------------------------------------------------------------

def map_prog(p: dict, fe=None, fs=None) -> dict:
    """copy of p with fe applied bottom-up to every expression and fs to every statement (fs may return a list)"""
    def ex(e):
        k = e[0]
        if k in ('new',):
            e = (k, e[1], [ex(a) for a in e[2]])
        elif k == 'cf':
            e = (k, e[1], [ex(a) for a in e[2]])
        elif k == 'cm':
            e = (k, ex(e[1]), e[2], [ex(a) for a in e[3]])
        elif k in ('attr', 'idx'):
            e = (k, ex(e[1]), e[2])
        elif k == 'bin':
            e = (k, e[1], ex(e[2]), ex(e[3]))
        elif k in ('isn', 'inn', 'not', 'rev'):
            e = (k, ex(e[1]))
        elif k in ('isi', 'isl'):
            e = (k, ex(e[1]), e[2])
        elif k in ('and', 'or'):
            e = (k, ex(e[1]), ex(e[2]))
        elif k == 'tup':
            e = (k, [ex(a) for a in e[1]])
        elif k == 'if':
            e = (k, ex(e[1]), ex(e[2]), ex(e[3]))
        return fe(e) if fe else e

    def blk(b):
        out = []
        for s in b:
            k = s[0]
            if k == 'as':
                s = (k, s[1], ex(s[2]))
            elif k == 'de':
                s = (k, s[1], s[2], ex(s[3]))
            elif k == 'aug':
                s = (k, s[1], s[2], ex(s[3]))
            elif k in ('ret', 'ast', 'ex'):
                s = (k, ex(s[1]))
            elif k == 'sif':
                s = (k, ex(s[1]), blk(s[2]), blk(s[3]))
            elif k == 'wh':
                s = (k, ex(s[1]), blk(s[2]), blk(s[3]) if len(s) > 3 else [])
            elif k == 'for':
                s = (k, s[1], s[2], ex(s[3]), blk(s[4]), blk(s[5]))
            elif k == 'raise':
                s = (k, s[1], [ex(a) for a in s[2]])
            elif k == 'try':
                s = (k, blk(s[1]), s[2], s[3], blk(s[4]), blk(s[5]))
            elif k == 'fin':
                s = (k, blk(s[1]), blk(s[2]))
            r = fs(s) if fs else s
            out += r if isinstance(r, list) else [r]
        return out

    q = strip_private(p)
    for c in q['classes']:
        c['methods'] = [(m, dict(fd, body=blk(fd['body']))) for m, fd in c['methods']]
    q['funcs'] = [(f, dict(fd, body=blk(fd['body']))) for f, fd in q['funcs']]
    return q


def perturb(p: dict, rng: vlib.Rng) -> tuple[str, dict] | None:
    kinds = ['swap_args', 'wrong_rhs', 'drop_check', 'change_base', 'wrong_attr', 'swap_var', 'wrong_isi', 'change_op',
             'none_arg', 'wrong_rhs', 'drop_check']
    kind = rng.choice(kinds)
    count = [0]
    target = [-1]
    fields = sorted({a for c in p['classes'] for a, _ in c['fields']})
    meths = sorted({m for c in p['classes'] for m, _ in c['methods']})
    cids = [c['id'] for c in p['classes']]

    def site() -> bool:
        count[0] += 1
        return count[0] - 1 == target[0]

    def fe(e):
        k = e[0]
        if kind == 'swap_args' and k in ('new', 'cf', 'cm') and len(e[-1]) >= 2 and site():
            a = list(e[-1])
            i = rng.randrange(len(a) - 1)
            a[i], a[i + 1] = a[i + 1], a[i]
            return e[:-1] + (a,)
        if kind == 'none_arg' and k in ('new', 'cf', 'cm') and len(e[-1]) >= 1 and site():
            a = list(e[-1])
            a[rng.randrange(len(a))] = ('N',)
            return e[:-1] + (a,)
        if kind == 'wrong_attr' and k == 'attr' and len(fields) > 1 and site():
            return ('attr', e[1], rng.choice([a for a in fields if a != e[2]]))
        if kind == 'wrong_attr' and k == 'cm' and len(meths) > 1 and site():
            return ('cm', e[1], rng.choice([m for m in meths if m != e[2]]), e[3])
        if kind == 'swap_var' and k == 'v' and e[1] > 0 and site():
            return ('v', max(1, e[1] + rng.choice([-1, 1, 2])))
        if kind == 'wrong_isi' and k == 'isi' and site():
            return ('isi', e[1], rng.choice([('ki',), ('ks',), ('kb',)] + [('kc', c) for c in cids]))
        if kind == 'change_op' and k == 'bin' and site():
            return ('bin', rng.choice([o for o in '+-*=<' if o != e[1]]), e[2], e[3])
        return e

    def fs(s):
        k = s[0]
        if kind == 'wrong_rhs' and k in ('as', 'de', 'ret') and site():
            bad = rng.choice([('S', 'zz'), ('I', 7), ('N',), ('B', True), ('tup', [('I', 1)])])
            if rng.random() < 0.3:
                old = s[-1][1] if s[-1][0] == 'rev' else s[-1]      # probes stay at statement level
                bad = ('if', ('bin', '<', ('I', 1), ('I', 2)), bad, old)
            return s[:-1] + (bad,)
        if kind == 'drop_check' and k == 'sif' and s[1][0] in ('inn', 'isn', 'isi', 'v') and site():
            return s[2] if s[1][0] != 'isn' or not s[3] else s[3]
        return s

    if kind == 'change_base':
        cs = [c for c in p['classes'] if c['bases']]
        if not cs:
            return None
        q = strip_private(p)
        c = class_by_id(q, rng.choice(cs)['id'])
        earlier = [k['id'] for k in q['classes'] if k['id'] < c['id'] and k['id'] not in c['bases']]
        c['bases'] = list(c['bases'])
        if earlier and rng.random() < 0.7:
            c['bases'][rng.randrange(len(c['bases']))] = rng.choice(earlier)
        else:
            del c['bases'][rng.randrange(len(c['bases']))]
        for k in q['classes']:            # recompute the linearisations below the edit
            if k['id'] >= c['id']:
                m = c3([class_by_id(q, b)['mro'] for b in k['bases']], k['bases'])
                if m is None:
                    return None
                k['mro'] = [k['id']] + m
                fs: list = []
                for cc in reversed(k['mro']):
                    kk = class_by_id(q, cc)
                    for a, t in (kk['fields'] if kk is not k else kk.get('own', kk['fields'])):
                        if a not in [x for x, _ in fs]:
                            fs.append((a, t))
                k['fields'] = fs
        return kind, q
    map_prog(p, fe, fs)
    n = count[0]
    if n == 0:
        return None
    count[0] = 0
    target[0] = rng.randrange(n)
    return kind, map_prog(p, fe, fs)


# ---------------------------------------------------------------------------------------------
# stage C (a)+(b) and S on MiniPy programs
# ---------------------------------------------------------------------------------------------

FUEL = 600
UNSUP_REASONS = {
    "1": "isinstance would drop a union item sharing a subclass with the target (certifying)",
    "2": "isinstance needs an ad-hoc intersection", "3": "equality narrowing on non-overlapping operands",
    "4": "partial type / `x = None` widening hack", "5": "name bound only in skipped code",
    "6": "merge validation failed (certifying)", "7": "loop result is not a fixed point of one more pass (certifying)",
    "8": "inferred variable re-inferred with a different type on a later pass (certifying)",
    "9": "for over a union-typed iterable or the empty tuple", "10": "finally crossed by break/continue (certifying)",
    "11": "used-before-def pre-pass", "13": "tuple concatenation / repetition / comparison",
    "14": "attribute redeclared under multiple inheritance (immediate bases unknown to the model)", "12": "inherited attribute not initialised by __init__"}
CAP_KEY = "accept_loop-iteration-cap"
MI_KEY = "isinstance-union-item-dropped-despite-common-subclass"
FLAG_KEY = "flag-enum-narrowed-as-closed-set-of-named-members"
FIN_KEY = "break-through-finally-ignores-finally-assignments"
SWAP_KEY = "tuple-assignment-swap-reads-updated-narrowing"
WALRUS_KEY = "walrus-in-if-condition-narrowing-survives-merge"
MASK_KEY = "narrowing-entry-masks-earlier-assignment-at-jump-merge"
PATLIT_KEY = "class-pattern-unmatchable-subpattern-consumes-literal-subject"


def units_of(p: dict) -> list[tuple[str, list[int]]]:
    """(unit name, indices into defs_of) : a class with its methods, or a function"""
    out = []
    i = 0
    for c in p['classes']:
        n = 1 + len(c['methods'])
        out.append((f"class C{c['id']}", list(range(i, i + n))))
        i += n
    for f, _ in p['funcs']:
        out.append((f"f{f}", [i]))
        i += 1
    return out


def minipy_stage(ctx: vlib.Ctx, exe: str, progs: list[tuple[str, dict, list]], tmp: str, tag: str) -> None:
    """progs: (name, program, calls).  Compares model vs mypy vs CPython and applies the S oracle."""
    mods: dict[str, str] = {}
    toks: dict[str, list[str]] = {}
    for i, (name, p, calls) in enumerate(progs):
        src, tk = emit(p)
        mods[f"m{tag}{i}"] = src
        toks[f"m{tag}{i}"] = tk
    names = [f"m{tag}{i}" for i in range(len(progs))]
    mres = run_mypy(tmp, mods, workers=vlib.NPROC)
    chk = run_driver(exe, ["check " + " ".join(toks[m]) for m in names])
    ann = run_driver(exe, ["annot " + " ".join(toks[m]) for m in names])
    run_items = []
    run_lines: list[str] = []
    run_index: list[tuple[str, int]] = []
    stats = ctx.cov.setdefault("minipy", {"programs": 0, "accepted_by_both": 0, "rejected_by_both": 0, "unsupported_units": 0,
                                          "units": 0, "reveals_compared": 0, "error_lines_compared": 0, "unreachable_compared": 0,
                                          "runs_compared": 0, "runs_out_of_fuel": 0, "runs_type_error_both": 0,
                                          "certified": 0, "accepted_not_certified": 0})
    info: dict[str, dict] = {}
    for m, (name, p, calls) in zip(names, progs):
        stats["programs"] += 1
        errs = [(ln, msg, code) for ln, sev, msg, code in mres[m] if sev != "note"]
        crash = [e for e in errs if e[2] == "crash"]
        if crash:
            ctx.violation(f"crash:{name}", f"mypy crashed on generated MiniPy program {name}", {"src": mods[m], "trace": crash[0][1]})
            continue
        hard = [(ln, msg, code) for ln, msg, code in errs if code != "unreachable"]
        unreach = sorted({ln for ln, msg, code in errs if code == "unreachable" and msg.startswith("Statement is unreachable")})
        notes = {}
        for ln, sev, msg, code in mres[m]:
            mm = re.match(r'Revealed type is "(.*)"$', msg)
            if sev == "note" and mm:
                notes.setdefault(ln, []).append(mm.group(1))
        parts = chk[names.index(m)].split(" | ")
        if len(parts) != 3 or parts[0].startswith("!"):
            ctx.broke("C", "driver", f"{name}: {chk[names.index(m)][:300]}", {"src": mods[m]})
            continue
        model_defs = parts[0].split()
        defs = defs_of(p)
        if len(model_defs) != len(defs):
            ctx.broke("C", "driver", f"{name}: {len(model_defs)} results for {len(defs)} definitions")
            continue
        accepted_model = parts[2][0] == "1"
        certified = parts[2][1] == "1"
        why_not: set[str] = set()
        if accepted_model and not certified:          # why the certifying checker declined (per definition)
            for x in parts[1].split():
                if x.startswith("U"):
                    why_not.add(x[1:])
                    rs = stats.setdefault("unsup_reasons_certifying", {})
                    rs[UNSUP_REASONS.get(x[1:], x)] = rs.get(UNSUP_REASONS.get(x[1:], x), 0) + 1
        accepted_mypy = not hard
        any_unsup = False
        clean_defs = set()
        for uname, idxs in units_of(p):
            stats["units"] += 1
            ms = [model_defs[i] for i in idxs]
            lo, hi = defs[idxs[0]][1], defs[idxs[-1]][2]
            uerrs = sorted(ln for ln, _, _ in hard if lo <= ln <= hi)
            if any(x.startswith("U") for x in ms):
                stats["unsupported_units"] += 1
                any_unsup = True
                for x in ms:
                    if x.startswith("U"):
                        rs = stats.setdefault("unsup_reasons_plain", {})
                        rs[UNSUP_REASONS.get(x[1:], x)] = rs.get(UNSUP_REASONS.get(x[1:], x), 0) + 1
                continue
            mrej = any(x.startswith("R") for x in ms)
            if mrej != bool(uerrs):
                ctx.broke("C", "verdict", f"{name} {uname}: model {'rejects' if mrej else 'accepts'} ({' '.join(ms)}), mypy errors: "
                          + "; ".join(f"{ln}: {msg}" for ln, msg, _ in hard if lo <= ln <= hi)[:400], {"src": mods[m], "prog": strip_private(p)})
                continue
            for i in idxs:
                dlo, dhi = defs[i][1], defs[i][2]
                derrs = sorted(ln for ln, _, _ in hard if dlo <= ln <= dhi)
                if model_defs[i] == "A" and not derrs:
                    clean_defs.add(i)
                if model_defs[i].startswith("R") and i != idxs[0] or (len(idxs) == 1 and model_defs[i].startswith("R")):
                    l = int(model_defs[i][1:])
                    if l != dlo and l != 0 and derrs:
                        stats["error_lines_compared"] += 1
                        if derrs[0] != l and derrs[0] != p.get('_except_of', {}).get(l):
                            ctx.broke("C", "error line", f"{name} {defs[i][0]}: model first error at line {l}, mypy at {derrs[0]}",
                                      {"src": mods[m]})
        if accepted_model:
            stats["certified" if certified else "accepted_not_certified"] += 1
        # revealed types and unreachable statements in definitions both sides accept
        mrev: dict[int, list[str]] = {}
        mdead = set()
        for a in ann[names.index(m)].split():
            if a.startswith("r"):
                l, t = a[1:].split(":", 1)
                mrev.setdefault(int(l), []).append(t)
            elif a.startswith("d"):
                mdead.add(int(a[1:]))
        static_types: dict[int, Any] = {}
        for ln, ts in notes.items():
            try:
                static_types[ln] = norm_ty(mku([norm_ty(parse_mypy_type(t)) for t in ts]) if len(ts) > 1 else parse_mypy_type(ts[0]))
            except TypeParseError as e:
                static_types[ln] = ('?', str(e))
        for i in sorted(clean_defs):
            dlo, dhi = defs[i][1], defs[i][2]
            lines = {l for l in list(mrev) + list(static_types) if dlo <= l <= dhi}
            for l in sorted(lines):
                a = union_canon(mrev[l], p) if l in mrev else None
                b = static_types.get(l)
                b = None if b is None else (b[1] if b[0] == '?' else union_canon([ty_canon(b)], p))
                stats["reveals_compared"] += 1
                if a != b:
                    ctx.broke("C", "revealed type", f"{name} line {l}: model {a}, mypy {b}", {"src": mods[m], "prog": strip_private(p)})
            du = {l for l in unreach if dlo <= l <= dhi}
            dm = {l for l in mdead if dlo <= l <= dhi}
            stats["unreachable_compared"] += len(du | dm)
            if du != dm:
                ctx.broke("C", "unreachable", f"{name} {defs[i][0]}: model marks {sorted(dm)}, mypy reports {sorted(du)}", {"src": mods[m]})
        if accepted_mypy and accepted_model:
            stats["accepted_by_both"] += 1
        elif not accepted_mypy and not accepted_model and not any_unsup:
            stats["rejected_by_both"] += 1
        info[m] = {"accepted_mypy": accepted_mypy, "accepted_model": accepted_model, "certified": certified, "why_not": why_not, "unreach": unreach,
                   "static": static_types, "p": p, "name": name, "calls": calls}
        if accepted_mypy and calls:
            run_items.append({"tag": m, "src": mods[m], "calls": [{"fn": f"f{f}", "args": [val_py(v) for v in vs]} for f, vs in calls]})
            for j, (f, vs) in enumerate(calls):
                run_lines.append("run " + " ".join(toks[m]) + f" {FUEL} {f} {len(vs)} " + " ".join(t for v in vs for t in val_tok(v)))
                run_index.append((m, j))
    if not run_items:
        return
    cres = run_cpython(tmp, run_items, workers=vlib.NPROC)
    mrun = dict(zip(run_index, run_driver(exe, run_lines)))
    for item in run_items:
        m = item["tag"]
        inf = info[m]
        rec = cres.get(m)
        if rec is None or "load_error" in rec:
            ctx.broke("C", "cpython glue", f"{inf['name']}: {rec and rec.get('load_error')}", {"src": mods[m]})
            continue
        for j, r in enumerate(rec["calls"]):
            mo = mrun[(m, j)]
            if r.get("timeout"):
                continue
            py = ("V " + val_canon(r["ok"])) if "ok" in r and r["ok"][0] != "?" else ("E " + r.get("exc", "?"))
            if r.get("exc") == "User":
                py = "E User " + val_canon(r["uval"])
            # (b) evaluator vs CPython
            if mo == "F":
                stats["runs_out_of_fuel"] += 1
            elif mo != "E Unmodelled":
                stats["runs_compared"] += 1
                ctx.add("traces_validated_against_impl")
                if mo != py:
                    ctx.broke("C", "evaluator vs CPython", f"{inf['name']} call {item['calls'][j]}: model {mo}, CPython {py} {r.get('msg', '')}",
                              {"src": mods[m]})
            # S: the property's oracle on real mypy + CPython
            bad = None
            if r.get("exc") in ("TypeError", "AttributeError"):
                bad = f"CPython raises {r['exc']} ({r.get('msg')}) at line {r.get('line')}"
                stats["runs_type_error_both"] += 1
            for ln, v in r.get("probes", []):
                st = inf["static"].get(ln)
                if st is not None and st[0] == '?':
                    continue
                if bad is None and v[0] != "?" and (st is None or not member(inf["p"], v, st)):
                    bad = f"probe at line {ln}: value {val_canon(v)} is not a member of the revealed type {ty_canon(st) if st else 'none (mypy: unreachable)'}"
            hit = sorted(set(r.get("lines", [])) & set(inf["unreach"]))
            if bad is None and hit:
                bad = f"line {hit[0]}, reported unreachable by mypy, was executed"
            if bad is not None:
                cap = inf["accepted_model"] and not inf["certified"]
                has_loop = "7" in inf["why_not"]
                fin = "10" in inf["why_not"]
                mask = "6" in inf["why_not"]
                key = (FIN_KEY if fin else CAP_KEY if has_loop else MASK_KEY if mask else MI_KEY) if cap else f"minipy:{inf['name']}"
                ctx.violation(key, f"mypy accepts the program but {bad}" + ((" [break/continue leaves a try block whose finally assigns: the binder's break snapshot ignores the finally block]" if fin else " [a condition's narrowing entry (from_assignment=False) hides an earlier assignment when break/continue snapshots are merged]" if mask and not has_loop else " [loop analysis stopped at its iteration cap before a fixed point]" if has_loop else " [isinstance narrowing of a union dropped an item that shares a subclass with the tested class]") if cap else ""),
                              {"kind": "minipy", "name": inf["name"], "src": mods[m], "call": item["calls"][j], "outcome": r,
                               "prog": strip_private(inf["p"]), "calls": inf["calls"]})
                if not cap and inf["accepted_model"] and inf["certified"]:
                    ctx.broke("P", "soundness theorem vs run", f"{inf['name']}: certified-accepted by the model but {bad}", {"src": mods[m]})


def gen_programs(ctx: vlib.Ctx, n: int, stream: str) -> list[tuple[str, dict, list]]:
    out = []
    for i in range(n):
        rng = vlib.Rng(ctx.seed, f"{stream}/{i}")
        g = Gen(rng, loops=True)
        p = g.program()
        calls = []
        for f, fd in p['funcs']:
            for _ in range(2):
                calls.append((f, [g.value(t) for _, t in fd['params']]))
        out.append((f"{stream}{i}", p, calls))
        # single-edit perturbations of the same program (same calls; only run if still accepted)
        for j in range(2):
            r = perturb(p, vlib.Rng(ctx.seed, f"{stream}/{i}/mut{j}"))
            if r is not None:
                # the recorded argument values must still be members of the (possibly changed) parameter types
                fds = dict(r[1]['funcs'])
                ok_calls = [(f, vs) for f, vs in calls
                            if f in fds and len(vs) == len(fds[f]['params'])
                            and all(member(r[1], v, t) for v, (_, t) in zip(vs, fds[f]['params']))]
                out.append((f"{stream}{i}~{r[0]}{j}", r[1], ok_calls))
    return out


# ---------------------------------------------------------------------------------------------
# S beyond the fragment: wider generator (search only)
# ---------------------------------------------------------------------------------------------

WIDE_HEADER = """from __future__ import annotations
from dataclasses import dataclass
from enum import Enum
from typing import Callable, Dict, Generic, Iterable, List, Optional, Protocol, Sequence, Tuple, TypeVar, Union, final
T = TypeVar("T")
U = TypeVar("U")
"""


def wide_program(rng: vlib.Rng) -> tuple[str, list[str], str]:
    """(source, [call expressions], family) : fully annotated, Any-free, no casts/ignores/TypeGuard,
    narrowing on locals only"""
    r = rng
    fam = r.choice(["generic", "container", "protocol", "dataclass", "enum_match", "try_loop", "for_narrow", "loop_chain",
                    "mi_isinstance", "optional_chain", "overlap_tuple", "callable"])
    k = r.randint(2, 7)
    ints = [r.randint(-3, 9) for _ in range(4)]
    body = ""
    calls: list[str] = []
    if fam == "generic":
        body = f"""
class Box(Generic[T]):
    def __init__(self, item: T) -> None:
        self.item = item
    def get(self) -> T:
        return self.item
    def map(self, f: Callable[[T], U]) -> Box[U]:
        return Box(f(self.item))
def first(xs: Sequence[T], default: T) -> T:
    return xs[0] if xs else default
def pick(a: T, b: U, flag: bool) -> Union[T, U]:
    return a if flag else b
def run(n: int, s: str) -> int:
    b = Box(n).map(lambda v: str(v) + s)
    reveal_type(b.get())
    w = first([s, b.get()], "d")
    reveal_type(w)
    p = pick(n, s, n > {ints[0]})
    reveal_type(p)
    if isinstance(p, int):
        return p + {ints[1]}
    return len(p) + len(w)
"""
        calls = [f"run({ints[2]}, 'ab')", f"run({ints[3]}, '')"]
    elif fam == "container":
        body = f"""
def collect(xs: List[int], names: Dict[str, int]) -> Tuple[int, List[str]]:
    total = 0
    out: List[str] = []
    for x in xs:
        if x > {ints[0]}:
            total += x
        elif str(x) in names:
            total += names[str(x)]
        else:
            out.append(str(x))
    for key, val in names.items():
        reveal_type(key)
        reveal_type(val)
        out.append(key * (val % 3))
    pairs = [(x, str(x)) for x in xs if x != {ints[1]}]
    reveal_type(pairs)
    d = {{s: i for i, s in pairs}}
    reveal_type(d)
    return total + sum(d.values()), sorted(out)
"""
        calls = [f"collect({[r.randint(-3, 9) for _ in range(k)]}, {{'1': 4, 'zz': 2}})", "collect([], {})"]
    elif fam == "protocol":
        body = f"""
class HasArea(Protocol):
    def area(self) -> int: ...
class Sq:
    def __init__(self, s: int) -> None:
        self.s = s
    def area(self) -> int:
        return self.s * self.s
class Rect:
    def __init__(self, w: int, h: int) -> None:
        self.w = w
        self.h = h
    def area(self) -> int:
        return self.w * self.h
def total(shapes: Iterable[HasArea]) -> int:
    t = 0
    for sh in shapes:
        reveal_type(sh)
        t += sh.area()
    return t
def run(n: int) -> int:
    shapes: List[HasArea] = [Sq(n), Rect(n, {ints[0]})]
    x: Union[Sq, Rect] = Sq(n) if n > {ints[1]} else Rect(1, n)
    if isinstance(x, Sq):
        reveal_type(x)
        return total(shapes) + x.s
    reveal_type(x)
    return total(shapes) + x.w + x.h
"""
        calls = [f"run({ints[2]})", f"run({ints[3]})"]
    elif fam == "dataclass":
        body = f"""
@dataclass
class P:
    x: int
    y: Optional[int] = None
    tag: str = "p"
@dataclass
class Q(P):
    z: int = {ints[0]}
def norm(p: P) -> int:
    y = p.y
    if y is None:
        y = {ints[1]}
    reveal_type(y)
    if isinstance(p, Q):
        reveal_type(p)
        return p.x + y + p.z
    return p.x + y + len(p.tag)
def run(n: int) -> int:
    ps: List[P] = [P(n), Q(n, n + 1), P(n, None, "t"), Q(1, None, "q", n)]
    return sum(norm(p) for p in ps)
"""
        calls = [f"run({ints[2]})"]
    elif fam == "enum_match":
        body = f"""
class Color(Enum):
    RED = 1
    GREEN = 2
    BLUE = 3
def name(c: Color) -> str:
    if c is Color.RED:
        return "r"
    elif c is Color.GREEN:
        return "g"
    else:
        reveal_type(c)
        return "b"
def classify(v: Union[int, str, Tuple[int, int], None]) -> int:
    match v:
        case None:
            return 0
        case int():
            reveal_type(v)
            return v + 1
        case str():
            reveal_type(v)
            return len(v)
        case (a, b):
            reveal_type(a)
            return a + b
    return -1
def run(n: int) -> str:
    cs = [Color.RED, Color.GREEN, Color.BLUE]
    vals: List[Union[int, str, Tuple[int, int], None]] = [n, "ab", (n, {ints[0]}), None, True]
    return name(cs[n % 3]) + str(sum(classify(v) for v in vals))
"""
        calls = [f"run({abs(ints[2])})", f"run({abs(ints[3]) + 1})"]
    elif fam == "try_loop":
        body = f"""
def parse(s: str) -> Optional[int]:
    try:
        return int(s)
    except ValueError:
        return None
def run(items: List[str]) -> int:
    acc: Optional[int] = None
    n = 0
    while n < len(items):
        v = parse(items[n])
        n += 1
        if v is None:
            continue
        if acc is None:
            acc = v
        else:
            acc = acc + v
        if acc > {ints[0] + 20}:
            break
    reveal_type(acc)
    return -1 if acc is None else acc
"""
        calls = ["run(['1', 'x', '22', '5'])", "run([])", "run(['q'])"]
    elif fam == "for_narrow":
        body = f"""
class A:
    def __init__(self, v: int) -> None:
        self.v = v
class B(A):
    def extra(self) -> int:
        return self.v * 2
def run(xs: List[Union[A, int, None]]) -> int:
    t = 0
    last: Union[A, int, None] = None
    for x in xs:
        if x is None:
            continue
        if isinstance(x, B):
            reveal_type(x)
            t += x.extra()
        elif isinstance(x, A):
            reveal_type(x)
            t += x.v
        else:
            reveal_type(x)
            t += x
        last = x
    reveal_type(last)
    if isinstance(last, A):
        t += last.v
    return t
"""
        calls = [f"run([A(1), B({ints[0]}), None, {ints[1]}, True])", "run([])"]
    elif fam == "loop_chain":
        names = [f"x{i}" for i in range(k)]
        decl = "\n".join(f"    {n}: Optional[int] = None" for n in names) + "\n" + "\n".join(f"    {n} = None" for n in names)
        shift = "\n".join(f"        {names[i]} = {names[i - 1]}" for i in range(k - 1, 0, -1))
        body = f"""
def run(limit: int) -> int:
{decl}
    n = 0
    while n < limit:
        n = n + 1
{shift}
        {names[0]} = n
    reveal_type({names[-1]})
    if {names[-1]} is None:
        return 0
    return {names[-1]} + 1
"""
        calls = [f"run({k + 2})", "run(1)"]
    elif fam == "mi_isinstance":
        body = f"""
class A:
    pass
class B:
    pass
class B2(B):
    def only(self) -> int:
        return {ints[0]}
class D(A, B):
    pass
def run(x: Union[A, B2]) -> int:
    if isinstance(x, B):
        reveal_type(x)
        return x.only()
    return 0
"""
        calls = [r.choice(["run(D())", "run(B2())", "run(A())"]), "run(D())"]
    elif fam == "optional_chain":
        body = f"""
class Node:
    def __init__(self, val: int, nxt: Optional[Node]) -> None:
        self.val = val
        self.nxt = nxt
def length(n: Optional[Node]) -> int:
    c = 0
    cur = n
    while cur is not None:
        reveal_type(cur)
        c += cur.val
        cur = cur.nxt
    reveal_type(cur)
    return c
def run(k: int) -> int:
    head: Optional[Node] = None
    i = 0
    while i < k:
        head = Node(i, head)
        i += 1
    return length(head)
"""
        calls = [f"run({k})", "run(0)"]
    elif fam == "overlap_tuple":
        body = f"""
def swap(p: Tuple[int, str]) -> Tuple[str, int]:
    a, b = p
    return b, a
def run(n: int) -> int:
    t: Union[Tuple[int, str], Tuple[()], None] = (n, "s") if n > {ints[0]} else (() if n > {ints[1]} else None)
    if not t:
        reveal_type(t)
        return 0
    reveal_type(t)
    s, m = swap(t)
    return m + len(s)
"""
        calls = [f"run({ints[2]})", f"run({ints[0] + 1})", f"run({ints[1] - 1})"]
    else:
        body = f"""
def compose(f: Callable[[int], T], g: Callable[[T], U]) -> Callable[[int], U]:
    def h(x: int) -> U:
        return g(f(x))
    return h
def apply_all(fs: List[Callable[[int], int]], x: int) -> List[int]:
    return [f(x) for f in fs]
def run(n: int) -> int:
    h = compose(lambda x: str(x) * 2, len)
    reveal_type(h)
    fs: List[Callable[[int], int]] = [h, abs, lambda z: z + {ints[0]}]
    out = apply_all(fs, n)
    reveal_type(out)
    return sum(out)
"""
        calls = [f"run({ints[2]})", f"run({ints[3]})"]
    return WIDE_HEADER + body, calls, fam


WIDE_RUN_CHILD = r'''
import json, signal, sys
job = json.load(open(sys.argv[1]))
sys.setrecursionlimit(400)
def tyname(v, depth=0):
    if v is None: return ["None"]
    if isinstance(v, bool): return ["bool", v]
    if isinstance(v, int): return ["int", v]
    if isinstance(v, str): return ["str", v]
    if isinstance(v, float): return ["float"]
    if depth > 4: return ["?"]
    if isinstance(v, tuple): return ["tuple", [tyname(x, depth + 1) for x in v]]
    if isinstance(v, list): return ["list", [tyname(x, depth + 1) for x in v[:6]]]
    if isinstance(v, set): return ["set", [tyname(x, depth + 1) for x in list(v)[:6]]]
    if isinstance(v, dict): return ["dict", [[tyname(a, depth + 1), tyname(b, depth + 1)] for a, b in list(v.items())[:6]]]
    if callable(v) and not isinstance(v, type): return ["callable"]
    return ["obj", [c.__name__ for c in type(v).__mro__], getattr(v, "name", None) if "Enum" in [c.__name__ for c in type(v).__mro__] else None]
class Timeout(Exception): pass
def on_alarm(*a): raise Timeout()
signal.signal(signal.SIGALRM, on_alarm)
results = []
for item in job["items"]:
    probes, lines, tag = [], set(), item["tag"]
    def reveal_type(v, _p=probes):
        _p.append([sys._getframe(1).f_lineno, tyname(v)])
        return v
    def tracer(frame, event, arg, _l=lines, _t=tag):
        if frame.f_code.co_filename != _t: return None
        if event == "line": _l.add(frame.f_lineno)
        return tracer
    ns = {"__name__": tag, "reveal_type": reveal_type}
    rec = {"tag": tag, "calls": []}
    sys.modules[tag] = type(sys)(tag)
    try:
        exec(compile(item["src"], tag, "exec"), ns)
        sys.modules[tag].__dict__.update(ns)
    except BaseException as e:
        rec["load_error"] = type(e).__name__ + ": " + str(e)[:200]
        results.append(rec); continue
    for call in item["calls"]:
        del probes[:]
        lines.clear()
        r = {"call": call}
        signal.setitimer(signal.ITIMER_REAL, 2.0)
        try:
            sys.settrace(tracer)
            try:
                v = eval(call, ns)
            finally:
                sys.settrace(None)
            r["ok"] = repr(v)[:100]
        except (Timeout, RecursionError):
            r["timeout"] = True
        except BaseException as e:
            sys.settrace(None)
            r["exc"] = type(e).__name__
            r["msg"] = str(e)[:200]
            tb, ln = e.__traceback__, None
            while tb is not None:
                if tb.tb_frame.f_code.co_filename == tag: ln = tb.tb_lineno
                tb = tb.tb_next
            r["line"] = ln
        finally:
            signal.setitimer(signal.ITIMER_REAL, 0)
        r["probes"] = list(probes)
        r["lines"] = sorted(lines)
        rec["calls"].append(r)
    results.append(rec)
json.dump(results, open(sys.argv[2], "w"))
'''


WIDE_PROTOCOLS = {"HasArea"}      # structural types: membership is not decided by the MRO


def split_top(s: str, sep: str) -> list[str]:
    out, depth, cur, i = [], 0, "", 0
    while i < len(s):
        ch = s[i]
        if ch in "[(":
            depth += 1
        elif ch in "])":
            depth -= 1
        if depth == 0 and s.startswith(sep, i):
            out.append(cur)
            cur = ""
            i += len(sep)
            continue
        cur += ch
        i += 1
    out.append(cur)
    return out


def wide_member(v: list, t: str) -> bool | None:
    """runtime shape v (from WIDE_RUN_CHILD.tyname) is a member of mypy's type string t; None = cannot tell"""
    t = t.strip()
    parts = split_top(t, " | ")
    if len(parts) > 1:
        rs = [wide_member(v, p) for p in parts]
        return True if any(x is True for x in rs) else (None if any(x is None for x in rs) else False)
    if t.endswith("?"):
        t = t[:-1]
    k = v[0]
    if k == "?":
        return None
    if t == "None":
        return k == "None"
    if t == "Never":
        return False
    if t == "int":
        return k in ("int", "bool")
    if t == "float":
        return k in ("int", "bool", "float")
    if t in ("bool", "str"):
        return k == t
    if t == "object":
        return True
    m = re.fullmatch(r"Literal\[(.*)\]", t)
    if m:
        lit = m.group(1)
        if lit in ("True", "False"):
            return k == "bool" and v[1] == (lit == "True")
        if re.fullmatch(r"-?\d+", lit):
            return k in ("int", "bool") and v[1] == int(lit)
        if lit.startswith("'"):
            return k == "str" and repr(v[1]) == lit
        em = re.fullmatch(r"(?:[\w]+\.)*(\w+)\.(\w+)", lit)
        if em:                       # Literal[mod.Enum.MEMBER]
            if k != "obj":
                return False
            return em.group(1) in v[1] and len(v) > 2 and v[2] == em.group(2)
        return None
    m = re.fullmatch(r"(?:builtins\.)?(list|set|Sequence|Iterable)\[(.*)\]", t) or re.fullmatch(r"typing\.(Sequence|Iterable)\[(.*)\]", t)
    if m:
        if m.group(1) in ("list", "set") and k != m.group(1):
            return False
        if k not in ("list", "set", "tuple"):
            return None
        rs = [wide_member(x, m.group(2)) for x in v[1]]
        return False if any(x is False for x in rs) else (None if any(x is None for x in rs) else True)
    m = re.fullmatch(r"(?:builtins\.)?dict\[(.*)\]", t)
    if m:
        if k != "dict":
            return False
        kv = split_top(m.group(1), ", ")
        if len(kv) != 2:
            return None
        rs = [wide_member(a, kv[0]) for a, _ in v[1]] + [wide_member(b, kv[1]) for _, b in v[1]]
        return False if any(x is False for x in rs) else (None if any(x is None for x in rs) else True)
    m = re.fullmatch(r"tuple\[(.*)\]", t)
    if m:
        if k != "tuple":
            return False
        if m.group(1) == "()":
            return len(v[1]) == 0
        its = split_top(m.group(1), ", ")
        if its and its[-1] == "...":
            rs = [wide_member(x, its[0]) for x in v[1]]
        elif len(its) != len(v[1]):
            return False
        else:
            rs = [wide_member(x, y) for x, y in zip(v[1], its)]
        return False if any(x is False for x in rs) else (None if any(x is None for x in rs) else True)
    if t.startswith("def ") or t.startswith("Overload("):
        return k == "callable" or None
    m = re.fullmatch(r"([\w.]+)(\[.*\])?", t)
    if m and k == "obj":
        nm = m.group(1).split(".")[-1]
        return True if nm in v[1] else (None if nm in WIDE_PROTOCOLS else False)
    if m and k in ("int", "bool", "str", "None", "tuple", "list", "dict", "set", "float") and "." in m.group(1) and not m.group(1).startswith("builtins."):
        return False      # a user class type cannot contain a builtin scalar/container value
    return None


def wide_stage(ctx: vlib.Ctx, tmp: str, n: int, n_flow: int | None = None) -> None:
    mods: dict[str, str] = {}
    meta: dict[str, tuple[list[str], str]] = {}
    for i in range(n):
        src, calls, fam = wide_program(vlib.Rng(ctx.seed, f"wide/{i}"))
        mods[f"w{i}"] = src
        meta[f"w{i}"] = (calls, fam)
    for i, (name, src, calls) in enumerate(directed_shard()):        # fixed corpus: independent of the seed
        mods[f"wd{i}"] = src
        meta[f"wd{i}"] = (calls, "directed:" + name)
    for i in range(n_flow if n_flow is not None else n):
        src, calls = FlowGen(vlib.Rng(ctx.seed, f"flow/{i}")).program()
        mods[f"wf{i}"] = src
        meta[f"wf{i}"] = (calls, "flow")
    mres = run_mypy(tmp, mods, workers=vlib.NPROC)
    stats = ctx.cov.setdefault("wide", {"programs": 0, "accepted": 0, "rejected": 0, "runs": 0, "probes_checked": 0,
                                        "probes_undecided": 0, "families": {}})
    items = []
    info = {}
    for m in sorted(mods):
        stats["programs"] += 1
        fam = meta[m][1]
        stats["families"][fam] = stats["families"].get(fam, 0) + 1
        errs = [(ln, msg, code) for ln, sev, msg, code in mres[m] if sev != "note"]
        if any(code == "crash" for _, _, code in errs):
            ctx.violation(f"wide-crash:{fam}", f"mypy crashed on a generated {fam} program", {"src": mods[m]})
            continue
        hard = [e for e in errs if e[2] != "unreachable"]
        if hard:
            stats["rejected"] += 1
            stats.setdefault("rejected_families", {})[fam] = hard[0][1][:80]
            continue
        stats["accepted"] += 1
        notes: dict[int, list[str]] = {}
        for ln, sev, msg, code in mres[m]:
            mm = re.match(r'Revealed type is "(.*)"$', msg)
            if sev == "note" and mm:
                notes.setdefault(ln, []).append(mm.group(1))
        # a line that carries another diagnostic was analysed in some loop pass: mypy's per-iteration bookkeeping may still
        # list a compound-statement header as unreachable (reporting artefact, not a soundness claim)
        analysed = {ln for ln, sev, msg, code in mres[m] if not msg.startswith("Statement is unreachable")}
        info[m] = (notes, sorted({ln for ln, msg, code in errs if msg.startswith("Statement is unreachable")} - analysed))
        items.append({"tag": m, "src": mods[m], "calls": meta[m][0]})
    if not items:
        return
    child = os.path.join(tmp, "_wide_child.py")
    open(child, "w").write(WIDE_RUN_CHILD)
    jf, of = os.path.join(tmp, "_wjob.json"), os.path.join(tmp, "_wout.json")
    json.dump({"items": items}, open(jf, "w"))
    env = dict(os.environ, PYTHONHASHSEED="0")
    env.pop("PYTHONPATH", None)
    pr = subprocess.run([vlib.PY, "-I", child, jf, of], env=env, cwd=tmp, capture_output=True, text=True, timeout=1200)
    if not os.path.exists(of):
        ctx.broke("S", "wide cpython child", pr.stderr[-1500:])
        return
    for rec in json.load(open(of)):
        m = rec["tag"]
        fam = meta[m][1]
        notes, unreach = info[m]
        if "load_error" in rec:
            ctx.broke("S", "wide generator glue", f"{fam}: {rec['load_error']}", {"src": mods[m]})
            continue
        for r in rec["calls"]:
            if r.get("timeout"):
                continue
            stats["runs"] += 1
            ctx.add("evaluations")
            bad = None
            if r.get("exc") in ("TypeError", "AttributeError"):
                bad = f"CPython raises {r['exc']} ({r.get('msg')}) at line {r.get('line')}"
            for ln, shape in r.get("probes", []):
                ts = notes.get(ln)
                if ts is None:
                    bad = bad or f"probe at line {ln} executed but mypy revealed no type there (unreachable for mypy)"
                    continue
                res = [wide_member(shape, t) for t in ts]
                if any(x is True for x in res) or any(x is None for x in res):
                    stats["probes_checked" if any(x is True for x in res) else "probes_undecided"] += 1
                else:
                    stats["probes_checked"] += 1
                    bad = bad or f"probe at line {ln}: run-time value {shape} is not a member of the revealed type {' / '.join(ts)}"
            hit = sorted(set(r.get("lines", [])) & set(unreach))
            if bad is None and hit:
                bad = f"line {hit[0]}, reported unreachable by mypy, was executed"
            if bad is not None:
                key = {"loop_chain": CAP_KEY, "mi_isinstance": MI_KEY, "directed:flag-identity": FLAG_KEY,
                       "directed:swap-narrowed": SWAP_KEY, "directed:walrus-condition": WALRUS_KEY,
                       "directed:break-in-narrowing-frame": MASK_KEY, "directed:class-pattern-literal-subject": PATLIT_KEY}.get(fam) or f"wide:{fam}:{re.sub(r'[0-9]+', 'N', bad[:70])}"
                ctx.violation(key, f"[{fam}] mypy accepts the program but {bad}", {"kind": "wide", "family": fam, "src": mods[m], "call": r["call"], "outcome": r})


# ---------------------------------------------------------------------------------------------
def run(ctx: vlib.Ctx) -> None:
    ctx.cov["rule"] = ("MiniPy programs well-typed by construction (classes with single/multiple inheritance, methods, functions, "
                       "if/elif/while/assert, all narrowing forms on locals) + 2 single-edit perturbations each + hand-written corpus; "
                       "non-trivial = a definition on which model and mypy are compared (verdict, first error line, revealed types, "
                       "unreachable lines) or a CPython run compared with the extracted evaluator; wide generator: 12 template families + a fixed directed "
                       "shard (nested try/with, closures vs later reassignment in for-else/while-else/try-else/match, identity/equality/in on "
                       "enums incl. member-less bases, single-member enums and Flag) + random control-flow programs (try/except/else/finally, with, "
                       "loops with break/continue/else, match with guards, closures, 10 union kinds) whose reads are all reveal_type probes")
    ctx.assumptions += [
        "CPython 3.12.1 is the oracle for run-time behaviour; mypy is run in-process (mypy.build.build, incremental off) with strict flags + "
        "disallow_any_* + warn_unreachable; errors with code [unreachable] are not counted as rejections but checked against execution",
        "the checker model (coq/C01/Check.v) is hand-written; its tie to /repo is the correspondence of this run (verdicts, error lines, "
        "revealed types, unreachable statements), not a translation",
        "MRO of every class is supplied by the generator (C3 computed in Python) and cross-checked by CPython executing the class statements",
        "object identity is not modelled: == on objects and < on tuples evaluate to 'Unmodelled' in the evaluator and are never generated",
        "hidden can_be_true/can_be_false flags and Literal types of mypy are erased when comparing revealed types "
        "(Literal[0] ~ int, Literal[True] ~ bool); the generator does not re-test the truthiness of the same variable in a nested branch",
        "the positive theorems are about the CERTIFYING checker (check_prog_certified = mypy's algorithm + validation of merges, loop results "
        "and isinstance item drops); the harness reports how many model-accepted programs are certified (cov.minipy.certified)",
        "extraction: ExtrOcamlBasic only; driver tools/ocaml/c01_driver.ml + zio.ml (I/O only)",
    ]
    ctx.prove("C01/Properties.v", ["C01"])
    exe = vlib.build_extracted("c01", "C01/Extract.v", "tools/ocaml/c01_driver.ml")
    tmp = tempfile.mkdtemp(prefix="verif-c01-")
    try:
        if exe is None:
            ctx.broke("C", "extraction", "extracted model does not build")
        else:
            progs = corpus() + gen_programs(ctx, ctx.n(14, 300), "g")
            ctx.log(f"MiniPy: {len(progs)} programs (corpus + generated + perturbed)")
            for k in range(0, len(progs), 240):
                sub = os.path.join(tmp, f"b{k}")
                os.makedirs(sub)
                minipy_stage(ctx, exe, progs[k:k + 240], sub, f"x{k}_")
                shutil.rmtree(sub, ignore_errors=True)
            st = ctx.cov["minipy"]
            ctx.add("evaluations", st["units"] + st["runs_compared"])
            ctx.cov["distinct_nontrivial"] = st["units"] - st["unsupported_units"] + st["runs_compared"]
            st["certified_of_model_accepted"] = f"{st['certified']}/{st['certified'] + st['accepted_not_certified']}"
            ctx.log("MiniPy stats: " + json.dumps(st))
            src, toks = emit(progs[3][1])
            ctx.sample({"program": progs[3][0], "source_head": src[:400]})
        wsub = os.path.join(tmp, "wide")
        os.makedirs(wsub)
        wide_stage(ctx, wsub, ctx.n(20, 400), ctx.n(20, 300))
        ctx.log("wide stats: " + json.dumps(ctx.cov.get("wide")))
    finally:
        shutil.rmtree(tmp, ignore_errors=True)


def replay(ctx: vlib.Ctx, path: str) -> None:
    """re-run one recorded violation on real mypy + CPython"""
    d = json.load(open(path))
    rp = d.get("replay", d)
    tmp = tempfile.mkdtemp(prefix="verif-c01-replay-")
    try:
        src = rp["src"]
        res = run_mypy(tmp, {"replay_mod": src.replace("__prog__", "replay_mod")}, workers=1)["replay_mod"]
        print("mypy:", [(ln, sev, msg, code) for ln, sev, msg, code in res if sev != "note" and code != "unreachable"] or "no errors")
        print("mypy notes/unreachable:", [(ln, msg) for ln, sev, msg, code in res if sev == "note" or code == "unreachable"][:12])
        if rp.get("kind") == "wide":
            child = os.path.join(tmp, "_wide_child.py")
            open(child, "w").write(WIDE_RUN_CHILD)
            json.dump({"items": [{"tag": "replay_mod", "src": src, "calls": [rp["call"]]}]}, open(os.path.join(tmp, "j.json"), "w"))
            subprocess.run([vlib.PY, "-I", child, os.path.join(tmp, "j.json"), os.path.join(tmp, "o.json")], cwd=tmp, timeout=120)
            out = json.load(open(os.path.join(tmp, "o.json")))
        else:
            out = list(run_cpython(tmp, [{"tag": "replay_mod", "src": src, "calls": [rp["call"]]}], workers=1).values())
        print("CPython:", json.dumps(out)[:1500])
        r = out[0]["calls"][0]
        if r.get("exc") in ("TypeError", "AttributeError") and not [1 for ln, sev, msg, code in res if sev == "error" and code != "unreachable"]:
            ctx.violation(d.get("key", "replay"), "replayed: mypy accepts, CPython raises " + r["exc"], rp)
    finally:
        shutil.rmtree(tmp, ignore_errors=True)


# ---------------------------------------------------------------------------------------------
# S beyond the fragment, part 2: control-flow / narrowing programs that are well typed by construction:
# every read of a narrowed local is a `reveal_type` probe, so the oracle is "run-time value is a member of the
# revealed type" (plus TypeError/AttributeError and execution of lines reported unreachable)
# ---------------------------------------------------------------------------------------------

FLOW_HEADER = """from __future__ import annotations
from enum import Enum, Flag
from types import TracebackType
from typing import Callable, Dict, List, Literal, Optional, Set, Tuple, Type, Union, final
class E1(Exception):
    pass
class E2(Exception):
    pass
class E3(Exception):
    pass
class A:
    def __init__(self, v: int) -> None:
        self.v = v
class B(A):
    pass
class Color(Enum):
    RED = 1
    GREEN = 2
    BLUE = 3
class Base(Enum):
    pass
class Kind(Base):
    K1 = 1
    K2 = 2
class One(Enum):
    ONLY = 1
class Perm(Flag):
    R = 1
    W = 2
class Maybe:
    def __init__(self, swallow: bool) -> None:
        self.swallow = swallow
    def __enter__(self) -> Maybe:
        return self
    def __exit__(self, t: Optional[Type[BaseException]], v: Optional[BaseException], tb: Optional[TracebackType]) -> bool:
        return self.swallow
class Plain:
    def __enter__(self) -> Plain:
        return self
    def __exit__(self, t: Optional[Type[BaseException]], v: Optional[BaseException], tb: Optional[TracebackType]) -> None:
        return None
class Lenny:
    def __init__(self, n: int) -> None:
        self.n = n
    def __len__(self) -> int:
        return self.n
class LennyChild(Lenny):
    pass
@final
class FinalLenny(Lenny):
    pass
class Booly:
    def __init__(self, b: bool) -> None:
        self.b = b
    def __bool__(self) -> bool:
        return self.b
class NeverTrue:
    def __bool__(self) -> Literal[False]:
        return False
class Sealed:
    def __init__(self, parts: List[int]) -> None:
        self.frozen = tuple(parts)
class Open:
    def __init__(self) -> None:
        self.parts: List[int] = []
    def __iadd__(self, v: int) -> Union[Open, Sealed]:
        if v < 0:
            return Sealed(self.parts)
        self.parts.append(v)
        return self
    def __ior__(self, v: int) -> Union[Open, Sealed]:
        return Sealed(self.parts + [v])
TRIGGER: List[int] = [0]
def mark(k: int) -> None:
    if TRIGGER[0] == k:
        if k % 3 == 0:
            raise E1()
        if k % 3 == 1:
            raise E2()
        raise E3()
"""

# kind -> (annotation, [value expressions], [narrowing conditions on {x}], match arms)
FLOW_KINDS: dict[str, tuple[str, list[str], list[str], list[str]]] = {
    "oi": ("Optional[int]", ["None", "1", "0", "7"], ["{x} is None", "{x} is not None", "{x}", "not {x}", "isinstance({x}, int)"],
           ["case None:", "case int(n0) if n0 > 3:", "case 1 | 2:", "case int():", "case _:"]),
    "num": ("Union[int, float, str]", ["1", "0", "2.5", "0.0", "'s'", "''"],
            ["isinstance({x}, int)", "isinstance({x}, (int, float))", "isinstance({x}, str)", "not {x}", "{x} == 0"],
            ["case float(f0) if f0 > 1.0:", "case int() | float():", "case str(s0):", "case _:"]),
    "bts": ("Union[bytes, str, bool, None]", ["None", "b'x'", "b''", "'x'", "True", "False"],
            ["{x} is None", "isinstance({x}, bytes)", "isinstance({x}, (bytes, str))", "not {x}", "{x} is True"],
            ["case None:", "case bool(bb):", "case str() | bytes():", "case _:"]),
    "col2": ("Union[Set[int], List[int], Tuple[int, ...], None]", ["None", "{{1}}", "set()", "[1, 2, 3]", "[]", "(1, 2)", "()"],
             ["{x} is None", "isinstance({x}, set)", "isinstance({x}, (list, tuple))", "not {x}", "{x}"],
             ["case None:", "case set():", "case [first, *rest]:", "case []:", "case list(l0):", "case tuple():", "case _:"]),
    "tru": ("Union[Lenny, LennyChild, FinalLenny, Booly, NeverTrue, int]",
            ["Lenny(0)", "Lenny(2)", "LennyChild(0)", "FinalLenny(0)", "FinalLenny(3)", "Booly(True)", "Booly(False)", "NeverTrue()", "0", "4"],
            ["{x}", "not {x}", "isinstance({x}, Lenny)", "isinstance({x}, int)", "not {x} or isinstance({x}, Booly)",
             "{x} and not isinstance({x}, int)", "isinstance({x}, FinalLenny) and not {x}"],
            ["case int():", "case FinalLenny():", "case Lenny(n=0):", "case Booly(b=True):", "case _:"]),
    "acc": ("Union[Open, Sealed]", ["Open()", "Sealed([1])"],
            ["isinstance({x}, Open)", "isinstance({x}, Sealed)", "not isinstance({x}, Open)"],
            ["case Open():", "case Sealed(frozen=()):", "case _:"]),
    "ois": ("Union[int, str, None]", ["None", "2", "'s'", "''"],
            ["{x} is None", "isinstance({x}, str)", "isinstance({x}, int)", "isinstance({x}, (int, str))", "not {x}", "{x} is not None and isinstance({x}, int)"],
            ["case None:", "case int():", "case str() if len({x}) > 0:", "case str():", "case _:"]),
    "col": ("Union[Color, None]", ["None", "Color.RED", "Color.GREEN", "Color.BLUE"],
            ["{x} is Color.RED", "{x} == Color.GREEN", "{x} in (Color.RED, Color.BLUE)", "{x} is None", "{x} is not Color.BLUE", "{x} != Color.RED"],
            ["case Color.RED:", "case Color.GREEN | Color.BLUE:", "case None:", "case _:"]),
    "coli": ("Union[Color, int]", ["Color.RED", "Color.BLUE", "1", "5"],
             ["{x} is Color.RED", "{x} == Color.BLUE", "isinstance({x}, Color)", "isinstance({x}, int)", "{x} in (Color.GREEN, Color.BLUE)"],
             ["case Color.RED:", "case int():", "case _:"]),
    "base": ("Union[Base, int]", ["Kind.K1", "Kind.K2", "3", "yb"],
             ["{x} is yb", "{x} == yb", "{x} in (yb,)", "isinstance({x}, Base)", "{x} is not yb", "{x} != yb"],
             ["case int():", "case Base():", "case _:"]),
    "one": ("Union[One, int, None]", ["One.ONLY", "4", "None"],
            ["{x} is One.ONLY", "{x} == One.ONLY", "{x} is None", "{x} is not One.ONLY", "isinstance({x}, int)"],
            ["case One.ONLY:", "case None:", "case int():", "case _:"]),
    "perm": ("Union[Perm, None]", ["None", "Perm.R", "Perm.W"],
             ["{x} is None", "{x} is not None", "isinstance({x}, Perm)"],
             ["case None:", "case Perm():", "case _:"]),
    "bs": ("Union[bool, str]", ["True", "False", "'t'", "''"],
           ["{x} is True", "{x} is False", "isinstance({x}, bool)", "isinstance({x}, str)", "not {x}"],
           ["case True:", "case False:", "case str():", "case _:"]),
    "obj": ("Union[A, B, None]", ["None", "A(1)", "B(2)"],
            ["{x} is None", "isinstance({x}, B)", "isinstance({x}, A)", "{x} is not None and {x}.v > 1", "not {x}"],
            ["case None:", "case B(v=vv):", "case A(v=1):", "case A():", "case _:"]),
    "seq": ("Union[List[int], Tuple[int, str], Dict[str, int], None]", ["None", "[1, 2]", "[]", "(3, 'p')", "{{'k': 1}}", "{{}}", "{{'k': 2, 'j': 3}}"],
            ["{x} is None", "isinstance({x}, list)", "isinstance({x}, dict)", "isinstance({x}, tuple)", "not {x}"],
            ["case None:", "case [p0, p1]:", "case []:", "case (int(), str()):", "case {{'k': 1}}:", "case {{'k': kv, **rest}}:", "case dict(d0):", "case list([q0, *qs]):", "case _:"]),
}


class FlowGen:
    def __init__(self, rng: vlib.Rng) -> None:
        self.r = rng
        self.marks = 0
        self.names = 0
        ks = sorted(FLOW_KINDS)
        self.vars = {f"x{i}": self.r.choice(ks) for i in range(self.r.randint(2, 3))}
        if self.r.random() < 0.35:
            self.vars["x9"] = self.vars["x0"]          # a second local of the same kind (unpacking targets)

    def fresh(self, p: str) -> str:
        self.names += 1
        return f"{p}{self.names}"

    def probe(self, ind: str) -> list[str]:
        return [f"{ind}reveal_type({self.r.choice(sorted(self.vars))})"]

    def assign(self, ind: str) -> list[str]:
        x = self.r.choice(sorted(self.vars))
        return [f"{ind}{x} = {self.r.choice(FLOW_KINDS[self.vars[x]][1]).replace('{{', '{').replace('}}', '}')}"]

    def mark(self, ind: str) -> list[str]:
        self.marks += 1
        return [f"{ind}mark({self.marks})"]

    def special_assign(self, ind: str) -> list[str]:
        """augmented assignment through __iadd__/__ior__, or unpacking into two locals of the same kind"""
        r = self.r
        ints = [x for x, k in sorted(self.vars.items()) if k in ("oi", "ois", "coli", "one", "num")]
        if ints and r.random() < 0.6:
            x = r.choice(ints)
            return [f"{ind}if isinstance({x}, int):", f"{ind}    {x} {r.choice(['+=', '-=', '*='])} {r.choice([1, 2])}"]
        xs = sorted(self.vars)
        pairs = [(a, b) for a in xs for b in xs if a < b and self.vars[a] == self.vars[b]]
        if pairs:
            a, b = r.choice(pairs)
            vals = FLOW_KINDS[self.vars[a]][1]
            v1, v2 = (r.choice(vals).replace('{{', '{').replace('}}', '}') for _ in range(2))
            return [f"{ind}{a}, {b} = {v1}, {v2}"]
        return self.assign(ind)

    def cond(self) -> str:
        x = self.r.choice(sorted(self.vars))
        return self.r.choice(FLOW_KINDS[self.vars[x]][2]).format(x=x)

    def block(self, ind: str, depth: int, n: int | None = None, in_loop: bool = False) -> list[str]:
        out: list[str] = []
        for _ in range(n if n is not None else self.r.randint(2, 4)):
            out += self.stmt(ind, depth, in_loop)
            if self.r.random() < 0.6:
                out += self.probe(ind)
        return out or [f"{ind}pass"]

    def stmt(self, ind: str, depth: int, in_loop: bool) -> list[str]:
        r = self.r
        k = r.random()
        i2 = ind + "    "
        if depth <= 0 or k < 0.24:
            return self.assign(ind) + (self.mark(ind) if r.random() < 0.5 else [])
        if k < 0.30:
            return self.special_assign(ind)
        if k < 0.36:
            return self.mark(ind)
        if k < 0.50:
            out = [f"{ind}if {self.cond()}:"] + self.block(i2, depth - 1, None, in_loop)
            if r.random() < 0.4:
                out += [f"{ind}elif {self.cond()}:"] + self.block(i2, depth - 1, None, in_loop)
            if r.random() < 0.7:
                out += [f"{ind}else:"] + self.block(i2, depth - 1, None, in_loop)
            return out
        if k < 0.68:
            out = [f"{ind}try:"] + self.block(i2, depth - 1, None, in_loop)
            hs = r.sample(["E1", "E2", "E3", "(E1, E2)", "(E2, E3)"], r.randint(1, 2))
            for h in hs:
                out += [f"{ind}except {h}:"] + self.block(i2, depth - 1, r.randint(1, 2), in_loop)
            if r.random() < 0.4:
                out += [f"{ind}else:"] + self.block(i2, depth - 1, r.randint(1, 2), in_loop)
            if r.random() < 0.4:
                out += [f"{ind}finally:"] + self.block(i2, 0, r.randint(1, 2), False)
            return out
        if k < 0.76:
            mgr = r.choice(["Maybe(True)", "Maybe(False)", "Maybe(trigger % 2 == 0)", "Plain()"])
            alias = f" as {self.fresh('m')}" if r.random() < 0.4 else ""
            return [f"{ind}with {mgr}{alias}:"] + self.block(i2, depth - 1, None, in_loop)
        if k < 0.86:
            if r.random() < 0.5:
                i = self.fresh("i")
                out = [f"{ind}for {i} in range({r.randint(1, 4)}):"]
            else:
                i = self.fresh("w")
                out = [f"{ind}{i} = 0", f"{ind}while {i} < {r.randint(1, 4)}:", f"{i2}{i} += 1"]
            out += self.block(i2, depth - 1, None, True)
            if r.random() < 0.5:
                out += [f"{i2}if trigger % {r.randint(2, 4)} == {r.randint(0, 1)}:", f"{i2}    {r.choice(['break', 'continue'])}"] + self.assign(i2)
            if r.random() < 0.5:
                out += [f"{ind}else:"] + self.block(i2, depth - 1, r.randint(1, 2), in_loop)
            return out
        if k < 0.93:
            x = r.choice(sorted(self.vars))
            arms = list(FLOW_KINDS[self.vars[x]][3])
            out = [f"{ind}match {x}:"]
            for a in arms:
                if a != "case _:" and r.random() < 0.25:
                    continue
                out += [f"{i2}{a.format(x=x).replace('{{', '{').replace('}}', '}')}", f"{i2}    reveal_type({x})"] + self.block(i2 + "    ", depth - 1, r.randint(1, 2), in_loop)
            return out
        if in_loop:
            return self.assign(ind)
        # closure / lambda capturing (possibly narrowed) locals; called now and at the end
        g = self.fresh("g")
        self.closures.append(g)
        if r.random() < 0.7:
            return [f"{ind}def {g}() -> int:"] + self.probe(i2) + self.probe(i2) + [f"{i2}return 0", f"{ind}{g}()"]
        x = r.choice(sorted(self.vars))
        return [f"{ind}{g}: Callable[[], object] = lambda: reveal_type({x})", f"{ind}{g}()"]

    def program(self) -> tuple[str, list[str]]:
        r = self.r
        self.closures: list[str] = []
        ind = "    "
        body = [f"{ind}TRIGGER[0] = trigger"]
        for x, k in sorted(self.vars.items()):
            ann, vals, _, _ = FLOW_KINDS[k]
            body.append(f"{ind}{x}: {ann} = a_{x}")
            if r.random() < 0.6:
                body.append(f"{ind}{x} = {r.choice(vals).replace('{{', '{').replace('}}', '}')}")
        main = self.block(ind, 3, r.randint(3, 5))
        # every closure is defined before use only on some paths: call the ones surely defined (top level) at the end
        tail = []
        for x in sorted(self.vars):
            tail.append(f"{ind}reveal_type({x})")
        params = ", ".join(["trigger: int", "yb: Base"] + [f"a_{x}: {FLOW_KINDS[k][0]}" for x, k in sorted(self.vars.items())])
        src = FLOW_HEADER + f"def run({params}) -> int:\n" + "\n".join(body + main + tail) + "\n    return 0\n"
        calls = []
        for t in range(self.marks + 1):
            for _ in range(2):
                args = [str(t), r.choice(["Kind.K1", "Kind.K2"])] + [r.choice(FLOW_KINDS[k][1]).replace('{{', '{').replace('}}', '}') for _, k in sorted(self.vars.items())]
                args = [a if a != "yb" else "Kind.K2" for a in args]
                calls.append("run(" + ", ".join(args) + ")")
        return src, calls


def directed_shard() -> list[tuple[str, str, list[str]]]:
    """fixed, seed-independent shapes (each well typed for a correct checker; probes carry the oracle)"""
    out: list[tuple[str, str, list[str]]] = []
    H = FLOW_HEADER
    # (a) assignment in an inner try / with, exception handled by an OUTER handler
    for depth in (2, 3):
        inner = ["x = None", "mark(1)", "x = 2", "mark(2)"]
        lines = [f"{'    ' * (depth + 1)}{l}" for l in inner]
        for d in range(depth, 0, -1):
            pad = "    " * d
            lines = [f"{pad}try:"] + lines + [f"{pad}except E{'3' if d > 1 else '2'}:", f"{pad}    reveal_type(x)",
                                               f"{pad}    y = -1 if x is None else x + 1", f"{pad}    reveal_type(y)"]
            if d > 1:
                lines += [f"{pad}    x = 3"]
        src = H + "def run(trigger: int) -> int:\n    TRIGGER[0] = trigger\n    x: Optional[int] = None\n    x = 1\n" + \
            "\n".join(lines) + "\n    reveal_type(x)\n    return 0\n"
        out.append((f"nested-try-{depth}", src, [f"run({t})" for t in range(4)]))
    src = H + """def run(trigger: int, sw: bool) -> int:
    TRIGGER[0] = trigger
    x: Union[int, str, None] = None
    x = 1
    try:
        with Maybe(sw):
            x = None
            mark(1)
            x = 's'
            mark(4)
        reveal_type(x)
        mark(7)
    except E2:
        reveal_type(x)
        if x is None:
            return -1
        return len(x) if isinstance(x, str) else x + 1
    finally:
        reveal_type(x)
    reveal_type(x)
    return 0
"""
    out.append(("with-in-try", src, [f"run({t}, {sw})" for t in (0, 1, 4, 7) for sw in ("True", "False")]))
    # (b) closures capturing a narrowed local that is reassigned later in for-else / while-else / try-else / match arm
    shapes = {
        "for-else": "    for i in xs:\n        if i == trigger:\n            break\n    else:\n        x = None\n",
        "while-else": "    n = 0\n    while n < len(xs):\n        if xs[n] == trigger:\n            break\n        n += 1\n    else:\n        x = None\n",
        "try-else": "    try:\n        mark(1)\n    except E2:\n        pass\n    else:\n        x = None\n",
        "match-arm": "    match trigger:\n        case 0:\n            pass\n        case _:\n            x = None\n",
        "nested-for-else": "    for i in xs:\n        for j in xs:\n            if j == trigger:\n                break\n        else:\n            x = None\n",
    }
    for name, shape in shapes.items():
        src = H + "def run(trigger: int, xs: List[int]) -> int:\n    TRIGGER[0] = trigger\n    x: Optional[str] = None\n    x = 'ab'\n" \
            "    def g() -> int:\n        reveal_type(x)\n        return -1 if x is None else len(x)\n" \
            "    h: Callable[[], object] = lambda: reveal_type(x)\n    g()\n" + shape + "    h()\n    return g()\n"
        out.append((f"closure-{name}", src, ["run(0, [1, 2])", "run(1, [1, 2])", "run(5, [])", "run(2, [2])"]))
    # (c) identity / equality / `in` with member-less enum base, single-member enum, Flag, bool, None
    src = H + """def run(x: Union[Base, int], y: Base, z: Union[One, int, None], b: Union[bool, str]) -> int:
    if x is y:
        reveal_type(x)
    else:
        reveal_type(x)
    if x == y:
        reveal_type(x)
    else:
        reveal_type(x)
    if x in (y,):
        reveal_type(x)
    else:
        reveal_type(x)
    if x is not y:
        reveal_type(x)
    if z is One.ONLY:
        reveal_type(z)
    else:
        reveal_type(z)
    if z == One.ONLY:
        reveal_type(z)
    else:
        reveal_type(z)
    if b is True:
        reveal_type(b)
    elif b is False:
        reveal_type(b)
    else:
        reveal_type(b)
    return 0
"""
    calls = ["run(Kind.K1, Kind.K2, One.ONLY, True)", "run(Kind.K1, Kind.K1, 3, False)", "run(5, Kind.K2, None, 's')",
             "run(Kind.K2, Kind.K1, One.ONLY, '')"]
    out.append(("identity-enums", src, calls))
    # (a) class patterns on self-matching builtins with sub-patterns, later cases use what remains
    src = H + """def run(code: Union[int, str, bool, None]) -> str:
    match code:
        case int(0):
            reveal_type(code)
            return "zero"
        case str("x"):
            return "ex"
        case bool(True):
            return "t"
        case None:
            return "n"
        case _:
            reveal_type(code)
            return "other"
def run2(v: Union[List[int], Tuple[int, str], Dict[str, int], float]) -> int:
    match v:
        case [first, *rest] if first > 1:
            reveal_type(v)
            return first
        case list([]):
            return 0
        case {"k": 1, **others}:
            reveal_type(others)
            return 1
        case float(0.5) | (1, "a"):
            reveal_type(v)
            return 2
        case _:
            reveal_type(v)
            return 3
"""
    out.append(("match-builtin-subpatterns", src,
                ["run(0)", "run(2)", "run('x')", "run('y')", "run(True)", "run(False)", "run(None)",
                 "run2([2, 3])", "run2([1])", "run2([])", "run2({'k': 1, 'z': 2})", "run2({'k': 2})", "run2(0.5)", "run2(1.5)", "run2((1, 'a'))", "run2((2, 'b'))"]))
    # (b) augmented assignment through __iadd__ / __ior__ returning another member of the union
    # (rejected by a correct checker: the result of __iadd__ is not a subtype of the narrowed type; it must not become
    #  accepted with the narrowing kept)
    src = H + """def run(v: int) -> int:
    acc: Union[Open, Sealed] = Open()
    acc = Open()
    reveal_type(acc)
    acc += v
    reveal_type(acc)
    return 0
def run2(v: int, acc: Union[Open, Sealed]) -> int:
    if isinstance(acc, Open):
        acc |= v
        reveal_type(acc)
    return 0
"""
    out.append(("augmented-iadd-narrowed", src, ["run(1)", "run(-1)", "run2(1, Open())"]))
    src = H + """def run(v: int) -> int:
    n: int = 0
    n = True
    reveal_type(n)
    n += v
    reveal_type(n)
    s: Union[str, int, None] = None
    s = "a"
    s += "b"
    s *= 2
    reveal_type(s)
    s = 3
    s -= 1
    reveal_type(s)
    return n
"""
    out.append(("augmented-plain", src, ["run(1)", "run(-1)"]))
    # (c) truthiness of classes with __bool__/__len__ direct, inherited, via a @final subclass, Literal[False]
    src = H + """def run(b: Union[FinalLenny, int], c: Union[LennyChild, None], d: Union[NeverTrue, str], e: Union[Booly, Lenny, None]) -> int:
    if b:
        reveal_type(b)
    else:
        reveal_type(b)
    if not c:
        reveal_type(c)
    else:
        reveal_type(c)
    if d:
        reveal_type(d)
    else:
        reveal_type(d)
    if e and not isinstance(e, Lenny):
        reveal_type(e)
    else:
        reveal_type(e)
    x = b or c or d
    reveal_type(x)
    return 0
"""
    out.append(("truthiness-classes", src,
                ["run(FinalLenny(0), LennyChild(0), NeverTrue(), Booly(False))", "run(FinalLenny(2), None, 's', Lenny(0))",
                 "run(0, LennyChild(3), '', None)", "run(5, None, NeverTrue(), Booly(True))"]))
    # (d) tuple assignment reading a local it has just re-narrowed; walrus in an `if` condition  (both: findings)
    src = H + """def run(flag: bool) -> int:
    a: Union[int, str] = 1
    b: Union[int, str] = "s"
    a = 1
    b = "s"
    a, b = b, a
    reveal_type(a)
    reveal_type(b)
    return 0
"""
    out.append(("swap-narrowed", src, ["run(True)"]))
    src = H + """def opt(n: int) -> Optional[int]:
    return n if n > 0 else None
def run(n: int) -> int:
    x: Optional[int] = None
    x = 5
    if (x := opt(n)) is not None:
        reveal_type(x)
    reveal_type(x)
    return 0
"""
    out.append(("walrus-condition", src, ["run(0)", "run(3)"]))
    # findings 7 and 8 (seen first in random flow programs of the thorough tier)
    src = H + """def run(x: Union[List[int], None]) -> int:
    if isinstance(x, list):
        w = 0
        while w < 2:
            w += 1
            x = None
            if not x:
                break
        reveal_type(x)
    return 0
"""
    out.append(("break-in-narrowing-frame", src, ["run([1])", "run(None)"]))
    src = H + """def run(x: Union[bytes, str, None]) -> int:
    x = b''
    if not x:
        reveal_type(x)
        match x:
            case bytes(b'x'):
                return 1
            case bytes():
                return 2
    return 0
"""
    out.append(("class-pattern-literal-subject", src, ["run(None)"]))
    # Flag enums: composite values are members of the class but of none of its named literals
    src = H + """def run(p: Union[Perm, None]) -> int:
    if p is Perm.R:
        reveal_type(p)
        return 1
    else:
        reveal_type(p)
    if p is None:
        return 0
    if p is Perm.W:
        return 2
    else:
        reveal_type(p)
        return 3
"""
    out.append(("flag-identity", src, ["run(Perm.R)", "run(Perm.W)", "run(None)", "run(Perm.R | Perm.W)"]))
    return out
