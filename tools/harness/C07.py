"""C07 — parallel checking (-n N) gives the sequential result under every schedule.

P+A : coq/C07 (scheduler model, confluence / invariants / no-deadlock theorems).
C   : trace validation — every real coordinator/worker event log (written by tools/shim/c07) must be a
      run of the Coq model (each event enabled, invariants hold, final state = the model's final state).
S   : oracle on the implementation — generated programs with deep / wide / cyclic import graphs,
      N in {1,2,3,4,8}, seeded schedule perturbations, cold / semi-cold / warm caches:
      `mypy -n N` == sequential (same parser settings), warm sequential on the cache a parallel build left
      == cold, cache maps equal.
"""
from __future__ import annotations

import json
import os
import shutil
import signal
import subprocess
import sys
import tempfile
import time
from concurrent.futures import ThreadPoolExecutor
from dataclasses import dataclass, field
from typing import Any

import vlib

SHIM = os.path.join(vlib.VERIF, "tools", "shim", "c07")
NS = [1, 2, 3, 4, 8]
STDLIB = ["os", "collections", "typing", "dataclasses", "enum", "re", "json", "itertools", "functools"]
BASE_FLAGS = ["--local-partial-types", "--no-error-summary", "--show-error-codes", "--hide-error-context",
              "--no-color-output", "--show-traceback"]
RUN_TIMEOUT = int(os.environ.get("C07_RUN_TIMEOUT", "300"))


# ------------------------------------------------------------------------------------------------
# program generator

@dataclass
class Program:
    name: str
    shape: str
    mods: list[str]                       # module ids in creation order (dependencies first)
    deps: dict[str, list[str]]            # module -> imported user modules
    files: dict[str, str]                 # relative path -> text (version 0)
    edits: dict[str, str]                 # relative path -> text (version 1: only changed files)
    srcs: list[str]                       # command-line file order
    stdlib: list[str] = field(default_factory=list)
    deletes: list[str] = field(default_factory=list)   # version 2: files deleted (targets of `import x  # type: ignore`)

    def to_json(self) -> dict[str, Any]:
        return {"name": self.name, "shape": self.shape, "mods": self.mods, "deps": self.deps,
                "files": self.files, "edits": self.edits, "srcs": self.srcs, "stdlib": self.stdlib, "deletes": self.deletes}

    @staticmethod
    def from_json(d: dict[str, Any]) -> "Program":
        return Program(d["name"], d["shape"], d["mods"], d["deps"], d["files"], d["edits"], d["srcs"],
                       d.get("stdlib", []), d.get("deletes", []))


def gen_graph(rng: vlib.Rng, shape: str, n: int) -> dict[int, list[int]]:
    """deps[i] = indices j imported by module i.  Cycles only for shape 'cyclic' / 'mixed'."""
    deps: dict[int, list[int]] = {i: [] for i in range(n)}
    if shape == "deep":            # one long chain + a few shortcuts
        for i in range(1, n):
            deps[i].append(i - 1)
            if i > 2 and rng.random() < 0.25:
                deps[i].append(rng.randrange(0, i - 1))
    elif shape == "wide":          # few layers, many siblings
        layers = 3
        per = max(1, n // layers)
        for i in range(n):
            L = min(i // per, layers - 1)
            if L > 0:
                lo, hi = (L - 1) * per, L * per
                k = rng.randint(1, min(4, hi - lo))
                deps[i] = sorted(rng.sample(range(lo, hi), k))
    elif shape == "fan":           # one leaf used by everybody, one root using everybody
        for i in range(1, n - 1):
            deps[i] = [0] + ([rng.randrange(1, i)] if i > 1 and rng.random() < 0.2 else [])
        deps[n - 1] = list(range(0, n - 1))
    elif shape == "diamond":       # lattice of diamonds
        for i in range(1, n):
            deps[i] = sorted({max(0, i - 1 - (i % 3)), max(0, i - 2)})
    else:                          # random / cyclic / mixed: random layered DAG
        for i in range(1, n):
            k = rng.choice([1, 1, 2, 2, 3])
            deps[i] = sorted(set(rng.randrange(max(0, i - 7), i) for _ in range(k)))
    if shape in ("cyclic", "mixed"):
        # add back edges inside small windows -> import cycles (SCCs of 2..4 modules)
        i = 0
        while i < n - 1:
            size = rng.choice([1, 2, 2, 3, 4]) if shape == "cyclic" else rng.choice([1, 1, 1, 2, 3])
            grp = list(range(i, min(n, i + size)))
            if len(grp) > 1:
                for a, b in zip(grp, grp[1:]):
                    if a not in deps[b]:
                        deps[b].append(a)
                deps[grp[0]].append(grp[-1])          # close the cycle
            i += size
    return deps


TYPES = ["int", "str", "bytes", "float", "list[int]", "dict[str, int]", "tuple[int, str]"]
NUM_SHARDS = 16


def shard_of(cache_name: str) -> int:
    """mypy.util.hash_path_stem(name) % SQLITE_NUM_SHARDS, transcribed (checked against the shards the shim logs)."""
    i = len(cache_name) - 1
    end = i
    while i >= 0:
        c = cache_name[i]
        if c in "/\\":
            break
        if c == ".":
            end = i
        i -= 1
    hv = 123
    for j in range(end, -1, -1):
        hv = (hv * 33) ^ ord(cache_name[j])
    hv = (hv ^ (hv >> 32)) & 0xFFFFFFFF
    hv ^= hv >> 16
    hv = (hv * 0x85EBCA6B) & 0xFFFFFFFF
    hv ^= hv >> 13
    hv = (hv * 0xC2B2AE35) & 0xFFFFFFFF
    hv ^= hv >> 16
    return hv % NUM_SHARDS


def colliding_name(base: str, pkg: str, shards: set[int]) -> str:
    """A module name whose cache files land in one of the given sqlite shards."""
    k = 0
    while True:
        nm = f"{base}" if k == 0 else f"{base}q{k}"
        if shard_of((pkg + "/" if pkg else "") + nm + ".meta.ff") in shards:
            return nm
        k += 1


OPTION_LINES = ["implicit_optional = True", "strict_optional = False", "disallow_untyped_defs = True", "ignore_errors = True",
                "disallow_untyped_defs = True\nimplicit_optional = True"]
INLINE_LINES = ["# mypy: implicit-optional", "# mypy: disallow-untyped-defs", "# mypy: no-strict-optional", "# mypy: ignore-errors"]


def gen_module(rng: vlib.Rng, name: str, dep_names: list[str], in_cycle: set[str], variant: int,
               stdlib: list[str], inline: str = "", ghosts: list[str] | None = None, tail: tuple[str, bool] | None = None) -> str:
    """Source of one module.  `variant` changes the public interface (edit step)."""
    i = name.replace(".", "_")
    L = ["from __future__ import annotations"]
    if inline:
        L.insert(0, inline)
    for s in stdlib:
        L.append(f"import {s}")
    for d in dep_names:
        L.append(f"import {d}")
    for gmod in ghosts or []:
        # the target exists at first and is deleted in version 2: the silenced import error must stay silenced
        L.append(f"import {gmod}  # type: ignore")
    if tail:
        L.append("import sys as _sys")
    own_types = TYPES + [f"C_{i}"]
    ret = own_types[(rng.randrange(len(own_types)) + variant) % len(own_types)]
    L.append("")
    base = ""
    acyc = [d for d in dep_names if d not in in_cycle]
    if acyc and rng.random() < 0.5:
        b = rng.choice(acyc)
        base = f"({b}.C_{b.replace('.', '_')})"
    L.append(f"class C_{i}{base}:")
    L.append(f"    a_{i}: {rng.choice(TYPES)}" + (" = None" if rng.random() < 0.15 else ""))
    if dep_names:
        d = rng.choice(dep_names)
        L.append(f"    def m_{i}(self, x: {d}.C_{d.replace('.', '_')}) -> {rng.choice(TYPES)}:")
        L.append(f"        return {d}.f_{d.replace('.', '_')}(x.a_{d.replace('.', '_')})")
    else:
        L.append(f"    def m_{i}(self) -> int:")
        L.append(f"        return self.a_{i}")
    L.append("")
    argt = rng.choice(TYPES)
    L.append(f"def f_{i}(x: {argt}) -> {ret}:")
    if dep_names:
        d = rng.choice(dep_names)
        dd = d.replace(".", "_")
        L.append(f"    y = {d}.f_{dd}(x)")
        L.append(f"    reveal_type(y)")
        L.append(f"    return y")
    else:
        L.append(f"    return x")
    L.append("")
    # top level (interface phase): annotated and inferred variables fed by dependencies
    if variant:
        L.append(f"v_{i}: {rng.choice(['str', 'bytes'])} = b''")
    else:
        L.append(f"v_{i}: int = 0")
    for d in dep_names:
        dd = d.replace(".", "_")
        r = rng.random()
        if d in in_cycle:
            if r < 0.5:
                L.append(f"def g_{i}_{dd}() -> int:")
                L.append(f"    return {d}.v_{dd}")
            continue
        if r < 0.4:
            L.append(f"w_{i}_{dd} = {d}.f_{dd}({rng.choice(['1', repr('s'), '[1]', '1.5'])})")
            L.append(f"reveal_type(w_{i}_{dd})")
        elif r < 0.7:
            L.append(f"u_{i}_{dd}: int = {d}.v_{dd}")
        else:
            L.append(f"t_{i}_{dd} = {d}.C_{dd}().a_{dd}")
            L.append(f"reveal_type(t_{i}_{dd})")
    if acyc:
        d = acyc[0]
        dd = d.replace(".", "_")
        L.append(f"chain_{i} = {d}.chain_{dd}" if rng.random() < 0.8 else f"chain_{i} = [{d}.chain_{dd}]")
    else:
        L.append(f"chain_{i} = {['0', repr('z'), '(1, 2)'][variant % 3] if variant else rng.choice(['0', repr('z'), '1.5'])}")
    if rng.random() < 0.5:
        L.append(f"reveal_type(chain_{i})")
    if stdlib and rng.random() < 0.7:
        s = stdlib[0]
        L.append({"os": "p_%s: int = os.getcwd()", "collections": "p_%s: int = collections.OrderedDict()",
                  "typing": "p_%s: typing.List[int] = ['x']", "dataclasses": "p_%s: int = dataclasses.MISSING",
                  "enum": "p_%s: int = enum.Enum", "re": "p_%s: int = re.compile('a')",
                  "json": "p_%s: int = json.dumps(1)", "itertools": "p_%s: int = itertools.count()",
                  "functools": "p_%s: int = functools.partial(int)"}[s] % i)
    if rng.random() < 0.15:
        L.append(f"undefined_name_{i}")
    # code whose diagnostics depend on per-module options (config sections / inline comments)
    L.append(f"def opt_{i}(a: int = None, b: str = None) -> int:")
    L.append(f"    return a")
    L.append(f"def untyped_{i}(a, b):")
    L.append(f"    return a")
    L.append(f"so_{i}: int = None")
    for gmod in ghosts or []:
        L.append(f"gq_{i}_{gmod} = {gmod}.gv")
    if tail:
        # unreachable tail whose LAST line is a one-line definition with a type error (never reported: unreachable)
        kind, newline = tail
        last = {0: f"def tail_{i}() -> int: return 'unreachable'", 1: f"class Tail_{i}: ta: int = 'unreachable'",
                2: f"tail_v_{i}: int = 'unreachable'"}[hash_small(kind + name) % 3]
        if kind == "exit":
            L += ["_sys.exit(0)", last]
        elif kind == "raise":
            L += ["raise RuntimeError()", f"tail_mid_{i}: int = 'x'", last]
        elif kind == "assert":
            L += ["assert False", last]
        elif kind == "version":
            L += ["if _sys.version_info >= (3,):", f"    tail_ok_{i} = 1", "else:", "    " + last]
        elif kind == "class":
            L += [f"class TailC_{i}:", f"    tc_{i}: int = 0", "    raise NotImplementedError()", f"    def tm(self) -> int: return 'unreachable'"]
        return "\n".join(L) + ("\n" if newline else "")
    return "\n".join(L) + "\n"


def hash_small(t: str) -> int:
    return sum(ord(c) * (i + 1) for i, c in enumerate(t))


def sccs_of(n: int, deps: dict[int, list[int]]) -> list[set[int]]:
    idx: dict[int, int] = {}
    low: dict[int, int] = {}
    st: list[int] = []
    on: set[int] = set()
    out: list[set[int]] = []
    c = [0]

    def go(v: int) -> None:
        idx[v] = low[v] = c[0]
        c[0] += 1
        st.append(v)
        on.add(v)
        for w in deps[v]:
            if w not in idx:
                go(w)
                low[v] = min(low[v], low[w])
            elif w in on:
                low[v] = min(low[v], idx[w])
        if low[v] == idx[v]:
            comp = set()
            while True:
                w = st.pop()
                on.discard(w)
                comp.add(w)
                if w == v:
                    break
            out.append(comp)
    for v in range(n):
        if v not in idx:
            go(v)
    return out


SHAPES = ["deep", "wide", "cyclic", "fan", "mixed", "diamond", "random", "cyclic"]


def gen_program(seed: int, k: int) -> Program:
    rng = vlib.Rng(seed, f"c07prog{k}")
    shape = SHAPES[k % len(SHAPES)]
    n = rng.randint(10, 30) if k >= 2 else rng.randint(10, 14)
    deps = gen_graph(rng, shape, n)
    use_pkg = rng.random() < 0.35
    collide = k % 2 == 1           # all user modules in two sqlite shards: lock conflicts between workers become likely
    tgt = set(rng.sample(range(NUM_SHARDS), 2))
    names = []
    for i in range(n):
        pkg = "pk" if use_pkg and i % 4 == 1 else ""
        base = colliding_name(f"m{i}", pkg, tgt) if collide else f"m{i}"
        names.append(f"pk.{base}" if pkg else base)
    comps = sccs_of(n, deps)
    comp_of = {v: frozenset(c) for c in comps for v in c}
    stdlib_all = rng.sample(STDLIB, rng.choice([0, 1, 2, 3])) if k % 3 != 0 else []
    files: dict[str, str] = {}
    edits: dict[str, str] = {}
    # modules whose interface changes in version 1: one or two "low" modules + one random one
    changed = {0, rng.randrange(n)} | ({rng.randrange(n // 2)} if rng.random() < 0.5 else set())
    ini = ["[mypy]", "local_partial_types = True"]
    ghost_names = [f"gh{g}" for g in range(rng.choice([1, 2]))]
    for i in range(n):
        dn = [names[j] for j in deps[i]]
        cyc = {names[j] for j in deps[i] if comp_of[j] == comp_of[i]}
        sl = [s for s in stdlib_all if rng.random() < 0.3]
        path = names[i].replace(".", "/") + ".py"
        in_scc = len(comp_of[i]) > 1
        # per-module options: more often on members of import cycles (multi-module batches in the workers)
        r = rng.random()
        inline = ""
        if r < (0.5 if in_scc else 0.25):
            ini += [f"[mypy-{names[i]}]"] + rng.choice(OPTION_LINES).split("\n")
        elif r < (0.7 if in_scc else 0.4):
            inline = rng.choice(INLINE_LINES)
        gh = [g for g in ghost_names if rng.random() < 0.4]
        tl = (rng.choice(["exit", "raise", "assert", "version", "class"]), rng.random() < 0.5) if rng.random() < 0.4 else None
        st = rng.getstate()
        files[path] = gen_module(rng, names[i], dn, cyc, 0, sl, inline, gh, tl)
        if i in changed:
            rng.setstate(st)
            edits[path] = gen_module(rng, names[i], dn, cyc, 1, sl, inline, gh, tl)
            if edits[path] == files[path]:
                edits[path] += f"extra_{i}: int = 'changed'\n"
    if use_pkg:
        files["pk/__init__.py"] = "pk_version: int = 1\n"
    srcs = sorted(files)
    files["mypy.ini"] = "\n".join(ini) + "\n"
    for g in ghost_names:            # not on the command line: reached only through the silenced imports
        files[g + ".py"] = "gv: int = 0\n"
    rng.shuffle(srcs)
    if rng.random() < 0.4:      # sometimes only give the roots (modules nobody imports) on the command line
        imported = {names[j] for i in range(n) for j in deps[i]}
        roots = [names[i].replace(".", "/") + ".py" for i in range(n) if names[i] not in imported]
        if roots:
            srcs = roots
    return Program(f"p{k}-{shape}-{n}", shape, names, {names[i]: [names[j] for j in deps[i]] for i in range(n)},
                   files, edits, srcs, stdlib_all, [g + ".py" for g in ghost_names])


# ------------------------------------------------------------------------------------------------
# running mypy

@dataclass
class Res:
    status: int
    out: list[str]
    err: str
    wall: float
    timed_out: bool = False


def write_tree(root: str, files: dict[str, str], bump: float = 0.0) -> None:
    for rel, text in files.items():
        p = os.path.join(root, rel)
        os.makedirs(os.path.dirname(p), exist_ok=True)
        with open(p, "w") as f:
            f.write(text)
        if bump:
            st = os.stat(p)
            os.utime(p, (st.st_atime + bump, st.st_mtime + bump))


def run_mypy(root: str, srcs: list[str], n: int, cache: str, *, sched: str | None = None,
             trace: str | None = None, extra: list[str] | None = None, timeout: float = RUN_TIMEOUT,
             knobs: dict[str, str] | None = None) -> Res:
    """One mypy process (group).  n == 0: sequential with the same parser settings the parallel mode forces."""
    env = vlib.py_env()
    env["PYTHONPATH"] = SHIM + os.pathsep + vlib.REPO
    env.pop("C07_TRACE", None)
    env.pop("C07_SEED", None)
    env.pop("MYPY_NUM_WORKERS", None)
    for kk in ("C07_LONG_SLEEP", "C07_SQLITE_BUSY_MS", "C07_KILL_AT"):
        env.pop(kk, None)
    if trace is not None:
        env["C07_TRACE"] = trace
        env["C07_SEED"] = sched or ""
        env.update(knobs or {})
    cfg = ["--config-file", "mypy.ini"] if os.path.exists(os.path.join(root, "mypy.ini")) else ["--config-file", os.devnull]
    cmd = [vlib.PY, "-m", "mypy", "--native-parser"] + cfg + BASE_FLAGS + ["--cache-dir", cache]
    cmd += ["-n", str(n)] if n else []
    cmd += (extra or []) + srcs
    t0 = time.time()
    p = subprocess.Popen(cmd, cwd=root, env=env, stdout=subprocess.PIPE, stderr=subprocess.PIPE, text=True,
                         errors="replace", start_new_session=True)
    timed_out = False
    try:
        out, err = p.communicate(timeout=timeout)
    except subprocess.TimeoutExpired:
        timed_out = True
        _killpg(p.pid)
        out, err = p.communicate()
    _killpg(p.pid)      # stray workers, if any
    for f in os.listdir(root):
        if f.startswith(".mypy_worker."):
            try:
                os.unlink(os.path.join(root, f))
            except OSError:
                pass
    return Res(124 if timed_out else p.returncode, out.splitlines(), err, time.time() - t0, timed_out)


def _killpg(pid: int) -> None:
    try:
        os.killpg(pid, signal.SIGKILL)
    except (ProcessLookupError, PermissionError):
        pass


def canon(lines: list[str]) -> list[tuple[str, list[str]]]:
    """Diagnostics grouped per file in first-appearance order of the lines WITHIN a file; files sorted.

    The parallel coordinator prints a file's block when its implementation reply arrives, so the order of
    the per-file blocks is schedule dependent by design; the content and order inside a file are not."""
    groups: dict[str, list[str]] = {}
    for ln in lines:
        f = ln.split(":", 1)[0] if ":" in ln else ""
        groups.setdefault(f, []).append(ln)
    return sorted(groups.items())


def same(a: Res, b: Res) -> bool:
    return a.status == b.status and canon(a.out) == canon(b.out) and (a.err.strip() == "") == (b.err.strip() == "")


def diff_txt(a: Res, b: Res) -> str:
    ca, cb = dict(canon(a.out)), dict(canon(b.out))
    L = [f"status {a.status} vs {b.status}"]
    for f in sorted(set(ca) | set(cb)):
        if ca.get(f) != cb.get(f):
            L.append(f"--- {f}")
            L += ["  A " + x for x in ca.get(f, []) if x not in cb.get(f, [])][:6]
            L += ["  B " + x for x in cb.get(f, []) if x not in ca.get(f, [])][:6]
            if sorted(ca.get(f, [])) == sorted(cb.get(f, [])):
                L.append("  (same lines, different order inside the file)")
    if a.err.strip() or b.err.strip():
        L.append("stderr A: " + a.err.strip()[-600:])
        L.append("stderr B: " + b.err.strip()[-600:])
    return "\n".join(L)[:3000]


# ------------------------------------------------------------------------------------------------
# reading a cache directory back as a map  (module -> record), through mypy's own decoders

DUMP_CACHE = r'''
import sys, json, hashlib
from mypy.metastore import SqliteMetadataStore, FilesystemMetadataStore
from mypy.cache import CacheMeta, CacheMetaEx
from mypy.defaults import SQLITE_NUM_SHARDS
from librt.internal import ReadBuffer
import os
prefix, kind = sys.argv[1], sys.argv[2]
st = SqliteMetadataStore(prefix, num_shards=SQLITE_NUM_SHARDS) if kind == "sqlite" else FilesystemMetadataStore(prefix)
out = {}
names = sorted(st.list_all())
for nm in names:
    if nm.endswith(".meta.ff"):
        raw = st.read(nm)
        m = CacheMeta.read(ReadBuffer(raw[2:]), nm.replace(".meta.ff", ".data.ff"))
        if m is None:
            out[nm] = {"bad": True}; continue
        rec = {}
        for fk, fv in vars(m).items():          # every CacheMeta field, generically
            if isinstance(fv, (bytes, bytearray)):
                fv = bytes(fv).hex()
            elif isinstance(fv, list) and fv and isinstance(fv[0], (bytes, bytearray)):
                fv = [bytes(x).hex() for x in fv]
            elif isinstance(fv, dict):
                fv = {str(k2): (v2 if not isinstance(v2, (bytes, bytearray)) else bytes(v2).hex()) for k2, v2 in sorted(fv.items(), key=lambda kv: str(kv[0]))}
            rec[fk] = fv
        rec["deps"] = rec.get("dependencies")
        try:
            rec["data_sha"] = hashlib.sha1(st.read(nm.replace(".meta.ff", ".data.ff"))).hexdigest()
        except OSError:
            rec["data_sha"] = None
        try:
            ex = CacheMetaEx.read(ReadBuffer(st.read(nm.replace(".meta.ff", ".meta_ex.ff"))))
            rec["ex"] = None if ex is None else {"deps": list(ex.dependencies), "suppressed": list(ex.suppressed),
                         "dep_hashes": [h.hex() for h in ex.dep_hashes],
                         "errors": [list(map(str, e)) for e in ex.error_lines]}
        except OSError:
            rec["ex"] = "missing"
        out[m.id] = rec
json.dump(out, sys.stdout, default=str)
'''


def dump_cache(cache_dir: str, sqlite: bool = True) -> dict[str, Any] | None:
    prefix = os.path.join(cache_dir, "3.12")
    if not os.path.isdir(prefix):
        subs = [d for d in os.listdir(cache_dir) if os.path.isdir(os.path.join(cache_dir, d))]
        if not subs:
            return None
        prefix = os.path.join(cache_dir, subs[0])
    env = vlib.py_env()
    p = subprocess.run([vlib.PY, "-c", DUMP_CACHE, prefix, "sqlite" if sqlite else "fs"], env=env,
                       capture_output=True, text=True, timeout=120)
    if p.returncode != 0:
        return {"__error__": p.stderr[-1500:]}
    return json.loads(p.stdout)


VOLATILE_META = {"mtime", "data_mtime", "deps"}     # file-system times; "deps" is an alias of "dependencies"


def cache_diff(a: dict[str, Any], b: dict[str, Any], user_mods: set[str], strict_data: bool) -> list[str]:
    """Field-by-field differences of two cache maps: every CacheMeta / CacheMetaEx field a build wrote (also
    imports_ignored, dep_lines, dep_prios, suppressed, options, plugin_data ...), the data-file hash, error lines."""
    out = []
    for k in sorted(set(a) | set(b)):
        ra, rb = a.get(k), b.get(k)
        if ra is None or rb is None:
            out.append(f"{k}: present only in {'A' if rb is None else 'B'}")
            continue
        for fld in sorted((set(ra) | set(rb)) - VOLATILE_META - (set() if strict_data else {"data_sha"})):
            if ra.get(fld) != rb.get(fld):
                out.append(f"{k}.{fld}: {json.dumps(ra.get(fld), default=str)[:200]} != {json.dumps(rb.get(fld), default=str)[:200]}")
    return out


# ------------------------------------------------------------------------------------------------
# S: the oracle on the implementation

@dataclass
class Case:
    prog: Program
    n: int
    sched: str
    mode: str            # "cold" (empty cache) | "semi" (typeshed + prelude already cached sequentially)
    key: str = ""
    knobs: dict[str, str] = field(default_factory=dict)   # long pause / sqlite busy timeout (shim)


def load_trace(path: str) -> list[dict[str, Any]]:
    evs = []
    try:
        with open(path) as f:
            for ln in f:
                ln = ln.strip()
                if ln:
                    evs.append(json.loads(ln))
    except FileNotFoundError:
        pass
    return evs


class ProgRunner:
    """Sequential reference results of one program (both versions), shared by its cases."""

    def __init__(self, prog: Program, work: str):
        self.prog = prog
        self.work = os.path.join(work, prog.name)
        os.makedirs(self.work)
        self.ref: dict[int, Res] = {}
        self.ref_cache: dict[str, dict[int, dict[str, Any] | None]] = {}
        self.seq_warm_ok = True
        self.template: str | None = None

    def tree(self, sub: str, version: int) -> str:
        """(Re)write the ONE source tree of this program.  All runs of a program use the same directory, one after
        the other, because mypy stores the absolute path of modules found through imports inside the serialized
        tree: cache maps of runs in different directories differ for that reason alone."""
        root = os.path.join(self.work, "t")
        os.makedirs(root, exist_ok=True)
        write_tree(root, self.prog.files)
        if version:
            write_tree(root, self.prog.edits, bump=5.0)
        if version >= 2:
            self.delete_targets(root)
        return root

    def delete_targets(self, root: str) -> None:
        for rel in self.prog.deletes:
            try:
                os.unlink(os.path.join(root, rel))
            except FileNotFoundError:
                pass

    def cache_dir(self, sub: str) -> str:
        return os.path.join(self.work, "caches", sub)

    def prepare(self) -> None:
        """Diagnostics reference = COLD sequential run of each version.  Cache-map reference = the cache a
        SEQUENTIAL build leaves after the same history (same starting cache, v0 then edit then v1): the serialized
        trees (hence interface hashes) of mypy depend on whether dependencies were deserialized or analysed in the
        same process, also sequentially (C02/C10 territory), so maps are compared like for like."""
        self.ref_cache = {}
        root = os.path.join(self.work, "tmpl")
        os.makedirs(root)
        pre = "from __future__ import annotations\n" + "".join(f"import {s}\n" for s in self.prog.stdlib)
        write_tree(root, {"prelude_only.py": pre})
        r = run_mypy(root, ["prelude_only.py"], 0, os.path.join(root, ".c"))
        if r.status == 0:
            self.template = os.path.join(root, ".c")
        for mode in ("cold", "semi"):
            root = self.tree(f"seq-{mode}", 0)
            cache = self.cache_dir(f"seq-{mode}")
            if mode == "semi":
                if not self.template:
                    continue
                shutil.copytree(self.template, cache)
            r0 = run_mypy(root, self.prog.srcs, 0, cache)
            c0 = dump_cache(cache)
            write_tree(root, self.prog.edits, bump=5.0)
            r1 = run_mypy(root, self.prog.srcs, 0, cache)
            c1 = dump_cache(cache)
            for c in (c0, c1):
                if c:
                    c.pop("prelude_only", None)
            self.ref_cache[mode] = {0: c0, 1: c1}
            if mode == "cold":
                self.ref[0] = r0
                self.warm1 = r1
        root = self.tree("seq-cold1", 1)
        self.ref[1] = run_mypy(root, self.prog.srcs, 0, self.cache_dir("seq-cold1"))
        root = self.tree("seq-cold2", 2)          # version 2: targets of `import x  # type: ignore` deleted
        self.ref[2] = run_mypy(root, self.prog.srcs, 0, self.cache_dir("seq-cold2"))
        # contract monitor (sequential side of the oracle): sequential warm after the edit == sequential cold
        self.seq_warm_ok = same(self.warm1, self.ref[1])


def run_case(pr: ProgRunner, case: Case) -> dict[str, Any]:
    """par(v0) == seq(v0); seq-warm on the parallel cache == seq(v0); cache maps equal;
    edit; par-warm(v1) == seq(v1); seq-warm == seq(v1); cache maps equal.  Returns failures + traces."""
    prog = pr.prog
    sub = f"case-{case.n}-{case.sched}-{case.mode}"
    root = pr.tree(sub, 0)
    cache = pr.cache_dir(sub)
    tdir = os.path.join(pr.work, "traces")
    os.makedirs(tdir, exist_ok=True)
    if case.mode == "semi" and pr.template:
        shutil.copytree(pr.template, cache)
    fails: list[dict[str, Any]] = []
    traces: list[dict[str, Any]] = []
    runs = 0

    def check(label: str, got: Res, want: Res) -> None:
        if got.timed_out:
            fails.append({"step": label, "what": "run did not terminate within %ds" % RUN_TIMEOUT, "diff": got.err[-800:]})
        elif not same(got, want):
            fails.append({"step": label, "what": "diagnostics/exit status differ from the sequential build",
                          "diff": diff_txt(got, want)})

    def check_cache(label: str, v: int) -> None:
        mine, ref = dump_cache(cache), pr.ref_cache.get(case.mode if pr.template else 'cold', {}).get(v)
        if mine is None or ref is None or "__error__" in mine or "__error__" in ref:
            fails.append({"step": label, "what": "cache unreadable", "diff": json.dumps([mine, ref])[:800]})
            return
        mine.pop("prelude_only", None)      # harness artefact of the semi-cold template
        d = [x for x in cache_diff(mine, ref, set(prog.mods), True) if ".trans_dep_hash:" not in x]
        if d:
            fails.append({"step": label, "what": "cache left by the parallel build differs from the sequential one (as a map)",
                          "diff": "\n".join(d[:12])})

    for v in (0, 1):
        if v == 1:
            write_tree(root, prog.edits, bump=5.0)
        tr = os.path.join(tdir, f"{sub}-v{v}.jsonl")
        r = run_mypy(root, prog.srcs, case.n, cache, sched=f"{case.sched}/{v}", trace=tr, knobs=case.knobs)
        runs += 1
        check(f"par-v{v}", r, pr.ref[v])
        if "C07-SHIM-INSTALL-FAILED" in r.err:
            fails.append({"step": f"par-v{v}", "what": "shim failed to install", "diff": r.err[-500:]})
        traces.append({"case": case.key, "v": v, "n": case.n, "events": load_trace(tr), "ok_run": not r.timed_out,
                       "status": r.status})
        check_cache(f"cache-after-par-v{v}", v)
        w = run_mypy(root, prog.srcs, 0, cache)
        runs += 1
        check(f"seq-warm-on-par-cache-v{v}", w, pr.ref[v])
    # third step: the next SEQUENTIAL warm run must depend on per-module meta fields the WORKERS wrote in v1
    # (imports_ignored, suppressed deps, priorities, error_lines of re-checked but unchanged modules):
    # delete the targets of the silenced imports and compare with a cold build of that tree
    if prog.deletes and 2 in pr.ref:
        pr.delete_targets(root)
        w2 = run_mypy(root, prog.srcs, 0, cache)
        runs += 1
        check("seq-warm-after-delete-on-par-cache-v2", w2, pr.ref[2])
    if not os.environ.get("C07_KEEP"):
        shutil.rmtree(cache, ignore_errors=True)
    return {"case": case, "fails": fails, "traces": traces, "runs": runs}


def plan_cases(ctx: vlib.Ctx, progs: list[Program], per_prog: int) -> list[Case]:
    rng = vlib.Rng(ctx.seed, "c07plan")
    cases = []
    for pi, p in enumerate(progs):
        ns = [NS[(pi + j) % len(NS)] for j in range(per_prog)]
        for j in range(per_prog):
            mode = "cold" if j == 0 else "semi"
            c = Case(p, ns[j], f"s{ctx.seed}-{pi}-{j}-{rng.randrange(10**6)}", mode)
            c.key = f"{p.name}/n{c.n}/{c.sched}/{mode}"
            # lock-conflict probe: pause > sqlite busy timeout before a later module of a multi-module batch.
            # Usually a 3 s pause with the busy timeout shortened to 1.5 s; in the thorough tier every 8th case uses the
            # real default timeout (5 s) with a 6 s pause.
            if not ctx.quick and len(cases) % 8 == 7:
                c.knobs = {"C07_LONG_SLEEP": "6.0"}
            elif c.n >= 2:
                c.knobs = {"C07_LONG_SLEEP": "3.0", "C07_SQLITE_BUSY_MS": "1500"}
            cases.append(c)
    return cases


def stage_S(ctx: vlib.Ctx, work: str) -> list[dict[str, Any]]:
    nprog = int(os.environ.get("C07_NPROG", ctx.n(8, 24)))
    per = int(os.environ.get("C07_PER", ctx.n(3, 5)))   # thorough 24 x 5 (x4 runs each) fits 25 min at load ~50; larger via C07_NPROG / C07_PER
    progs = [gen_program(ctx.seed, k) for k in range(nprog)]
    runners = {p.name: ProgRunner(p, work) for p in progs}
    par = int(os.environ.get("C07_PAR", "8" if ctx.quick else "7"))
    t0 = time.time()
    cases = plan_cases(ctx, progs, per)

    def one_program(p: Program) -> list[dict[str, Any]]:
        r = runners[p.name]
        r.prepare()
        out = [run_case(r, c) for c in cases if c.prog is p]
        if not os.environ.get("C07_KEEP"):
            shutil.rmtree(os.path.join(r.work, "caches"), ignore_errors=True)
        return out

    with ThreadPoolExecutor(max_workers=par) as ex:
        results = [x for lst in ex.map(one_program, progs) for x in lst]
    bad_ref = [p.name for p in progs if runners[p.name].ref[0].timed_out or runners[p.name].ref[1].timed_out]
    if bad_ref:
        ctx.broke("S", "sequential reference", f"sequential run timed out for {bad_ref}")
    ctx.cov["S_programs_where_sequential_warm_ne_cold"] = [p.name for p in progs if not runners[p.name].seq_warm_ok]
    n_runs = 0
    shapes: dict[str, int] = {}
    traces = []
    for res in results:
        c: Case = res["case"]
        n_runs += res["runs"]
        shapes[c.prog.shape] = shapes.get(c.prog.shape, 0) + 1
        traces += res["traces"]
        for f in res["fails"]:
            ctx.violation(f"par-vs-seq:{c.key}:{f['step']}", f"{f['step']}: {f['what']} (program {c.prog.name}, -n {c.n}, schedule {c.sched}, {c.mode})",
                          {"kind": "case", "program": c.prog.to_json(), "n": c.n, "sched": c.sched, "mode": c.mode,
                           "step": f["step"], "diff": f["diff"]})
    ctx.add("evaluations", n_runs)
    ctx.cov["S_cases"] = len(cases)
    ctx.cov["S_mypy_runs"] = n_runs + 7 * nprog
    ctx.cov["S_shapes"] = shapes
    ctx.cov["S_N_values"] = sorted({c.n for c in cases})
    ctx.cov["S_modules_per_program"] = [len(p.mods) for p in progs]
    ref_lines = [len(runners[p.name].ref[0].out) for p in progs]
    ctx.cov["S_reference_diagnostic_lines"] = ref_lines
    ctx.cov["S_reference_diagnostic_files"] = [len(canon(runners[p.name].ref[0].out)) for p in progs]
    ctx.sample({"program": progs[0].name, "srcs": progs[0].srcs[:4], "ref_first_lines": runners[progs[0].name].ref[0].out[:3]})
    ctx.log(f"S: {len(cases)} cases, {n_runs} runs, {time.time()-t0:.0f}s")
    return traces


# ------------------------------------------------------------------------------------------------
# C: trace validation against the Coq model

def coq_list(xs) -> str:
    return "[" + ";".join(str(int(x)) for x in xs) + "]"


REPLAY_CODES = {1: "event not enabled in the model state", 2: "observation before the event differs from the model",
                3: "observation after the event differs from the model", 4: "invariant monitor false after the event",
                5: "final state is not the model's finished state", 6: "model result differs from model sequential run"}


def convert_trace(events: list[dict[str, Any]]) -> tuple[str | None, list[str], list[dict[str, Any]]]:
    """Real event log -> (Coq expression `validate ...`, python-side problems, model event list for messages)."""
    probs: list[str] = []
    dag = next((e for e in events if e["ev"] == "dag"), None)
    beg = next((e for e in events if e["ev"] == "begin"), None)
    if dag is None or beg is None:
        return None, ["trace has no begin/dag event"], []
    n = beg["n"]
    nodes = [s["id"] for s in dag["sccs"]]
    deps = {s["id"]: s["deps"] for s in dag["sccs"]}
    pos = {s: i for i, s in enumerate(nodes)}
    for s in nodes:
        for d in deps[s]:
            if d not in pos or pos[d] >= pos[s]:
                probs.append(f"sorted_components: SCC {s} listed before its dependency {d}")
    for s in dag["sccs"]:
        if sorted(s["dependents"]) != sorted(x for x in nodes if s["id"] in deps[x]):
            probs.append(f"direct_dependents of SCC {s['id']} is not the inverse of deps")
    fresh: list[int] = []
    mev: list[dict[str, Any]] = []
    pending: dict[tuple[int, int], list[int]] = {}
    commit_at: dict[int, tuple[int, dict[str, str]]] = {}
    recv_at: dict[int, int] = {}
    submit_at: dict[int, int] = {}
    open_impl: dict[int, tuple[int, list[str], bool]] = {}     # worker -> (event index, modules, committed?)
    blocker_at: int | None = None
    n_model_at_blocker = 0
    blocker_recv: int | None = None

    def close_impl(w: int, at: int) -> None:
        o = open_impl.pop(w, None)
        if o is not None and not o[2]:
            probs.append(f"event {at}: worker {w} finished the implementation phase of {o[1]} (started at event {o[0]}) "
                         f"without a per-module store commit before going on (cache-shard write lock kept)")

    for i, e in enumerate(events):
        k = e["ev"]
        if k == "impl_start":
            close_impl(e["w"], i)
            open_impl[e["w"]] = (i, e["mods"], False)
        elif k == "commit_module":
            if e["w"] in open_impl:
                o = open_impl[e["w"]]
                open_impl[e["w"]] = (o[0], o[1], True)
        elif k == "commit" and e["kind"] == "impl":
            close_impl(e["w"], i)
        if k == "classify":
            fresh += e["fresh"]
            mev.append({"c": "EClassify", "o1": e["ready"], "o2": [], "i": i})
        elif k == "submit":
            if blocker_recv is not None:
                probs.append(f"event {i}: batch submitted after the coordinator had received a blocker reply")
            for s in e["sccs"]:
                submit_at[s] = i
            mev.append({"c": f"ESubmit {e['w']} {coq_list(e['sccs'])}", "o1": e["queue_after"], "o2": e["free_after"], "i": i})
        elif k == "load":
            pending[(e["w"], e["scc"])] = e["loaded"]
            # value level: what the worker read is what was committed, and it was committed and acknowledged
            # before the dependant was submitted
            for d_s, hs in e["hashes"].items():
                d = int(d_s)
                if d in fresh:
                    continue
                if d not in commit_at:
                    probs.append(f"event {i}: worker {e['w']} loaded SCC {d} for SCC {e['scc']} before any worker committed it")
                    continue
                ci, ch = commit_at[d]
                if ch != hs:
                    probs.append(f"event {i}: worker {e['w']} read interface hashes of SCC {d} that differ from the committed ones")
                if d not in recv_at or not (ci < recv_at[d] < submit_at.get(e["scc"], -1) < i):
                    probs.append(f"event {i}: order commit<reply<submit<load violated for dependency {d} of SCC {e['scc']}")
        elif k == "commit" and e["kind"] == "iface":
            commit_at[e["scc"]] = (i, e["hashes"])
            ld = pending.pop((e["w"], e["scc"]), None)
            if ld is None:
                probs.append(f"event {i}: interface commit of SCC {e['scc']} without a preceding load event")
                ld = []
            mev.append({"c": f"EIface {e['w']}", "o1": ld, "o2": [e["scc"]], "i": i})
        elif k == "commit":
            mev.append({"c": f"EImpl {e['w']}", "o1": [], "o2": [], "i": i})
        elif k == "send":
            if e.get("blocker"):
                if blocker_at is None:
                    blocker_at = i
                    n_model_at_blocker = len(mev)
                continue
            mev.append({"c": ("ESendIface" if e["kind"] == "iface" else "ESendImpl") + f" {e['w']}", "o1": [], "o2": [], "i": i})
        elif k == "recv" and e.get("blocker"):
            blocker_recv = i
        elif k == "recv":
            if e["kind"] == "iface":
                for s in e["sccs"]:
                    recv_at[s] = i
                    for m, hh in e["hashes"].items():
                        pass
                got = {m: hh for m, hh in e["hashes"].items()}
                want: dict[str, str] = {}
                for s in e["sccs"]:
                    want.update(commit_at.get(s, (0, {}))[1])
                if got != want:
                    probs.append(f"event {i}: interface reply of worker {e['w']} carries hashes that differ from the committed ones")
            mev.append({"c": f"ERecv {e['w']}", "o1": [0 if e["kind"] == "iface" else 1], "o2": e["sccs"], "i": i})
    if blocker_at is not None:
        # abort on a blocking error: validate the prefix before the blocker reply (Blocker.v: the coarse part of such a run is a
        # run of the scheduler model); nothing may be submitted after the coordinator read the blocker
        mev = mev[:n_model_at_blocker]
        pending.clear()
    elif not any(e["ev"] == "end" for e in events):
        probs.append("trace has no end event (process_graph did not return)")
    deps_fn = "(fun s => match s with " + " ".join(f"| {s} => {coq_list(deps[s])}" for s in nodes) + " | _ => [] end)"
    evs = "[" + "; ".join(f"({m['c']}, ({coq_list(m['o1'])}, {coq_list(m['o2'])}))" for m in mev) + "]"
    fn = "validate_prefix" if blocker_at is not None else "validate"
    expr = f"{fn} {coq_list(nodes)} {deps_fn} {coq_list(sorted(set(fresh)))} {n} {evs}"
    return expr, probs, mev


REPLAY_HEADER = "From Coq Require Import List Arith.\nFrom C07 Require Import Model Replay.\nImport ListNotations.\n"


def stage_C(ctx: vlib.Ctx, traces: list[dict[str, Any]]) -> None:
    t0 = time.time()
    ok, out = vlib.coq_make(["C07/Replay.vo"])
    if not ok:
        ctx.broke("C", "C07/Replay.vo", out[-2000:])
        return
    exprs, metas = [], []
    n_events = 0
    multi_batch = 0
    kinds: dict[str, int] = {}
    for t in traces:
        expr, probs, mev = convert_trace(t["events"])
        for p in probs[:3]:
            ctx.broke("C", "trace validation (python side)", f"{t['case']} v{t['v']}: {p}", {"case": t["case"], "v": t["v"]})
        if expr is None:
            continue
        exprs.append(expr)
        metas.append((t, mev))
        n_events += len(mev)
        for m in mev:
            kinds[m["c"].split()[0]] = kinds.get(m["c"].split()[0], 0) + 1
            if m["c"].startswith("ESubmit") and m["c"].count(";") >= 1:
                multi_batch += 1
    tag = f"replay{os.getpid()}"       # unique per run: two concurrent checks cannot clobber each other's case files
    res = ctx.eval_cases(tag, REPLAY_HEADER, exprs, per_file=max(1, min(40, (len(exprs) + 7) // 8)), timeout=900)
    cdir = os.path.join(vlib.COQ, "cases")
    for f in os.listdir(cdir) if os.path.isdir(cdir) else []:
        if f.startswith(f"{ctx.prop}_{tag}_"):
            try:
                os.unlink(os.path.join(cdir, f))
            except OSError:
                pass
    if res is None:
        return
    good = 0
    for (t, mev), r in zip(metas, res):
        m = r.strip("() ").split(",")
        code, arg = int(m[0]), int(m[1])
        if code == 0:
            good += 1
            continue
        at = mev[arg] if code in (1, 2, 3, 4) and arg < len(mev) else None
        real = t["events"][at["i"]] if at else None
        if real:
            real = {k: v for k, v in real.items() if k not in ("hashes", "t")}
        ctx.broke("C", "trace validation", f"{t['case']} v{t['v']} (-n {t['n']}): {REPLAY_CODES.get(code, code)}"
                  + (f" at model event #{arg} {at['c']} = real event {json.dumps(real)}" if at else f" ({arg})"),
                  {"case": t["case"], "v": t["v"], "code": code, "arg": arg})
    ctx.add("traces_validated_against_impl", good)
    n_long = n_cm = 0
    writers: dict[tuple[str, int, int], set[int]] = {}
    for t in traces:
        for e in t["events"]:
            if e["ev"] == "impl_start" and e.get("sleep", 0) >= 1.0:
                n_long += 1
            elif e["ev"] == "commit_module":
                n_cm += 1
                writers.setdefault((t["case"], t["v"], e["shard"]), set()).add(e["w"])
    ctx.cov["C_per_module_commit_events"] = n_cm
    ctx.cov["C_long_pauses_injected"] = n_long
    ctx.cov["C_shards_written_by_2plus_workers"] = sum(1 for ws in writers.values() if len(ws) >= 2)
    ctx.cov["C_traces"] = len(exprs)
    ctx.cov["C_model_events_replayed"] = n_events
    ctx.cov["C_event_kinds"] = kinds
    ctx.cov["C_submits_with_multi_scc_batch"] = multi_batch
    ctx.add("evaluations", len(exprs))
    if metas:
        t, mev = metas[0]
        ctx.sample({"trace": t["case"], "first_model_events": [m["c"] for m in mev[:6]], "verdict": res[0]})
    ctx.log(f"C: {good}/{len(exprs)} traces accepted by the model, {n_events} events ({time.time()-t0:.0f}s)")


# ------------------------------------------------------------------------------------------------
# S (blockers): a blocking error found by a WORKER (module-level `break`: raised by semantic analysis; syntax errors are
# raised by the coordinator while loading the graph, before any scheduling, and are covered by the ordinary programs' flow)

BLOCKER_KEY = "blocker:nonblocking-diagnostics-dropped"


def stage_B(ctx: vlib.Ctx, work: str) -> list[dict[str, Any]]:
    nb = int(os.environ.get("C07_NBLOCK", ctx.n(2, 6)))
    traces: list[dict[str, Any]] = []
    stats = {"programs": nb, "runs": 0, "status_2": 0, "full_output_equal": 0, "output_differs": 0}

    def one(k: int) -> list[dict[str, Any]]:
        rng = vlib.Rng(ctx.seed, f"c07block{k}")
        p = gen_program(ctx.seed, 200 + k)
        n = len(p.mods)
        cand = [m for m in p.mods if p.deps[m] and any(m in p.deps[x] for x in p.mods)] or p.mods   # mid-DAG
        bmod = rng.choice(cand)
        bpath = bmod.replace(".", "/") + ".py"
        root = os.path.join(work, f"blk{k}", "t")
        out: list[dict[str, Any]] = []
        files_b = dict(p.files)
        files_b[bpath] = p.files[bpath].rstrip("\n") + "\nbreak\n"       # (some modules end without a newline)
        files_r = dict(p.files)
        files_r[bpath] = p.files[bpath].rstrip("\n") + "\npass\n"
        write_tree(root, files_r)
        rr = run_mypy(root, p.srcs, 0, os.path.join(work, f"blk{k}", "c-r"))
        write_tree(root, files_b)
        seq = run_mypy(root, p.srcs, 0, os.path.join(work, f"blk{k}", "c-seq"))
        allowed = set(rr.out) | set(seq.out)
        bl_seq = [ln for ln in seq.out if ln.startswith(bpath + ":")]
        for j, nn in enumerate([1, 2, 3][: ctx.n(2, 3)]):
            tr = os.path.join(work, f"blk{k}", f"trace{j}.jsonl")
            par = run_mypy(root, p.srcs, nn, os.path.join(work, f"blk{k}", f"c-par{j}"), sched=f"b{ctx.seed}-{k}-{j}", trace=tr)
            rec = {"n": nn, "fails": [], "equal": canon(par.out) == canon(seq.out) and par.status == seq.status,
                   "par": par, "seq": seq, "prog": p, "bpath": bpath, "files": files_b}
            if par.timed_out:
                rec["fails"].append("run did not terminate")
            if par.status != seq.status:
                rec["fails"].append(f"exit status {par.status} vs sequential {seq.status}")
            if [ln for ln in par.out if ln.startswith(bpath + ":")] != bl_seq:
                rec["fails"].append("blocker lines differ from the sequential build")
            extra = [ln for ln in par.out if ln not in allowed]
            if extra:
                rec["fails"].append("diagnostic that no sequential build prints: " + extra[0][:200])
            if par.err.strip() and not seq.err.strip():
                rec["fails"].append("stderr: " + par.err.strip()[-300:])
            out.append(rec)
            evs = load_trace(tr)
            if evs:     # an empty log = the coordinator raised before scheduling anything: nothing to validate
                traces.append({"case": f"blocker/{p.name}/n{nn}", "v": 0, "n": nn, "events": evs, "ok_run": True, "status": par.status})
        if not os.environ.get("C07_KEEP"):
            shutil.rmtree(os.path.join(work, f"blk{k}"), ignore_errors=True)
        return out

    with ThreadPoolExecutor(max_workers=4) as ex:
        recs = [r for lst in ex.map(one, range(nb)) for r in lst]
    for r in recs:
        stats["runs"] += 1
        stats["status_2"] += r["par"].status == 2
        stats["full_output_equal" if r["equal"] else "output_differs"] += 1
        p: Program = r["prog"]
        for f in r["fails"]:
            ctx.violation(f"blocker-run:{p.name}/n{r['n']}:{f[:40]}", f"program with a worker-side blocking error, -n {r['n']}: {f}",
                          {"kind": "blocker", "files": r["files"], "srcs": p.srcs, "n": r["n"], "diff": diff_txt(r["par"], r["seq"])})
        if not r["equal"] and not r["fails"]:
            # Properties.blocker_run_reports_sequential_blocker_refuted, reproduced on the implementation
            ctx.violation(BLOCKER_KEY, "with a blocking error found in a worker, mypy -n N drops non-blocking diagnostics of other modules "
                          "that the sequential build prints before the blocker (which ones depends on batching and reply order; exit status 2 in both)",
                          {"kind": "blocker", "files": r["files"], "srcs": p.srcs, "n": r["n"], "diff": diff_txt(r["par"], r["seq"])})
    ctx.cov["S_blocker"] = stats
    ctx.add("evaluations", stats["runs"])
    return traces


# ------------------------------------------------------------------------------------------------
# S (worker failure): a worker is killed (shim: os._exit at the start of a chosen module's implementation phase).
# Properties.worker_failure_never_yields_partial_result on the implementation: the build must report the failure (exit
# status 2) -- or, when the kill point is not reached, equal the sequential build; never exit 0/1 with other diagnostics.

def stage_K(ctx: vlib.Ctx, work: str) -> None:
    nk = int(os.environ.get("C07_NKILL", ctx.n(2, 6)))
    stats = {"runs": 0, "killed": 0, "status_2": 0}

    def one(k: int) -> dict[str, Any]:
        rng = vlib.Rng(ctx.seed, f"c07kill{k}")
        p = gen_program(ctx.seed, 300 + k)
        victim = rng.choice(p.mods)
        root = os.path.join(work, f"kill{k}", "t")
        write_tree(root, p.files)
        seq = run_mypy(root, p.srcs, 0, os.path.join(work, f"kill{k}", "c-seq"))
        nn = [2, 3, 1][k % 3]
        tr = os.path.join(work, f"kill{k}", "trace.jsonl")
        par = run_mypy(root, p.srcs, nn, os.path.join(work, f"kill{k}", "c-par"), sched=f"k{ctx.seed}-{k}", trace=tr,
                       knobs={"C07_KILL_AT": victim})
        killed = any(e["ev"] == "killed" for e in load_trace(tr))
        if not os.environ.get("C07_KEEP"):
            shutil.rmtree(os.path.join(work, f"kill{k}"), ignore_errors=True)
        return {"p": p, "n": nn, "victim": victim, "seq": seq, "par": par, "killed": killed}

    with ThreadPoolExecutor(max_workers=4) as ex:
        recs = list(ex.map(one, range(nk)))
    for r in recs:
        stats["runs"] += 1
        stats["killed"] += r["killed"]
        stats["status_2"] += r["par"].status == 2
        par, seq = r["par"], r["seq"]
        ok = (par.status == 2 and not par.timed_out) if r["killed"] else same(par, seq)
        if not ok:
            ctx.violation(f"worker-killed:{r['p'].name}/n{r['n']}/{r['victim']}",
                          f"worker killed at the implementation phase of {r['victim']} (-n {r['n']}): exit status {par.status}"
                          + (" (run did not terminate)" if par.timed_out else "") + " instead of a reported failure (2)",
                          {"kind": "kill", "program": r["p"].to_json(), "n": r["n"], "victim": r["victim"], "diff": diff_txt(par, seq)})
    ctx.cov["S_worker_killed"] = stats
    ctx.add("evaluations", stats["runs"])


# ------------------------------------------------------------------------------------------------
# entry points

def run(ctx: vlib.Ctx) -> None:
    ctx.cov["rule"] = ("S: seeded generated programs (10-30 modules; shapes deep/wide/fan/diamond/random/cyclic/mixed; "
                       "errors and reveal_type notes whose text depends on dependencies' interfaces, in top levels and in "
                       "function bodies; optional package and stdlib imports) x N in {1,2,3,4,8} x seeded schedule "
                       "perturbations (per-SCC sleeps in workers, permuted free-worker choice, permuted/partial service of "
                       "simultaneously readable replies) x {cold, typeshed-prewarmed} then an interface-changing edit and a "
                       "parallel warm run; a case is non-trivial when the sequential reference has diagnostics in >= 2 files. "
                       "C: every parallel run's event log is replayed on the Coq model.")
    ctx.assumptions += [
        "analysis of an SCC is a function of (its sources, interfaces of its transitive dependencies as committed): "
        "Section variables analyze_iface/analyze_impl/is_fresh (contract; monitored by the S oracle, not proved)",
        "an O_APPEND log written with one write(2) per event linearises the events of coordinator and workers consistently "
        "with real time (Linux, local file system)",
        "shim raises WORKER_START_TIMEOUT from 3 s to 120 s (environment limit, not scheduling logic)",
        "blocking errors and worker crashes are modelled as an overlay (Blocker.v); syntax errors are raised by the coordinator before scheduling",
        "queue policy (heap by (-size, order), batch size limit) is abstracted to 'any non-empty subset of the queue'; "
        "the theorems hold for every such choice, the real choice is checked to be one",
        "cache maps are compared except trans_dep_hash (parallel workers write it empty; a later warm run then takes the "
        "slower exhaustive branch of verify_transitive_deps) and like for like with a sequential build of the same history "
        "in the same directory (serialized trees embed absolute paths)",
    ]
    # T: which commit protocol do the per-module loops follow? (regenerates coq/gen/C07Protocol.v; fail-closed)
    # T+P run under a lock of their own: two C07 checks against different VERIF_REPO trees share coq/gen/C07Protocol.v
    import fcntl
    os.makedirs(vlib.BUILD, exist_ok=True)
    tp_lock = open(os.path.join(vlib.BUILD, ".c07-tp.lock"), "w")
    fcntl.flock(tp_lock, fcntl.LOCK_EX)
    try:
        from extractors import t07
        flags = t07.extract()
        t07.generate()
        ctx.cov["T_protocol"] = flags
        if not (flags["abort_on_blocker"] and flags["abort_on_lost_worker"]):
            ctx.log("T: the coordinator no longer aborts on a blocker reply / lost worker as Blocker.v models")
        if not (flags["pm_iface"] and flags["pm_impl"]):
            ctx.log("T: the source no longer commits each module at the end of the per-module loops: "
                    "Properties.lock_released_per_module_refuted applies (current_code_commits_per_module will not check)")
    except Exception as e:  # noqa
        ctx.broke("T", "t07 (commit protocol of the per-module loops)", repr(e))
    try:
        ctx.prove("C07/Properties.v", ["C07"])
    finally:
        fcntl.flock(tp_lock, fcntl.LOCK_UN)
        tp_lock.close()
    work = tempfile.mkdtemp(prefix="c07-")
    try:
        traces = stage_S(ctx, work)
        traces += stage_B(ctx, work)
        stage_K(ctx, work)
        stage_C(ctx, traces)
        nontriv = sum(1 for n in ctx.cov.get("S_reference_diagnostic_files", []) if n >= 2)
        ctx.cov["distinct_nontrivial"] = nontriv * int(os.environ.get("C07_PER", ctx.n(3, 5)))
    finally:
        if not os.environ.get("C07_KEEP"):
            shutil.rmtree(work, ignore_errors=True)
        else:
            ctx.log("kept", work)


def replay(ctx: vlib.Ctx, path: str) -> None:
    d = json.load(open(path))
    r = d["replay"]
    if r.get("kind") == "blocker":
        work = tempfile.mkdtemp(prefix="c07-replay-")
        try:
            root = os.path.join(work, "t")
            write_tree(root, r["files"])
            seq = run_mypy(root, r["srcs"], 0, os.path.join(work, "c0"))
            par = run_mypy(root, r["srcs"], r["n"], os.path.join(work, "c1"))
            ctx.log("sequential:\n" + "\n".join(seq.out) + f"\nexit {seq.status}\nparallel -n {r['n']}:\n" + "\n".join(par.out) + f"\nexit {par.status}")
            if canon(seq.out) != canon(par.out) or seq.status != par.status:
                ctx.violation(d["key"], d["what"], r)
        finally:
            shutil.rmtree(work, ignore_errors=True)
        return
    if r.get("kind") != "case":
        ctx.log("nothing to replay (broken obligation record)")
        for b in d.get("broken", []):
            ctx.log(json.dumps(b)[:500])
        return
    prog = Program.from_json(r["program"])
    work = tempfile.mkdtemp(prefix="c07-replay-")
    try:
        pr = ProgRunner(prog, work)
        pr.prepare()
        c = Case(prog, r["n"], r["sched"], r["mode"])
        c.key = f"{prog.name}/n{c.n}/{c.sched}/{c.mode}"
        res = run_case(pr, c)
        for f in res["fails"]:
            ctx.violation(f"par-vs-seq:{c.key}:{f['step']}", f"{f['step']}: {f['what']}",
                          {"kind": "case", "program": r["program"], "n": c.n, "sched": c.sched, "mode": c.mode,
                           "step": f["step"], "diff": f["diff"]})
            ctx.log(f["diff"])
        stage_C(ctx, res["traces"])
        if not res["fails"]:
            ctx.log("replay: no difference this time (the schedule also depends on machine timing; the seed fixes only "
                    "the injected perturbation)")
    finally:
        shutil.rmtree(work, ignore_errors=True)
