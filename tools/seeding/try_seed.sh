#!/bin/bash
# try_seed.sh PROP WORKTREE K [demo-cmd-suffix]: confirm seeded change K (demo passes clean, fails patched), then run
# the property's quick check against the patched worktree (VERIF_REPO) and report whether it fires.
set -u
PROP=$1; WT=$2; K=$3
cd "$WT" || exit 2
git checkout -q -- . 2>/dev/null
DEMO=$(ls out/$K/demo.* | head -1)
run_demo() { if [[ $DEMO == *.sh ]]; then PYTHONPATH=$WT bash $DEMO $WT; else PYTHONPATH=$WT PYTHONHASHSEED=0 /venv/bin/python $DEMO $WT; fi; }
run_demo > out/$K/demo.clean.log 2>&1; C=$?
git apply out/$K/patch.diff || { echo "patch does not apply"; exit 2; }
run_demo > out/$K/demo.patched.log 2>&1; P=$?
echo "demo: clean=$C patched=$P"
/venv/bin/python -c "import mypy.main, mypy.build, mypyc.build" 2>&1 | tail -1
( cd /verif && VERIF_REPO=$WT timeout 3000 bin/check $PROP --tier quick > $WT/out/$K/check.log 2>&1; echo "check exit=$?" )
grep -E "^VIOLATION|^KNOWN-FINDING|BROKEN|done:" $WT/out/$K/check.log | cut -c1-300 | head -12
git checkout -q -- .
