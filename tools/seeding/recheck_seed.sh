#!/bin/bash
# recheck_seed.sh NAME [tier]: apply /verif/seeded/NAME/patch.diff to a fresh scratch worktree of /repo HEAD, run the
# property's check against it (VERIF_REPO), record the outcome in seeded/NAME/meta.json, remove the worktree.
set -u
NAME=$1; TIER=${2:-quick}
D=/verif/seeded/$NAME; PROP=$(/venv/bin/python -c "import json;print(json.load(open('$D/meta.json'))['property'])")
WT=/tmp/recheck-$NAME
git -C /repo worktree remove --force $WT 2>/dev/null; git -C /repo worktree add -q --detach $WT HEAD || exit 2
( cd $WT && git apply $D/patch.diff ) || { echo "$NAME: patch no longer applies"; git -C /repo worktree remove --force $WT; exit 2; }
( cd /verif && VERIF_REPO=$WT timeout 3000 bin/check $PROP --tier $TIER > $D/check.log 2>&1; echo $? > $D/check.exit )
/venv/bin/python - "$D" <<'PY'
import json,sys,os
d=sys.argv[1]; m=json.load(open(os.path.join(d,'meta.json')))
log=open(os.path.join(d,'check.log'),errors='replace').read()
viol=[l.strip()[:300] for l in log.splitlines() if l.startswith('VIOLATION')]
m['recheck']={'exit':int(open(os.path.join(d,'check.exit')).read()),'violation_lines':viol[:4],
              'broken_obligations':[l.strip()[:300] for l in log.splitlines() if 'BROKEN' in l][:4]}
m['detected_now']=bool(viol)
json.dump(m,open(os.path.join(d,'meta.json'),'w'),indent=1)
print(m['name'],'DETECTED' if viol else 'missed', 'exit',m['recheck']['exit'])
PY
rm -f $D/check.exit; tail -c 3000 $D/check.log > $D/check.tail.log; rm -f $D/check.log
git -C /repo worktree remove --force $WT
