#!/venv/bin/python
"""store_seed.py PROP WORKTREE K NAME 'needs' 'tests-cmd-summary' -> copies the seeded change into /verif/seeded/<NAME>/ with meta.json"""
import json, os, shutil, sys, re
prop, wt, k, name, needs, tests = sys.argv[1:7]
src = os.path.join(wt, "out", k)
dst = os.path.join("/verif/seeded", name)
os.makedirs(dst, exist_ok=True)
for f in os.listdir(src):
    if f.endswith((".diff", ".py", ".sh", ".md")):
        shutil.copy(os.path.join(src, f), dst)
chk = open(os.path.join(src, "check.log"), errors="replace").read() if os.path.exists(os.path.join(src, "check.log")) else ""
viol = [l.strip()[:300] for l in chk.splitlines() if l.startswith("VIOLATION")]
broken = [l.strip()[:300] for l in chk.splitlines() if "BROKEN" in l][:4]
meta = {"property": prop, "name": name, "needs_to_manifest": needs,
        "demo": "clean tree: exit 0; patched: exit != 0 (see demo.*.log at seeding time)",
        "existing_tests_run_with_patch": tests,
        "how_checked": f"patch applied to a scratch worktree; VERIF_REPO=<worktree> bin/check {prop} --tier quick",
        "detected": bool(viol), "violation_lines": viol[:4], "broken_obligations": broken}
json.dump(meta, open(os.path.join(dst, "meta.json"), "w"), indent=1)
print(name, "detected" if viol else "MISSED")
