#!/venv/bin/python
"""mkprompt.py PID WORKTREE N [focus text] -> prints the prompt for a seeding sub-agent (property text only)."""
import json, sys, os
pid, wt, n = sys.argv[1], sys.argv[2], sys.argv[3]
focus = sys.argv[4] if len(sys.argv) > 4 else ""
root = os.path.dirname(os.path.dirname(os.path.dirname(os.path.abspath(__file__))))
p = next(json.loads(l) for l in open(os.path.join(root, "properties.jsonl")) if json.loads(l)["id"] == pid)
t = open(os.path.join(os.path.dirname(os.path.abspath(__file__)), "prompt_template.txt")).read()
print(t.format(WT=wt, PID=pid, STATEMENT=p["statement"], QUANT=p["quantifier"]["text"], FILES=", ".join(p["anchors"]["files"]),
               FOCUS=("Focus for this task: " + focus) if focus else "", N=n))
