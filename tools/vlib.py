"""Shared machinery for every property check (pipeline T -> P -> A -> C -> S).

A property harness is a module tools/harness/Cxx.py exposing

    def run(ctx: Ctx) -> None

which calls ctx.stage_* helpers / ctx.violation(...) / ctx.broken(...) and fills
ctx.cov (coverage dict).  bin/check drives it, writes evidence/Cxx.json and prints the
VIOLATION / KNOWN-FINDING lines.  See DESIGN.md section 2.
"""
from __future__ import annotations

import fcntl
import hashlib
import json
import os
import re
import shutil
import subprocess
import sys
import time
from dataclasses import dataclass, field
from typing import Any, Callable, Iterable, Sequence

VERIF = os.path.dirname(os.path.dirname(os.path.abspath(__file__)))
REPO = os.environ.get("VERIF_REPO", "/repo")
COQ = os.path.join(VERIF, "coq")
GEN = os.path.join(COQ, "gen")
BUILD = os.path.join(VERIF, "build")
REPLAYS = os.path.join(VERIF, "replays")
# evidence of runs against a scratch copy (VERIF_REPO set, e.g. seeded mutants) must never overwrite the real evidence
EVIDENCE = os.path.join(VERIF, "evidence") if REPO == "/repo" else os.path.join(BUILD, "evidence-scratch")
PY = "/venv/bin/python"
NPROC = int(os.environ.get("VERIF_JOBS", "16"))

# Standard-library axioms that may appear under Print Assumptions (DESIGN section 5).
ALLOWED_AXIOMS = {
    "functional_extensionality_dep",
    "FunctionalExtensionality.functional_extensionality_dep",
    "Eqdep.Eq_rect_eq.eq_rect_eq",
    "Eq_rect_eq.eq_rect_eq",
    "eq_rect_eq",
    "JMeq_eq",
    "JMeq.JMeq_eq",
    "proof_irrelevance",
    "ProofIrrelevance.proof_irrelevance",
    "classic",
    "Classical_Prop.classic",
    "propositional_extensionality",
}

BANNED = re.compile(
    r"\b(Admitted|admit|Axiom|Axioms|Parameter|Parameters|Conjecture|Conjectures|"
    r"Admit Obligations|bypass_check|native_compute)\b|Unset\s+Guard|Unset\s+Positivity|"
    r"Unset\s+Universe|type-in-type|impredicative-set"
)


def py_env(extra: dict[str, str] | None = None) -> dict[str, str]:
    env = dict(os.environ)
    env["PYTHONPATH"] = REPO
    env["PYTHONHASHSEED"] = env.get("VERIF_HASHSEED", "0")
    env["PYTHON_MYPY_VERIF"] = "1"
    env.setdefault("MYPY_CACHE_DIR", os.devnull)
    env.pop("MYPYPATH", None)
    if extra:
        env.update(extra)
    return env


def sh(cmd: Sequence[str] | str, timeout: float = 600, cwd: str | None = None,
       env: dict[str, str] | None = None, input: str | None = None) -> tuple[int, str]:
    """Run a command, return (status, combined output). status 124 on timeout."""
    try:
        p = subprocess.run(cmd, shell=isinstance(cmd, str), cwd=cwd, env=env, input=input,
                           stdout=subprocess.PIPE, stderr=subprocess.STDOUT, text=True,
                           timeout=timeout, errors="replace")
        return p.returncode, p.stdout
    except subprocess.TimeoutExpired as e:
        out = e.stdout.decode(errors="replace") if isinstance(e.stdout, bytes) else (e.stdout or "")
        return 124, out + "\n[timeout]"


def read_repo(rel: str) -> str:
    with open(os.path.join(REPO, rel), encoding="utf-8") as f:
        return f.read()


def write_if_changed(path: str, text: str) -> bool:
    os.makedirs(os.path.dirname(path), exist_ok=True)
    try:
        with open(path, encoding="utf-8") as f:
            if f.read() == text:
                os.utime(path, None)  # force rebuild of dependants: proofs are re-checked every run
                return False
    except FileNotFoundError:
        pass
    with open(path, "w", encoding="utf-8") as f:
        f.write(text)
    return True


class CoqLock:
    def __enter__(self):
        os.makedirs(BUILD, exist_ok=True)
        self.f = open(os.path.join(BUILD, ".coqlock"), "w")
        fcntl.flock(self.f, fcntl.LOCK_EX)
        return self

    def __exit__(self, *a):
        fcntl.flock(self.f, fcntl.LOCK_UN)
        self.f.close()


def coq_dirs() -> list[str]:
    return sorted(d for d in os.listdir(COQ) if os.path.isdir(os.path.join(COQ, d))
                  and d not in ("cases",) and not d.startswith("."))


def coq_qflags() -> list[str]:
    fl: list[str] = []
    for d in coq_dirs():
        fl += ["-Q", d, logical(d)]
    return fl


def logical(d: str) -> str:
    return {"lib": "VLib", "gen": "Gen"}.get(d, d)


def coq_project(tag: str = "", files: Sequence[str] | None = None) -> str:
    """(Re)generate coq/_CoqProject<tag> and coq/Makefile<tag>; return the Makefile name.

    With `files` (paths relative to coq/) the project contains ONLY those files: a check builds the
    transitive closure of its own Properties file, so a missing or broken file of another property
    (e.g. a gen/ file that property's translator could not regenerate) cannot break this build."""
    lines = []
    for d in coq_dirs():
        lines.append(f"-Q {d} {logical(d)}")
    lines.append("-arg -w -arg -notation-overridden,-deprecated-hint-without-locality,-deprecated-instance-without-locality,-ambiguous-paths,-deprecated-syntactic-definition")
    if files is None:
        for d in coq_dirs():
            for f in sorted(os.listdir(os.path.join(COQ, d))):
                if f.endswith(".v"):
                    lines.append(f"{d}/{f}")
    else:
        lines += sorted(files)
    txt = "\n".join(lines) + "\n"
    suffix = ("." + tag) if tag else ""
    p = os.path.join(COQ, "_CoqProject" + suffix)
    mk = "Makefile" + suffix
    old = open(p).read() if os.path.exists(p) else None
    if old != txt or not os.path.exists(os.path.join(COQ, mk)):
        with open(p, "w") as f:
            f.write(txt)
        sh(["coq_makefile", "-f", "_CoqProject" + suffix, "-o", mk], cwd=COQ)
    return mk


def coq_make(targets: Sequence[str], timeout: float = 900, tag: str | None = None) -> tuple[bool, str]:
    """Full .vo build of the given targets (paths relative to coq/, '.vo') and their dependencies only."""
    files: list[str] = []
    for t in targets:
        v = t[:-1] if t.endswith(".vo") else t
        for f in closure_files(v):
            if f not in files:
                files.append(f)
    if tag is None:
        tag = hashlib.sha1(" ".join(sorted(targets)).encode()).hexdigest()[:10]
    with CoqLock():
        mk = coq_project(tag, files)
        st, out = sh(["make", "-f", mk, f"-j{NPROC}", "--no-print-directory"] + list(targets), cwd=COQ, timeout=timeout)
    return st == 0, out


def coqc_file(rel: str, timeout: float = 600) -> tuple[int, str]:
    """Compile one file with coqc directly (used for Properties.v so its output is captured)."""
    with CoqLock():
        return sh(["coqc"] + coq_qflags() + ["-w", "-notation-overridden,-deprecated-hint-without-locality,-deprecated-instance-without-locality,-ambiguous-paths,-deprecated-syntactic-definition", rel], cwd=COQ, timeout=timeout)


def parse_assumptions(out: str) -> list[list[str]]:
    """Split coqc output of a file made of theorems each followed by Print Assumptions.

    Returns one list of axiom names per Print Assumptions block ([] = closed)."""
    blocks: list[list[str]] = []
    cur: list[str] | None = None
    for line in out.splitlines():
        if line.startswith("Closed under the global context"):
            if cur is not None:
                blocks.append(cur)
                cur = None
            blocks.append([])
        elif line.startswith("Axioms:"):
            if cur is not None:
                blocks.append(cur)
            cur = []
        elif cur is not None:
            m = re.match(r"^([A-Za-z_][\w.']*)\s*(:|$)", line)
            if m and not line.startswith(" "):
                cur.append(m.group(1))
    if cur is not None:
        blocks.append(cur)
    return blocks


def strip_coq_comments(s: str) -> str:
    out = []
    depth = 0
    i = 0
    while i < len(s):
        if s.startswith("(*", i):
            depth += 1
            i += 2
        elif s.startswith("*)", i) and depth:
            depth -= 1
            i += 2
        else:
            if not depth:
                out.append(s[i])
            i += 1
    return "".join(out)


def strip_coq_strings(s: str) -> str:
    """Blank out the contents of string literals ("" is the escaped quote)."""
    return re.sub(r'"(?:[^"]|"")*"', '""', s)


def closure_files(props_rel: str) -> list[str]:
    """Project-local transitive dependencies (.v paths relative to coq/) of a file, itself included."""
    seen: list[str] = []
    todo = [props_rel]
    while todo:
        f = todo.pop()
        if f in seen or not os.path.exists(os.path.join(COQ, f)):
            continue
        seen.append(f)
        todo += [d[:-1] for d in coq_deps_of(f)]
    return sorted(seen)


def audit_sources(dirs: Iterable[str], extra_files: Iterable[str] = ()) -> list[str]:
    """Grep the closure for banned constructs (outside comments and string literals).

    Every .v file of the listed directories is audited, except that of coq/gen only the files in
    `extra_files` (the transitive closure of the Properties file) are: gen/ is shared by all properties."""
    bad = []
    files: list[tuple[str, str]] = []
    for d in dirs:
        dd = os.path.join(COQ, d)
        if not os.path.isdir(dd) or d == "gen":
            continue
        files += [(d, f) for f in sorted(os.listdir(dd)) if f.endswith(".v")]
    for rel in extra_files:
        d, f = os.path.split(rel)
        if (d, f) not in files:
            files.append((d, f))
    for d, f in files:
        dd = os.path.join(COQ, d)
        if True:
            if True:
                pass
            src = strip_coq_strings(strip_coq_comments(open(os.path.join(dd, f), encoding="utf-8").read()))
            for m in BANNED.finditer(src):
                bad.append(f"{d}/{f}: {m.group(0)}")
            # Variable/Hypothesis outside a Section declare axioms
            depth = 0
            for ln in src.splitlines():
                s = ln.strip()
                if re.match(r"^Section\b", s):
                    depth += 1
                elif re.match(r"^End\b", s) and depth:
                    depth -= 1  # also closes Modules; conservative enough because we never nest modules in sections
                elif re.match(r"^(Variables?|Hypothes[ie]s|Context)\b", s) and depth == 0:
                    bad.append(f"{d}/{f}: {s[:40]} outside Section")
    return bad


@dataclass
class Violation:
    key: str            # stable identity used to match known_findings.json
    what: str
    replay: dict[str, Any]
    no_input: bool = False


@dataclass
class Ctx:
    prop: str
    tier: str
    seed: int
    t0: float = field(default_factory=time.time)
    cov: dict[str, Any] = field(default_factory=dict)
    assumptions: list[str] = field(default_factory=list)
    violations: list[Violation] = field(default_factory=list)
    broken: list[dict[str, Any]] = field(default_factory=list)   # broken obligations / correspondences
    log_lines: list[str] = field(default_factory=list)
    level: str = "proof"

    # ---- logging
    def log(self, *a: Any) -> None:
        s = " ".join(str(x) for x in a)
        self.log_lines.append(s)
        print(f"[{self.prop} {time.time()-self.t0:6.1f}s] {s}", flush=True)

    @property
    def quick(self) -> bool:
        return self.tier == "quick"

    def n(self, quick: int, thorough: int) -> int:
        return quick if self.quick else thorough

    # ---- results
    def violation(self, key: str, what: str, replay: dict[str, Any]) -> None:
        """The implementation violates the property on a concrete input."""
        if any(v.key == key for v in self.violations):
            return
        self.violations.append(Violation(key, what, replay))
        self.log("violation:", key, "-", what)

    def broke(self, stage: str, name: str, detail: str, data: Any = None) -> None:
        """A proof obligation, translator step or correspondence case no longer checks."""
        self.broken.append({"stage": stage, "name": name, "detail": detail[-4000:], "data": data})
        self.log(f"BROKEN {stage}: {name}: {detail[-600:]}")

    def add(self, key: str, n: int = 1) -> None:
        self.cov[key] = self.cov.get(key, 0) + n

    def sample(self, x: Any, limit: int = 5) -> None:
        s = self.cov.setdefault("samples", [])
        if len(s) < limit:
            s.append(x)

    # ---- stage P + A
    def prove(self, props_rel: str, closure_dirs: Sequence[str], deps: Sequence[str] = (),
              timeout: float = 900) -> bool:
        """Build the closure and Properties file; audit; record obligations.

        props_rel: e.g. 'C12/Properties.v'.  closure_dirs: coq subdirs to grep-audit."""
        t = time.time()
        targets = [d if d.endswith(".vo") else d + "o" for d in deps]
        # the Properties file is always recompiled so that its Print Assumptions output is fresh
        vo = os.path.join(COQ, props_rel + "o")
        if os.path.exists(vo):
            os.remove(vo)
        src = strip_coq_comments(open(os.path.join(COQ, props_rel)).read())
        thms = re.findall(r"^\s*(?:Theorem|Lemma|Corollary)\s+([\w']+)", src, re.M)
        n_print = len(re.findall(r"Print Assumptions", src))
        self.cov["obligations"] = self.cov.get("obligations", 0) + len(thms)
        self.cov.setdefault("theorems", []).extend(thms)
        # dependencies through make (full .vo build)
        dep_targets = coq_deps_of(props_rel)
        ok, out = coq_make(sorted(set(targets + dep_targets)), timeout=timeout)
        cmd = f"cd coq && make -j{NPROC} <deps of {props_rel}> && coqc -Q ... {props_rel}"
        self.cov["checker_cmd"] = (self.cov.get("checker_cmd", "") + " ; " + cmd).strip(" ;")
        if not ok:
            self.broke("P", props_rel, "dependency build failed:\n" + out[-3000:])
            self.cov.setdefault("discharged", 0)
            return False
        st, out = coqc_file(props_rel, timeout=timeout)
        if st != 0:
            m = re.findall(r'File "[^"]+", line (\d+)', out)
            self.broke("P", props_rel, f"coqc failed (status {st}):\n" + out[-3000:],
                       {"line": m[-1] if m else None})
            self.cov.setdefault("discharged", 0)
            return False
        blocks = parse_assumptions(out)
        okA = True
        if n_print < len(thms) or len(blocks) != n_print:
            self.broke("A", props_rel, f"{len(thms)} theorems, {n_print} Print Assumptions, {len(blocks)} parsed blocks")
            okA = False
        tb = self.cov.setdefault("trusted_base", [])
        axioms = sorted({a for b in blocks for a in b})
        for a in axioms:
            if a not in ALLOWED_AXIOMS and a.split(".")[-1] not in ALLOWED_AXIOMS:
                self.broke("A", props_rel, f"theorem depends on non-whitelisted axiom {a}")
                okA = False
        tb.append(f"{props_rel}: " + ("closed under the global context (no axioms)" if not axioms else "axioms: " + ", ".join(axioms)))
        bad = audit_sources(list(closure_dirs), closure_files(props_rel))
        if bad:
            self.broke("A", props_rel, "banned constructs: " + "; ".join(bad[:10]))
            okA = False
        if okA:
            self.cov["discharged"] = self.cov.get("discharged", 0) + len(thms)
        else:
            self.cov.setdefault("discharged", 0)
        self.log(f"P+A {props_rel}: {len(thms)} theorems, axioms={axioms or 'none'} ({time.time()-t:.1f}s)")
        if not self.quick and os.environ.get("VERIF_COQCHK", "1") == "1":
            self.coqchk(props_rel)
        return okA

    def coqchk(self, props_rel: str) -> None:
        mod = logical(os.path.dirname(props_rel)) + "." + os.path.basename(props_rel)[:-2]
        with CoqLock():
            st, out = sh(["coqchk", "-silent", "-o"] + coq_qflags() + [mod], cwd=COQ, timeout=1500)
        if st != 0:
            self.broke("A", props_rel, "coqchk failed:\n" + out[-2000:])
        else:
            ax = re.findall(r"^\s+(\S+)\s*$", out.split("Axioms:")[-1], re.M) if "Axioms:" in out else []
            self.cov.setdefault("trusted_base", []).append(f"coqchk -o {mod}: ok; axioms in loaded libraries: {', '.join(ax) or 'none'}")
            self.log("coqchk ok", mod)

    # ---- model evaluation by cases.v
    def eval_cases(self, name: str, header: str, exprs: Sequence[str], per_file: int = 400,
                   timeout: float = 600) -> list[str] | None:
        """Evaluate Coq expressions (each of a printable type) with vm_compute.

        Each expression is printed on its own via `Eval vm_compute in (expr).` and the
        results are returned as whitespace-normalised strings, one per expression.
        Returns None (and records a broken correspondence) if coqc fails."""
        cdir = os.path.join(COQ, "cases")
        os.makedirs(cdir, exist_ok=True)
        files = []
        for k in range(0, len(exprs), per_file):
            fn = os.path.join(cdir, f"{self.prop}_{name}_p{os.getpid()}_{k//per_file}.v")
            body = [header]
            for e in exprs[k:k + per_file]:
                body.append(f"Eval vm_compute in ({e}).")
            with open(fn, "w") as f:
                f.write("\n".join(body) + "\n")
            files.append(fn)
        results: list[str] = []
        from concurrent.futures import ThreadPoolExecutor
        qf = coq_qflags()

        def one(fn: str) -> tuple[int, str]:
            return sh(["coqc"] + qf + ["-w", "-all", fn], cwd=COQ, timeout=timeout)
        with ThreadPoolExecutor(max_workers=min(NPROC, 8)) as ex:
            outs = list(ex.map(one, files))
        for fn, (st, out) in zip(files, outs):
            if st != 0:
                self.broke("C", f"cases {name}", f"coqc {fn} failed:\n{out[-2000:]}")
                return None
            results += split_evals(out)
            for ext in (".vo", ".glob", ".vok", ".vos", ".v"):
                try:
                    os.remove(fn[:-2] + ext)
                except OSError:
                    pass
            try:
                os.remove(os.path.join(cdir, "." + os.path.basename(fn)[:-2] + ".aux"))
            except OSError:
                pass
        if len(results) != len(exprs):
            self.broke("C", f"cases {name}", f"expected {len(exprs)} results, parsed {len(results)}")
            return None
        return results


def split_evals(out: str) -> list[str]:
    """Split coqc output into the values printed by successive `Eval` commands."""
    res: list[str] = []
    cur: list[str] | None = None
    for line in out.splitlines():
        if line.startswith("     = "):
            if cur is not None:
                res.append(finish_eval(cur))
            cur = [line[7:]]
        elif cur is not None:
            cur.append(line)
    if cur is not None:
        res.append(finish_eval(cur))
    return res


def finish_eval(lines: list[str]) -> str:
    s = " ".join(l.strip() for l in lines)
    # drop the trailing type annotation ": T"
    depth = 0
    cut = None
    in_str = False
    for i, ch in enumerate(s):
        if ch == '"':
            in_str = not in_str
        if in_str:
            continue
        if ch in "([{":
            depth += 1
        elif ch in ")]}":
            depth -= 1
        elif ch == ":" and depth == 0 and s[i - 1:i] == " " and s[i + 1:i + 2] == " ":
            cut = i
    if cut is not None:
        s = s[:cut]
    return re.sub(r"\s+", " ", s).strip()


def coq_deps_of(rel: str) -> list[str]:
    """Direct project dependencies (.vo targets) of a .v file, from its Require lines."""
    src = strip_coq_comments(open(os.path.join(COQ, rel)).read())
    deps = []
    for m in re.finditer(r"(?:From\s+(\w+)\s+)?Require\s+(?:Import\s+|Export\s+)?([^.]*(?:\.[^.\s][^.]*)*)\.\s", src + " "):
        frm, names = m.group(1), m.group(2)
        for nm in names.split():
            full = f"{frm}.{nm}" if frm else nm
            parts = full.split(".")
            for d in coq_dirs():
                if parts[0] == logical(d) and len(parts) >= 2:
                    p = os.path.join(d, parts[1] + ".v")
                    if os.path.exists(os.path.join(COQ, p)):
                        deps.append(p + "o")
    return deps


# ---------------------------------------------------------------- OCaml extraction helpers

def build_extracted(name: str, extract_v: str, driver_ml: str, timeout: float = 600) -> str | None:
    """coqc an Extraction file (writes <name>.ml in build/<name>/) and link it with a driver.

    extract_v: path relative to coq/ of a .v file whose `Extraction "<name>.ml" ...` writes
    relative to cwd.  Returns the executable path or None."""
    out_dir = os.path.join(BUILD, name)
    shutil.rmtree(out_dir, ignore_errors=True)
    os.makedirs(out_dir)
    deps = coq_deps_of(extract_v)
    okd, outd = coq_make(deps, timeout=timeout, tag="x" + name)
    if not okd:
        print(outd[-3000:])
        return None
    with CoqLock():
        flags = []
        for d in coq_dirs():
            flags += ["-Q", os.path.join(COQ, d), logical(d)]
        st, out = sh(["coqc"] + flags + ["-w", "-all", os.path.join(COQ, extract_v), "-o", os.path.join(out_dir, os.path.basename(extract_v) + "o")], cwd=out_dir, timeout=timeout)
    if st != 0:
        print(out[-3000:])
        return None
    drv = open(os.path.join(VERIF, driver_ml)).read()
    drv = drv.replace("include Zio_inc", open(os.path.join(VERIF, "tools/ocaml/zio.ml")).read())
    with open(os.path.join(out_dir, "driver.ml"), "w") as f:
        f.write(drv)
    mls = [f for f in os.listdir(out_dir) if f.endswith(".ml") and f != "driver.ml"]
    mlis = [f for f in os.listdir(out_dir) if f.endswith(".mli")]
    st, out = sh(["ocamlfind", "ocamlopt", "-inline", "100", "-w", "-a"] + mlis + mls + ["driver.ml", "-o", "run"], cwd=out_dir, timeout=timeout)
    if st != 0:
        print(out[-3000:])
        return None
    return os.path.join(out_dir, "run")


# ---------------------------------------------------------------- known findings / verdict

def load_known() -> list[dict[str, Any]]:
    """known_findings.json (committed, never written at run time).

    VERIF_KNOWN_EXTRA=<file> merges a list of {"property"?, "key", "what"} entries: used only while
    DEVELOPING a check, before its findings are reviewed and copied into known_findings.json."""
    p = os.path.join(VERIF, "known_findings.json")
    out: list[dict[str, Any]] = []
    if os.path.exists(p):
        out = list(json.load(open(p))["findings"])
    extra = os.environ.get("VERIF_KNOWN_EXTRA")
    if extra and os.path.exists(extra):
        m = re.search(r"(C\d\d)", os.path.basename(extra))
        for e in json.load(open(extra)):
            e = dict(e)
            e.setdefault("property", m.group(1) if m else "")
            e.setdefault("status", "known")
            out.append(e)
    return out


def finish(ctx: Ctx) -> int:
    """Print verdict lines, write evidence, return exit status."""
    os.makedirs(REPLAYS, exist_ok=True)
    os.makedirs(EVIDENCE, exist_ok=True)
    known = [k for k in load_known() if k["property"] == ctx.prop and k.get("status") == "known"]
    status = 0
    n_viol = 0
    listed = []
    for v in ctx.violations:
        kf = next((k for k in known if k["key"] == v.key
                   or (k["key"].endswith(":*") and v.key.startswith(k["key"][:-1]))), None)
        if kf is not None:
            print(f"KNOWN-FINDING: property={ctx.prop} {kf['what']}")
            listed.append(v.key)
            continue
        n_viol += 1
        h = hashlib.sha1(v.key.encode()).hexdigest()[:10]
        path = os.path.join(REPLAYS, f"{ctx.prop}-{h}.json")
        json.dump({"property": ctx.prop, "key": v.key, "what": v.what, "seed": ctx.seed, "tier": ctx.tier,
                   "replay": v.replay}, open(path, "w"), indent=1, default=str)
        print(f"VIOLATION property={ctx.prop} replay={path}")
        status = 1
    if ctx.broken and n_viol == 0:
        # a proof obligation / translator step / correspondence no longer checks and the search
        # found no failing input that is not already listed
        path = os.path.join(REPLAYS, f"{ctx.prop}-broken-obligation.json")
        json.dump({"property": ctx.prop, "broken": ctx.broken, "seed": ctx.seed, "tier": ctx.tier,
                   "note": "no concrete failing input found by the search; the named theorem / translator step / correspondence no longer checks"},
                  open(path, "w"), indent=1, default=str)
        print(f"VIOLATION property={ctx.prop} replay={path} no-failing-input-found")
        n_viol += 1
        status = 1
    cov = ctx.cov
    cov.setdefault("obligations", 0)
    cov.setdefault("discharged", 0)
    cov.setdefault("checker_cmd", "none")
    cov.setdefault("trusted_base", [])
    cov.setdefault("evaluations", 0)
    cov.setdefault("distinct_nontrivial", 0)
    cov.setdefault("rule", "")
    cov.setdefault("samples", [])
    cov["known_findings_reproduced"] = listed
    cov["broken_obligations"] = [b["stage"] + ":" + b["name"] for b in ctx.broken]
    ev = {
        "property_id": ctx.prop, "tier": ctx.tier, "seed": ctx.seed, "level": ctx.level,
        "coverage": cov, "assumptions": ctx.assumptions, "wall_s": round(time.time() - ctx.t0, 2),
        "violations": n_viol,
    }
    with open(os.path.join(EVIDENCE, f"{ctx.prop}.json"), "w") as f:
        json.dump(ev, f, indent=1, default=str)
    print(f"[{ctx.prop}] done: obligations={cov['obligations']} discharged={cov['discharged']} "
          f"evaluations={cov['evaluations']} violations={n_viol} known={len(listed)} wall={ev['wall_s']}s")
    return status


class Rng:
    """Deterministic PRNG; every random choice of a run derives from VERIF_SEED."""

    def __init__(self, seed: int, stream: str = ""):
        import random
        self.r = random.Random(f"{seed}/{stream}")

    def __getattr__(self, k: str):
        return getattr(self.r, k)
