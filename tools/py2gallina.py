"""Fail-closed translator from a restricted Python subset to Gallina text.

Only what the extracted cores need (DESIGN 4.1).  Anything not understood raises
Unsupported, which the harness reports as a broken T stage.

Typing discipline: every Python expression is translated together with a small type tag:
  'Z' (int), 'bool', 'str' (Coq string), 'ord:<T>' (a value of generic ordered type T, compared
  through the section variable `cmp : T -> T -> comparison`), 'none', 'opt:<t>', 'val' (constant
  folding value), 'bytes' (list N), 'N'.
Statements are translated in continuation style: tr_block(stmts, k) where k is the Gallina
text for "falling off the end".
"""
from __future__ import annotations

import ast
from dataclasses import dataclass, field
from typing import Callable


class Unsupported(Exception):
    pass


def fail(node: ast.AST, why: str) -> "Unsupported":
    return Unsupported(f"line {getattr(node, 'lineno', '?')}: {why}: {ast.dump(node)[:200]}")


def coq_string(s: str) -> str:
    if any(ord(c) > 126 or ord(c) < 32 for c in s):
        raise Unsupported(f"non-printable string literal {s!r}")
    return '"' + s.replace('"', '""') + '"%string'


def coq_Z(n: int) -> str:
    return f"({n})%Z"


@dataclass
class Fn:
    """Per-function translation configuration."""
    name: str
    params: dict[str, str]                 # python param name -> type tag
    ret: str                               # how to wrap returned expressions, see wrap_return
    coq_name: str | None = None
    coq_params: str | None = None          # override for binder text
    coq_ret: str | None = None
    locals: dict[str, str] = field(default_factory=dict)


COQ_TY = {"Z": "Z", "bool": "bool", "str": "string", "val": "val", "bytes": "list N", "N": "N"}


def coq_ty(t: str) -> str:
    if t.startswith("ord:"):
        return t[4:]
    if t.startswith("opt:"):
        return f"(option {coq_ty(t[4:])})"
    return COQ_TY[t]


class Translator:
    def __init__(self, module_src: str, consts: dict[str, tuple[str, str]] | None = None):
        self.tree = ast.parse(module_src)
        self.funcs = {n.name: n for n in self.tree.body if isinstance(n, ast.FunctionDef)}
        # module-level integer / string constants:  NAME: Final = 3   or NAME = 3
        self.consts: dict[str, tuple[str, str]] = dict(consts or {})
        for n in self.tree.body:
            tgt = val = None
            if isinstance(n, ast.AnnAssign) and isinstance(n.target, ast.Name) and n.value is not None:
                tgt, val = n.target.id, n.value
            elif isinstance(n, ast.Assign) and len(n.targets) == 1 and isinstance(n.targets[0], ast.Name):
                tgt, val = n.targets[0].id, n.value
            if tgt and isinstance(val, ast.Constant):
                if isinstance(val.value, bool):
                    continue
                if isinstance(val.value, int):
                    self.consts[tgt] = (coq_Z(val.value), "Z")
                elif isinstance(val.value, str):
                    try:
                        self.consts[tgt] = (coq_string(val.value), "str")
                    except Unsupported:
                        pass

    def const_defs(self, names: list[str]) -> str:
        out = []
        for n in names:
            if n not in self.consts:
                raise Unsupported(f"module constant {n} not found")
            v, t = self.consts[n]
            out.append(f"Definition {n} : {coq_ty(t)} := {v}.")
        return "\n".join(out)

    # ------------------------------------------------------------------ functions
    def function(self, cfg: Fn) -> str:
        if cfg.name not in self.funcs:
            raise Unsupported(f"function {cfg.name} not found")
        f = self.funcs[cfg.name]
        a = f.args
        if a.vararg or a.kwarg or a.kwonlyargs or a.posonlyargs or a.defaults:
            raise fail(f, "unsupported parameter list")
        names = [x.arg for x in a.args]
        if names != list(cfg.params):
            raise Unsupported(f"{cfg.name}: parameters changed: {names} vs {list(cfg.params)}")
        env = dict(cfg.params)
        self.cfg = cfg
        self.dicts: dict[str, tuple[str, str]] = {}
        body = [s for s in f.body if not (isinstance(s, ast.Expr) and isinstance(s.value, ast.Constant)
                                          and isinstance(s.value.value, str))]
        text = self.block(body, env, self.fall_off(cfg))
        binders = cfg.coq_params or " ".join(f"({n} : {coq_ty(t)})" for n, t in cfg.params.items())
        ret = cfg.coq_ret or self.ret_type(cfg)
        return f"Definition {cfg.coq_name or cfg.name} {binders} : {ret} :=\n{text}."

    def ret_type(self, cfg: Fn) -> str:
        return {"fres": "fres", "optval": "option val", "Z": "Z", "optZ": "option Z", "bool": "bool"}[cfg.ret]

    def fall_off(self, cfg: Fn) -> str | None:
        # falling off the end of a Python function returns None
        if cfg.ret in ("optval", "optZ"):
            return "None"
        if cfg.ret == "fres":
            return "NotFolded"
        return None  # falling off the end is then a translation error if ever reached

    def wrap_return(self, e: str, t: str, node: ast.AST) -> str:
        r = self.cfg.ret
        if r == "fres":
            m = {"none": "NotFolded", "Z": f"Folded (VInt {e})", "res:Z": f"fres_of_Z {e}",
                 "res:float": f"fres_of_float {e}", "fres": e}
            if t in m:
                return "(" + m[t] + ")"
        elif r == "optval":
            if t == "none":
                return "None"
            if t == "Z":
                return f"Some (VInt {e})"
            if t == "float":
                return f"Some (VFloat {e})"
            if t == "val":
                return f"Some {e}"
            if t == "opt:val":
                return e
        elif r == "Z" and t == "Z":
            return e
        elif r == "optZ":
            if t == "none":
                return "None"
            if t == "Z":
                return f"Some {e}"
        elif r == "bool" and t == "bool":
            return e
        raise fail(node, f"cannot return type {t} as {r}")

    # ------------------------------------------------------------------ statements
    def block(self, stmts: list[ast.stmt], env: dict[str, str], k: str | None) -> str:
        """k = Gallina for the continuation after the block (None = unreachable / must return)."""
        if not stmts:
            if k is None:
                raise Unsupported("block may fall through where no continuation exists")
            return k
        s, rest = stmts[0], stmts[1:]
        if isinstance(s, ast.Return):
            if s.value is None:
                e, t = "None", "none"
            else:
                e, t = self.expr(s.value, env)
            return self.wrap_return(e, t, s)
        if isinstance(s, ast.If):
            c, ct = self.expr(s.test, env)
            if ct != "bool":
                raise fail(s.test, f"condition of type {ct}")
            krest = self.block(rest, env, k) if (rest or k is not None) else None
            a = self.block(s.body, dict(env), krest)
            b = self.block(s.orelse, dict(env), krest)
            return f"(if {c} then {a}\n else {b})"
        if isinstance(s, ast.Assign) and len(s.targets) == 1 and isinstance(s.targets[0], ast.Name):
            name = s.targets[0].id
            if isinstance(s.value, ast.Dict):
                # rmap = {False: A, True: B}  ->  remembered, applied at subscripts
                keys = s.value.keys
                if len(keys) == 2 and all(isinstance(x, ast.Constant) and isinstance(x.value, bool) for x in keys):
                    vals = {x.value: self.expr(v, env) for x, v in zip(keys, s.value.values)}  # type: ignore
                    if vals[True][1] != vals[False][1]:
                        raise fail(s, "dict values of different types")
                    self.dicts[name] = (f"(fun b : bool => if b then {vals[True][0]} else {vals[False][0]})", vals[True][1])
                    return self.block(rest, env, k)
                raise fail(s, "unsupported dict literal")
            e, t = self.expr(s.value, env)
            env2 = dict(env)
            env2[name] = t
            return f"(let {name} := {e} in\n {self.block(rest, env2, k)})"
        if isinstance(s, ast.Assert):
            # only `assert isinstance(x, T)` style assertions that hold by typing are skipped
            t = s.test
            if isinstance(t, ast.Call) and isinstance(t.func, ast.Name) and t.func.id == "isinstance":
                return self.block(rest, env, k)
            raise fail(s, "unsupported assert")
        if isinstance(s, ast.Pass):
            return self.block(rest, env, k)
        if isinstance(s, ast.Try) and not s.finalbody and len(s.handlers) == 1:
            # try: <block that returns>  except E: return None   (mode fres only)
            h = s.handlers[0]
            if (self.cfg.ret == "fres" and isinstance(h.type, ast.Name) and h.name is None
                    and h.type.id in ("OverflowError", "ZeroDivisionError", "ValueError")
                    and len(h.body) == 1 and isinstance(h.body[0], ast.Return)
                    and (h.body[0].value is None or (isinstance(h.body[0].value, ast.Constant) and h.body[0].value.value is None))):
                body = list(s.body) + list(s.orelse)
                inner = self.block(body, dict(env), None)
                return f"(catch_none {h.type.id} {inner})"
            raise fail(s, "unsupported try")
        raise fail(s, "unsupported statement")

    # ------------------------------------------------------------------ expressions
    def expr(self, e: ast.expr, env: dict[str, str]) -> tuple[str, str]:
        if isinstance(e, ast.Constant):
            v = e.value
            if v is None:
                return "None", "none"
            if isinstance(v, bool):
                return ("true" if v else "false"), "bool"
            if isinstance(v, int):
                return coq_Z(v), "Z"
            if isinstance(v, str):
                return coq_string(v), "str"
            raise fail(e, "constant")
        if isinstance(e, ast.Name):
            if e.id in env:
                return e.id, env[e.id]
            if e.id in self.consts:
                return e.id, self.consts[e.id][1]
            raise fail(e, "unknown name")
        if isinstance(e, ast.BoolOp):
            parts = [self.expr(x, env) for x in e.values]
            if any(t != "bool" for _, t in parts):
                raise fail(e, "non-bool operand of and/or")
            op = " && " if isinstance(e.op, ast.And) else " || "
            return "(" + op.join(p for p, _ in parts) + ")", "bool"
        if isinstance(e, ast.UnaryOp):
            x, t = self.expr(e.operand, env)
            if isinstance(e.op, ast.Not) and t == "bool":
                return f"(negb {x})", "bool"
            if isinstance(e.op, ast.USub) and t == "Z":
                return f"(Z.opp {x})", "Z"
            if isinstance(e.op, ast.Invert) and t == "Z":
                return f"(Z.lnot {x})", "Z"
            if isinstance(e.op, ast.UAdd) and t == "Z":
                return x, "Z"
            raise fail(e, f"unary op on {t}")
        if isinstance(e, ast.BinOp):
            l, lt = self.expr(e.left, env)
            r, rt = self.expr(e.right, env)
            if lt == rt == "Z":
                table = {ast.Add: "Z.add", ast.Sub: "Z.sub", ast.Mult: "Z.mul",
                         ast.BitAnd: "Z.land", ast.BitOr: "Z.lor", ast.BitXor: "Z.lxor"}
                for k, v in table.items():
                    if isinstance(e.op, k):
                        return f"({v} {l} {r})", "Z"
                # operations that can raise at run time go through the result monad of PyRules
                partial = {ast.FloorDiv: ("py_floordiv", "res:Z"), ast.Mod: ("py_mod", "res:Z"),
                           ast.LShift: ("py_lshift", "res:Z"), ast.RShift: ("py_rshift", "res:Z"),
                           ast.Pow: ("py_pow_int", "res:Z"), ast.Div: ("py_truediv", "res:float")}
                for k, (v, t) in partial.items():
                    if isinstance(e.op, k):
                        return f"({v} {l} {r})", t
            raise fail(e, f"binary op on {lt},{rt}")
        if isinstance(e, ast.Compare):
            parts = []
            left = e.left
            for op, right in zip(e.ops, e.comparators):
                parts.append(self.compare(left, op, right, env, e))
                left = right
            return ("(" + " && ".join(parts) + ")" if len(parts) > 1 else parts[0]), "bool"
        if isinstance(e, ast.Subscript) and isinstance(e.value, ast.Name) and e.value.id in self.dicts:
            fn, t = self.dicts[e.value.id]
            k, kt = self.expr(e.slice, env)
            if kt != "bool":
                raise fail(e, "dict key not bool")
            return f"({fn} {k})", t
        if isinstance(e, ast.Call) and isinstance(e.func, ast.Name):
            return self.call(e, env)
        raise fail(e, "unsupported expression")

    def call(self, e: ast.Call, env: dict[str, str]) -> tuple[str, str]:
        fn = e.func.id  # type: ignore[attr-defined]
        if e.keywords:
            raise fail(e, "keyword arguments")
        if fn == "isinstance" and len(e.args) == 2 and isinstance(e.args[0], ast.Name):
            # partial evaluation: the static type tag of the variable decides
            t = env.get(e.args[0].id)
            cls = e.args[1]
            names = [c.id for c in (cls.elts if isinstance(cls, ast.Tuple) else [cls]) if isinstance(c, ast.Name)]
            if isinstance(cls, ast.Tuple) and len(names) != len(cls.elts):
                raise fail(e, "isinstance classes")
            if t == "Z":   # a Python int (bool is an int too)
                return ("true" if "int" in names else "false"), "bool"
            raise fail(e, f"isinstance on {t}")
        if fn in self.known_calls:
            coq, ptypes, rt = self.known_calls[fn]
            if len(e.args) != len(ptypes):
                raise fail(e, "arity of known call")
            args = []
            for a, pt in zip(e.args, ptypes):
                x, t = self.expr(a, env)
                if t != pt:
                    raise fail(e, f"argument type {t} != {pt}")
                args.append(x)
            return f"({coq} {' '.join(args)})", rt
        raise fail(e, "unsupported call")

    known_calls: dict[str, tuple[str, list[str], str]] = {}

    def compare(self, a: ast.expr, op: ast.cmpop, b: ast.expr, env: dict[str, str], node: ast.AST) -> str:
        if isinstance(op, (ast.In, ast.NotIn)):
            x, xt = self.expr(a, env)
            if not isinstance(b, (ast.Tuple, ast.Set, ast.List)):
                raise fail(node, "in on non-literal")
            items = [self.expr(i, env) for i in b.elts]
            if any(t != xt for _, t in items):
                raise fail(node, "in with mixed types")
            eq = {"str": "String.eqb", "Z": "Z.eqb"}[xt]
            r = "(" + " || ".join(f"{eq} {x} {i}" for i, _ in items) + ")"
            return r if isinstance(op, ast.In) else f"(negb {r})"
        x, xt = self.expr(a, env)
        y, yt = self.expr(b, env)
        if xt != yt:
            raise fail(node, f"comparison of {xt} with {yt}")
        if xt == "Z":
            t = {ast.Eq: "({} =? {})%Z", ast.NotEq: "(negb ({} =? {})%Z)", ast.Lt: "({} <? {})%Z",
                 ast.LtE: "({} <=? {})%Z", ast.Gt: "({} >? {})%Z", ast.GtE: "({} >=? {})%Z"}
        elif xt == "str":
            t = {ast.Eq: "(String.eqb {} {})", ast.NotEq: "(negb (String.eqb {} {}))"}
        elif xt.startswith("ord:"):
            t = {ast.Eq: "(cmp_eq (cmp {} {}))", ast.NotEq: "(negb (cmp_eq (cmp {} {})))",
                 ast.Lt: "(cmp_lt (cmp {} {}))", ast.LtE: "(negb (cmp_gt (cmp {} {})))",
                 ast.Gt: "(cmp_gt (cmp {} {}))", ast.GtE: "(negb (cmp_lt (cmp {} {})))"}
        elif xt == "bool":
            t = {ast.Eq: "(Bool.eqb {} {})", ast.NotEq: "(negb (Bool.eqb {} {}))"}
        else:
            raise fail(node, f"comparison on {xt}")
        for k, v in t.items():
            if isinstance(op, k):
                return v.format(x, y)
        raise fail(node, "comparison operator")
