(* shared I/O helpers for drivers of extracted models: Z in signed binary text, Coq strings *)
let rec pos_of_bits (s : string) (i : int) (acc : C.positive) : C.positive =
  if i >= String.length s then acc
  else pos_of_bits s (i + 1) (if s.[i] = '1' then C.XI acc else C.XO acc)
(* text: optional '-', then binary digits, most significant first; "0" is zero *)
let z_of_text (s : string) : C.z =
  let neg = String.length s > 0 && s.[0] = '-' in
  let d = if neg then String.sub s 1 (String.length s - 1) else s in
  if d = "0" then C.Z0 else begin
    assert (d.[0] = '1');
    let p = pos_of_bits d 1 C.XH in if neg then C.Zneg p else C.Zpos p end
let text_of_pos (p : C.positive) : string =
  let b = Buffer.create 64 in
  let rec go p acc = match p with
    | C.XH -> '1' :: acc | C.XO q -> go q ('0' :: acc) | C.XI q -> go q ('1' :: acc) in
  List.iter (Buffer.add_char b) (go p []); Buffer.contents b
let text_of_z (z : C.z) : string = match z with
  | C.Z0 -> "0" | C.Zpos p -> text_of_pos p | C.Zneg p -> "-" ^ text_of_pos p
let coq_string (s : string) : C.string =
  let bit c i = (Char.code c lsr i) land 1 = 1 in
  let rec go i = if i >= String.length s then C.EmptyString
    else let c = s.[i] in
      C.String (C.Ascii (bit c 0, bit c 1, bit c 2, bit c 3, bit c 4, bit c 5, bit c 6, bit c 7), go (i + 1)) in
  go 0
let words (l : string) : string list = List.filter (fun w -> w <> "") (String.split_on_char ' ' l)
let opt_z (s : string) : C.z option = if s = "_" then None else Some (z_of_text s)
let rec zlist (ws : string list) : C.z list = List.map z_of_text ws
let main (handle : string list -> string) : unit =
  try while true do
    let l = input_line stdin in
    (try print_endline (handle (words l)) with e -> print_endline ("!ERR " ^ Printexc.to_string e))
  done with End_of_file -> ()
