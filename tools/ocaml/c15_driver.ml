module C = C15
include Zio_inc
(* I/O only: one request per line, integers in signed binary text *)
let exn_s = function C.ZeroDivisionError -> "ZeroDivisionError" | C.ValueError -> "ValueError" | C.OverflowError -> "OverflowError"
let tg = function C.Short w -> "S " ^ text_of_z w ^ " " ^ text_of_z (C.untag (C.Short w)) | C.Long v -> "L " ^ text_of_z v
let rtg = function C.Ok t -> tg t | C.Raise e -> "E " ^ exn_s e
let rz = function C.Ok v -> "I " ^ text_of_z v | C.Raise e -> "E " ^ exn_s e
let fr = function C.FOk v -> "I " ^ text_of_z v | C.FRaise e -> "E " ^ exn_s e | C.FUndefined -> "U"
let b = function true -> "B 1" | false -> "B 0"
let cmpop = function "eq" -> C.CEq | "ne" -> C.CNe | "lt" -> C.CLt | "le" -> C.CLe | "gt" -> C.CGt | "ge" -> C.CGe | _ -> failwith "cmpop"
let fwt = function "i64" -> C.I64 | "i32" -> C.I32 | "i16" -> C.I16 | "u8" -> C.U8 | _ -> failwith "fw"
let fwop = function "add" -> C.FAdd | "sub" -> C.FSub | "mul" -> C.FMul | "fdiv" -> C.FDiv | "mod" -> C.FMod
  | "and" -> C.FAnd | "or" -> C.FOr | "xor" -> C.FXor | "shl" -> C.FShl | "shr" -> C.FShr | _ -> failwith "fwop"
let z = z_of_text
(* floats travel as their 64-bit patterns *)
let fb x = C.bits_to_sf (z x)
let fo f = "F " ^ text_of_z (C.sf_to_bits f)
let frs = function C.FVal f -> fo f | C.FErr e -> "E " ^ exn_s e
let brs = function C.BVal v -> b v | C.BErr e -> "E " ^ exn_s e
let rtz = function C.Ok t -> "I " ^ text_of_z (C.untag t) | C.Raise e -> "E " ^ exn_s e
let handle = function
  (* tagged primitives on canonical tagged operands *)
  | ["t"; "neg"; a] -> tg (C.tagged_negate (C.tag (z a)))
  | ["t"; "bitlen"; a] -> tg (C.tagged_bit_length (C.tag (z a)))
  | ["t"; "inv"; a] -> tg (C.tagged_invert (C.tag (z a)))
  | ["t"; "add"; a; c] -> tg (C.tagged_add (C.tag (z a)) (C.tag (z c)))
  | ["t"; "sub"; a; c] -> tg (C.tagged_subtract (C.tag (z a)) (C.tag (z c)))
  | ["t"; "mul"; a; c] -> tg (C.tagged_multiply (C.tag (z a)) (C.tag (z c)))
  | ["t"; "and"; a; c] -> tg (C.tagged_and (C.tag (z a)) (C.tag (z c)))
  | ["t"; "or"; a; c] -> tg (C.tagged_or (C.tag (z a)) (C.tag (z c)))
  | ["t"; "xor"; a; c] -> tg (C.tagged_xor (C.tag (z a)) (C.tag (z c)))
  | ["t"; "fdiv"; a; c] -> rtg (C.tagged_floordiv (C.tag (z a)) (C.tag (z c)))
  | ["t"; "mod"; a; c] -> rtg (C.tagged_remainder (C.tag (z a)) (C.tag (z c)))
  | ["t"; "shl"; a; c] -> rtg (C.tagged_lshift (C.tag (z a)) (C.tag (z c)))
  | ["t"; "shr"; a; c] -> rtg (C.tagged_rshift (C.tag (z a)) (C.tag (z c)))
  | ["t"; "tag"; a] -> tg (C.tag (z a))
  | ["t"; "fromssize"; a] -> tg (C.from_ssize (z a))
  (* comparisons: CPy.h inline versions and the lowering *)
  | ["cc"; op; a; c] -> let l = C.tag (z a) and r = C.tag (z c) in
      b (match op with "eq" -> C.tagged_is_eq l r | "ne" -> C.tagged_is_ne l r | "lt" -> C.tagged_is_lt l r
         | "le" -> C.tagged_is_le l r | "gt" -> C.tagged_is_gt l r | "ge" -> C.tagged_is_ge l r | _ -> failwith "cc")
  | ["cl"; op; a; c] -> b (C.compare_tagged (cmpop op) (C.tag (z a)) (C.tag (z c)))
  (* predicates on raw words *)
  | ["p"; "toobig"; v] -> b (C.too_big (z v))
  | ["p"; "addov"; s; l; r] -> b (C.is_add_overflow (z s) (z l) (z r))
  | ["p"; "subov"; s; l; r] -> b (C.is_sub_overflow (z s) (z l) (z r))
  | ["p"; "mulov"; l; r] -> b (C.is_mul_overflow (z l) (z r))
  | ["p"; "divfault"; l; r] -> b (C.maybe_floordiv_fault (z l) (z r))
  | ["p"; "remfault"; l; r] -> b (C.maybe_remainder_fault (z l) (z r))
  | ["p"; "shlov"; x; s] -> b (C.is_short_lshift_overflow (z x) (z s))
  (* fixed width *)
  | ["f"; t; op; x; y] -> fr (C.fw_op (fwt t) (fwop op) (z x) (z y))
  | ["fi"; t; "fdiv"; x; y] -> "I " ^ text_of_z (C.fw_inline_divide (fwt t) (z x) (z y))
  | ["fi"; t; "mod"; x; y] -> "I " ^ text_of_z (C.fw_inline_mod (fwt t) (z x) (z y))
  | ["fu"; t; "neg"; x] -> "I " ^ text_of_z (C.fw_neg (fwt t) (z x))
  | ["fu"; t; "inv"; x] -> "I " ^ text_of_z (C.fw_invert (fwt t) (z x))
  | ["fw"; t; x] -> "I " ^ text_of_z (C.fw_wrap (fwt t) (z x))
  | ["c"; t; a] -> rz (C.coerce_int_to_fw (fwt t) (C.tag (z a)))
  | ["co"; t; a] -> rz (C.long_as_fw (fwt t) (z a))
  | ["w"; t; x] -> tg (C.coerce_fw_to_int (fwt t) (z x))
  (* floats: fl = model of the C code, flp = transcription of CPython *)
  | ["fl"; "floordiv"; x; y] -> frs (C.c_floordiv (fb x) (fb y))
  | ["flp"; "floordiv"; x; y] -> frs (C.py_float_floor_div (fb x) (fb y))
  | ["fl"; "mod"; x; y] -> frs (C.c_float_mod (fb x) (fb y))
  | ["flp"; "mod"; x; y] -> frs (C.py_float_rem (fb x) (fb y))
  | ["fl"; "div"; x; y] -> frs (C.c_float_truediv (fb x) (fb y))
  | ["flp"; "div"; x; y] -> frs (C.py_float_truediv (fb x) (fb y))
  | ["fl"; "add"; x; y] -> fo (C.fadd (fb x) (fb y))
  | ["fl"; "sub"; x; y] -> fo (C.fsub (fb x) (fb y))
  | ["fl"; "mul"; x; y] -> fo (C.fmul (fb x) (fb y))
  | ["fl"; "neg"; x] -> fo (C.fopp (fb x))
  | ["fl"; "abs"; x] -> fo (C.fabs (fb x))
  | ["fl"; "cmp"; op; x; y] -> b (C.fcmp (cmpop op) (fb x) (fb y))
  | ["fl"; "toint"; x] -> rtz (C.c_from_float (fb x))
  | ["flp"; "toint"; x] -> rz (C.py_int_of_float (fb x))
  | ["fl"; "floor"; x] -> rtz (C.c_floor (fb x))
  | ["fl"; "ceil"; x] -> rtz (C.c_ceil (fb x))
  | ["flp"; "floor"; x] -> rz (C.py_int_of_float (C.ffloor (fb x)))
  | ["flp"; "ceil"; x] -> rz (C.py_int_of_float (C.fceil (fb x)))
  | ["fl"; "fromint"; a] -> frs (C.c_from_tagged (C.tag (z a)))
  | ["flp"; "fromint"; a] -> frs (C.py_float_of_int (z a))
  | ["fl"; "itruediv"; a; c] -> frs (C.c_truediv (C.tag (z a)) (C.tag (z c)))
  | ["flp"; "itruediv"; a; c] -> frs (C.py_truediv (z a) (z c))
  | ["fl"; "icmp"; op; a; x] -> brs (C.c_int_float_cmp (cmpop op) (C.tag (z a)) (fb x))
  | ["flp"; "icmp"; op; a; x] -> b (C.py_int_float_cmp (cmpop op) (z a) (fb x))
  | ["fl"; "fwtof"; a] -> frs (C.c_fw_to_float (z a))
  | ["fl"; "ftofw"; t; x] -> rz (C.c_float_to_fw (fwt t) (fb x))
  | ["flp"; "ftofw"; t; x] -> rz (C.py_float_to_fw (fwt t) (fb x))
  | _ -> "!BAD"
let () = main handle
