(* I/O driver for the extracted C18 model (no logic): one query per line, fields separated by '|':
     tree | ns explicit | cwd | mypy_path... | command args...
   tree:  entries separated by blanks; a directory is  name/{ entries }   e.g.  a.py p/{ __init__.py b.pyi }
   paths: components joined by '/', "." is the root.  module ids: dotted.  *)
module C = C18
let rec pos_of_int n = if n <= 1 then C.XH else if n land 1 = 1 then C.XI (pos_of_int (n lsr 1)) else C.XO (pos_of_int (n lsr 1))
let rec int_of_pos = function C.XH -> 1 | C.XO p -> 2 * int_of_pos p | C.XI p -> 2 * int_of_pos p + 1
let letter p = String.make 1 (Char.chr (Char.code 'a' + int_of_pos p - 1))
let nm_of_string s =
  if s = "__init__" then C.Init
  else let n = String.length s in
    let p = pos_of_int (Char.code s.[0] - Char.code 'a' + 1) in
    if n = 1 then C.Id p
    else if s = String.sub s 0 1 ^ "-stubs" then C.Stubs p
    else if s = String.sub s 0 1 ^ "-x" then C.Bad p
    else failwith ("bad name " ^ s)
let string_of_nm = function C.Init -> "__init__" | C.Id p -> letter p | C.Stubs p -> letter p ^ "-stubs" | C.Bad p -> letter p ^ "-x"
let ename_of_string s =
  let n = String.length s in
  if n > 4 && String.sub s (n - 4) 4 = ".pyi" then (nm_of_string (String.sub s 0 (n - 4)), C.Pyi)
  else if n > 3 && String.sub s (n - 3) 3 = ".py" then (nm_of_string (String.sub s 0 (n - 3)), C.Py)
  else (nm_of_string s, C.NoExt)
let string_of_ename (n, e) = string_of_nm n ^ (match e with C.NoExt -> "" | C.Pyi -> ".pyi" | C.Py -> ".py")
let words l = List.filter (fun w -> w <> "") (String.split_on_char ' ' l)
(* tree parser over a token list *)
let rec parse_entries toks acc = match toks with
  | [] -> (List.rev acc, [])
  | "}" :: rest -> (List.rev acc, rest)
  | t :: rest ->
      let n = String.length t in
      if n > 2 && String.sub t (n - 2) 2 = "/{" then
        let (sub, rest') = parse_entries rest [] in
        parse_entries rest' ((ename_of_string (String.sub t 0 (n - 2)), C.Dir sub) :: acc)
      else parse_entries rest ((ename_of_string t, C.File) :: acc)
let rpath_of_string s = if s = "." then [] else List.rev_map ename_of_string (String.split_on_char '/' s)
let string_of_rpath p = if p = [] then "." else String.concat "/" (List.rev_map string_of_ename p)
let mod_of_string s = if s = "<>" then [] else List.map nm_of_string (String.split_on_char '.' s)
let string_of_mod m = if m = [] then "<>" else String.concat "." (List.map string_of_nm m)
let err_s = function C.InvalidSourceList -> "InvalidSourceList" | C.OutOfFuel -> "OutOfFuel" | C.NotADirectory -> "NotADirectory"
let src_s (s : C.source) =
  string_of_rpath s.C.s_path ^ "=" ^ string_of_mod s.C.s_mod ^ "@" ^ (match s.C.s_base with Some b -> string_of_rpath b | None -> "-")
let srcs_s = function
  | C.Err e -> "ERR:" ^ err_s e
  | C.Ok [] -> "EMPTY"
  | C.Ok l -> String.concat ";" (List.map src_s l)
let fm_s = function C.Found p -> string_of_rpath p | C.NotFound -> "NOTFOUND"
let handle line =
  match List.map String.trim (String.split_on_char '|' line) with
  | [tree; o; cwd; mp; cmd] ->
      let (t, _) = parse_entries (words tree) [] in
      let (nsb, ex) = (match words o with [a; b] -> (a = "1", b = "1") | _ -> failwith "opts") in
      let o = { C.ns = nsb; C.explicit = ex; C.mypy_path = List.map rpath_of_string (words mp); C.cwd = rpath_of_string cwd } in
      (match words cmd with
       | "csl" :: args -> srcs_s (C.create_source_list o t (List.map rpath_of_string args))
       | "crawl" :: [f] -> (match C.crawl_up o t (rpath_of_string f) with
                            | C.Ok (m, b) -> string_of_mod m ^ "@" ^ string_of_rpath b | C.Err e -> "ERR:" ^ err_s e)
       | "find" :: m :: sp -> fm_s (C.find_module o t (List.map rpath_of_string sp) (mod_of_string m))
       | "sp" :: args -> (match C.create_source_list o t (List.map rpath_of_string args) with
                          | C.Ok l -> String.concat " " (List.map string_of_rpath (C.search_paths o l))
                          | C.Err e -> "ERR:" ^ err_s e)
       | "fmr" :: m :: sp -> srcs_s (C.find_modules_recursive o t (List.map rpath_of_string sp) (mod_of_string m))
       | "pyfiles" :: [p] -> String.concat " " (List.map string_of_rpath (C.py_files t (rpath_of_string p)))
       | "dup" :: args -> (match C.create_source_list o t (List.map rpath_of_string args) with
                           | C.Err e -> "ERR:" ^ err_s e
                           | C.Ok l -> (match C.load_roots l [] with
                                        | C.Inl _ -> "NODUP"
                                        | C.Inr (C.DuplicateModule (m, p, f)) -> "DUP:" ^ string_of_mod m ^ ":" ^ string_of_rpath p ^ ":" ^ string_of_rpath f
                                        | C.Inr _ -> "?"))
       | "inv" :: fs -> String.concat "" (List.map (fun f -> if C.inverse_ok o t (rpath_of_string f) then "1" else "0") fs)
       | "dep" :: rest ->
           (* dep m1,m2,... args... : seed the graph with the sources of args, then add the dependencies in order,
              each located by find_module on the derived search paths (load_graph's same-file check) *)
           (match rest with
            | deps :: args ->
                (match C.create_source_list o t (List.map rpath_of_string args) with
                 | C.Err e -> "ERR:" ^ err_s e
                 | C.Ok l ->
                     (match C.load_roots l [] with
                      | C.Inr _ -> "duplicate"
                      | C.Inl g0 ->
                          let sp = C.search_paths o l in
                          let rec go g = function
                            | [] -> "ok"
                            | d :: ds ->
                                let dm = mod_of_string d in
                                (match C.find_module o t sp dm with
                                 | C.NotFound -> go g ds
                                 | C.Found p ->
                                     (match C.add_dependency g dm p with
                                      | C.Inl g' -> go g' ds
                                      | C.Inr _ -> "found-twice"))
                          in go g0 (String.split_on_char ',' deps)))
            | [] -> "!BADCMD")
       | "noshadow" :: [] -> if C.no_shadow t && C.wf_node (C.Dir t) then "1" else "0"
       | "valid" :: [] -> if C.valid_names t && C.wf_node (C.Dir t) then "1" else "0"
       | _ -> "!BADCMD")
  | _ -> "!BADLINE"
let () =
  try while true do
    let l = input_line stdin in
    (try print_endline (handle l) with e -> print_endline ("!ERR " ^ Printexc.to_string e))
  done with End_of_file -> ()
