(* driver for the extracted C16 framing model: I/O and the reader loops only.
   input line:  u <chunk> <chunk> ...     read until read_bytes returns b"" (or struct.error)
                n <k> <chunk> ...         call read_bytes exactly k times
                e <bytes>                 encode_frame
   chunks/bytes are hex strings, "-" is the empty byte string.
   output: delivered frames (hex, "-" empty) separated by spaces, then "| <buffer hex> <message_size|None>" or "| STRUCT_ERROR" *)
module C = C16
let rec pos_of_int (n : int) : C.positive =
  if n = 1 then C.XH else if n land 1 = 1 then C.XI (pos_of_int (n lsr 1)) else C.XO (pos_of_int (n lsr 1))
let n_of_int (n : int) : C.n = if n = 0 then C.N0 else C.Npos (pos_of_int n)
let rec int_of_pos = function C.XH -> 1 | C.XO p -> 2 * int_of_pos p | C.XI p -> 2 * int_of_pos p + 1
let int_of_n = function C.N0 -> 0 | C.Npos p -> int_of_pos p
let rec text_of_pos p = match p with C.XH -> "1" | C.XO q -> text_of_pos q ^ "0" | C.XI q -> text_of_pos q ^ "1"
let dec_of_z = function
  | C.Z0 -> "0"
  | C.Zpos p -> string_of_int (int_of_string ("0b" ^ text_of_pos p))
  | C.Zneg p -> "-" ^ string_of_int (int_of_string ("0b" ^ text_of_pos p))
let n_table = Array.init 256 n_of_int
let nib c = if c >= '0' && c <= '9' then Char.code c - 48 else Char.code c - 87
let bytes_of_hex (s : string) : C.n list =
  if s = "-" then [] else begin
    let r = ref [] in
    for i = String.length s / 2 - 1 downto 0 do
      r := n_table.(16 * nib s.[2 * i] + nib s.[2 * i + 1]) :: !r
    done; !r end
let hex_of_bytes (b : C.n list) : string =
  if b = [] then "-" else begin
    let buf = Buffer.create 64 in
    List.iter (fun x -> let v = int_of_n x in Buffer.add_char buf "0123456789abcdef".[v lsr 4]; Buffer.add_char buf "0123456789abcdef".[v land 15]) b;
    Buffer.contents buf end
let state_s (s : C.ipc_state) =
  hex_of_bytes s.C.buffer ^ " " ^ (match s.C.msize with None -> "None" | Some z -> dec_of_z z)
let words (l : string) : string list = List.filter (fun w -> w <> "") (String.split_on_char ' ' l)
let rec until s sock acc =
  match C.read_bytes s sock with
  | C.RaisedStructError -> String.concat " " (List.rev acc) ^ " | STRUCT_ERROR"
  | C.Read (b, s', sock') ->
      if b = [] then String.concat " " (List.rev acc) ^ " | " ^ state_s s'
      else until s' sock' (hex_of_bytes b :: acc)
let rec counted k s sock acc =
  if k = 0 then String.concat " " (List.rev acc) ^ " | " ^ state_s s else
  match C.read_bytes s sock with
  | C.RaisedStructError -> String.concat " " (List.rev acc) ^ " | STRUCT_ERROR"
  | C.Read (b, s', sock') -> counted (k - 1) s' sock' (hex_of_bytes b :: acc)
(* the reply loop of dmypy/client.py request(): frames until one whose JSON text has "final": true *)
let string_of_bytes (b : C.n list) = String.init (List.length b) (let a = Array.of_list b in fun i -> Char.chr (int_of_n a.(i)))
let contains (s : string) (sub : string) =
  let n = String.length s and m = String.length sub in
  let rec go i = i + m <= n && (String.sub s i m = sub || go (i + 1)) in go 0
let is_final (b : C.n list) = contains (string_of_bytes b) "\"final\": true"
let rec nat_of_int n = if n = 0 then C.O else C.S (nat_of_int (n - 1))
let handle = function
  | "c" :: chunks ->
      (match C.client_request is_final (C.feed (List.map bytes_of_hex chunks)) with
       | None -> "NONE"
       | Some fr -> String.concat " " (List.map hex_of_bytes fr))
  | "f" :: k :: chunks ->
      (match C.read_until_final is_final (nat_of_int (int_of_string k)) C.ipc_init (C.feed (List.map bytes_of_hex chunks)) with
       | None -> "NONE"
       | Some fr -> String.concat " " (List.map hex_of_bytes fr))
  | "u" :: chunks -> until C.ipc_init (C.feed (List.map bytes_of_hex chunks)) []
  | "n" :: k :: chunks -> counted (int_of_string k) C.ipc_init (C.feed (List.map bytes_of_hex chunks)) []
  | ["e"; b] -> hex_of_bytes (C.encode_frame (bytes_of_hex b))
  | _ -> "!BAD"
let () =
  try while true do
    let l = input_line stdin in
    (try print_endline (handle (words l)) with e -> print_endline ("!ERR " ^ Printexc.to_string e))
  done with End_of_file -> ()
