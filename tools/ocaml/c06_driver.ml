(* driver for the extracted C06 validator: reads the dump format of tools/harness/C06.py on stdin,
   prints one verdict line per function:  <name> A   |   <name> R <block> <micro-index> <code> <value> *)
module C = C06
let rec pos_of_int (n : int) : C.positive =
  if n <= 1 then C.XH else if n land 1 = 0 then C.XO (pos_of_int (n lsr 1)) else C.XI (pos_of_int (n lsr 1))
let rec int_of_pos (p : C.positive) : int =
  match p with C.XH -> 1 | C.XO q -> 2 * int_of_pos q | C.XI q -> 2 * int_of_pos q + 1
let nat_of_int (n : int) : C.nat = let rec go k acc = if k <= 0 then acc else go (k - 1) (C.S acc) in go n C.O
let int_of_nat (n : C.nat) : int = let rec go n acc = match n with C.O -> acc | C.S m -> go m (acc + 1) in go n 0
let words (l : string) : string list = List.filter (fun w -> w <> "") (String.split_on_char ' ' l)
let b s = (s <> "0")
let ov s = let n = int_of_string s in if n = 0 then None else Some (pos_of_int n)
let kind_of = function
  | 0 -> C.KOther | 1 -> C.KAssign | 2 -> C.KAssignLit | 3 -> C.KAssignMulti | 4 -> C.KIncRef | 5 -> C.KDecRef
  | 6 -> C.KLoadErr | 7 -> C.KUnborrow | 8 -> C.KLoadAddress | 9 -> C.KKeepAlive | 10 -> C.KHeapRef
  | 11 -> C.KAssume | 12 -> C.KRawRead | _ -> failwith "kind"
let rec take n l = if n = 0 then ([], l) else match l with x :: r -> let (a, b) = take (n - 1) r in (x :: a, b) | [] -> failwith "take"
let () =
  let tokens = ref [] in
  let name = ref "" and args = ref [] and blocks = ref [] and cur = ref 0 and ops = ref [] in
  let cblocks = ref [] and aops = ref [] and claimed = ref [] and defaults = ref [] in
  let close_ablock t = cblocks := (pos_of_int !cur, C.mk_ablock (List.rev !aops) t) :: !cblocks; aops := [] in
  let close_block t = blocks := (pos_of_int !cur, C.mk_block (List.rev !ops) t) :: !blocks; ops := [] in
  (try while true do
    let l = input_line stdin in
    (try match words l with
    | "F" :: n :: _ -> name := n; args := []; blocks := []; ops := []; tokens := []
    | "K" :: _ :: rest -> tokens := List.map (fun s -> pos_of_int (int_of_string s)) rest
    | ["A"; v; _rc; opt] -> args := (pos_of_int (int_of_string v), b opt) :: !args
    | ["B"; n] -> cur := int_of_string n
    | "O" :: k :: d :: rc :: bor :: mn :: fl :: n :: rest ->
        let (srcs, rest) = take (int_of_string n) rest in
        (match rest with
         | m :: rest2 ->
            let (st, rest3) = take (int_of_string m) rest2 in
            let owner = (match rest3 with o :: _ -> ov o | [] -> None) in
            let rest4 = (match rest3 with _ :: r -> r | [] -> []) in
            let (slots, rest5) = (match rest4 with k :: r -> take (int_of_string k) r | [] -> ([], [])) in
            let (kills, _) = (match rest5 with k :: r -> take (int_of_string k) r | [] -> ([], [])) in
            let pl = List.map (fun s -> pos_of_int (int_of_string s)) in
            ops := { C.okind = kind_of (int_of_string k); C.odest = ov d; C.orc = b rc; C.oborrowed = b bor;
                     C.omaynull = b mn; C.oflag = b fl; C.osrcs = pl srcs; C.ostolen = pl st; C.oowner = owner;
                     C.oslot = pl slots; C.okill = pl kills } :: !ops
         | [] -> failwith "op")
    | ["G"; l] -> close_block (C.TGoto (pos_of_int (int_of_string l)))
    | ["C"; k; neg; v; lt; lf] ->
        close_block (C.TBranch ((if k = "1" then C.BIsError else C.BBool), ov v, b neg,
                                pos_of_int (int_of_string lt), pos_of_int (int_of_string lf)))
    | ["R"; v; rc] -> close_block (C.TReturn (ov v, b rc))
    | ["U"] -> close_block C.TUnreachable
    | ["E"] ->
        let f = C.mk_func (List.rev !blocks) (List.rev !args) !tokens in
        let fuel = nat_of_int (400 * List.length !blocks + 2000) in
        (match C.check_func f fuel with
         | C.Accept -> print_endline (!name ^ " A")
         | C.Reject (l, i, c, v) ->
             Printf.printf "%s R %d %d %d %d\n" !name (int_of_pos l) (int_of_nat i) (int_of_nat c) (int_of_pos v))
    | "I" :: n :: _ -> name := n; cblocks := []; aops := []; claimed := []; defaults := []
    | "Y" :: _ :: rest -> claimed := List.map (fun s -> pos_of_int (int_of_string s)) rest
    | "D" :: _ :: rest -> defaults := List.map (fun s -> pos_of_int (int_of_string s)) rest
    | ["b"; n] -> cur := int_of_string n
    | ["s"; a] -> aops := C.ASet (pos_of_int (int_of_string a)) :: !aops
    | ["r"; a] -> aops := C.ARead (pos_of_int (int_of_string a)) :: !aops
    | ["l"] -> aops := C.ALeak :: !aops
    | "n" :: lk :: _ :: rest -> aops := C.AInit (b lk, List.map (fun s -> pos_of_int (int_of_string s)) rest) :: !aops
    | ["g"; l] -> close_ablock (C.AGoto (pos_of_int (int_of_string l)))
    | ["c"; l1; l2] -> close_ablock (C.ABranch (pos_of_int (int_of_string l1), pos_of_int (int_of_string l2)))
    | ["t"] -> close_ablock C.AReturn
    | ["u"] -> close_ablock C.AUnreach
    | ["e"] ->
        let c = C.mk_cls (List.rev !cblocks) !claimed !defaults in
        let fuel = nat_of_int (60 * List.length !cblocks + 200) in
        print_endline (!name ^ (if C.acheck c fuel then " A" else " R 0 0 0 0"))
    | [] -> ()
    | _ -> failwith ("bad line: " ^ l)
    with e -> print_endline (!name ^ " !ERR " ^ Printexc.to_string e))
  done with End_of_file -> ())
