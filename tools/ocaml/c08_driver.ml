module C = C08
(* I/O helpers (zio.ml is not included: the extracted model has no Coq strings) *)
let words (l : string) : string list = List.filter (fun w -> w <> "") (String.split_on_char ' ' l)
let main (handle : string list -> string) : unit =
  try while true do
    let l = input_line stdin in
    (try print_endline (handle (words l)) with e -> print_endline ("!ERR " ^ Printexc.to_string e))
  done with End_of_file -> ()
(* token protocol, one command per line, prefix-coded types:
   type = A | N | O | I cid n types | L cid z | U n types | T n types
   class cid mro n cids var n [icn].. bases n cids promote n cids enum [-1 or n zs] proto [01] amap n [cid k [P i or C type]..]..
   table object tuple bool sized n tuplelikes
   sub pnt l r ; same l r ; join l r ; meet l r ; simpl n types ; wf ; anyfree t ; frag1 t *)
let rec pos_of_int (n : int) : C.positive =
  if n <= 1 then C.XH else if n land 1 = 1 then C.XI (pos_of_int (n lsr 1)) else C.XO (pos_of_int (n lsr 1))
let rec int_of_pos = function C.XH -> 1 | C.XO p -> 2 * int_of_pos p | C.XI p -> 2 * int_of_pos p + 1
let z_of_int (n : int) : C.z = if n = 0 then C.Z0 else if n > 0 then C.Zpos (pos_of_int n) else C.Zneg (pos_of_int (-n))
let int_of_z = function C.Z0 -> 0 | C.Zpos p -> int_of_pos p | C.Zneg p -> - (int_of_pos p)
let rec nat_of_int (n : int) : C.nat = if n <= 0 then C.O else C.S (nat_of_int (n - 1))
let cid s = pos_of_int (int_of_string s)

let rec take_n (f : string list -> 'a * string list) (n : int) (ws : string list) : 'a list * string list =
  if n = 0 then ([], ws) else
    let (x, ws) = f ws in let (xs, ws) = take_n f (n - 1) ws in (x :: xs, ws)
let rec ty (ws : string list) : C.ty * string list = match ws with
  | "A" :: r -> (C.TAny, r) | "N" :: r -> (C.TNever, r) | "O" :: r -> (C.TNone, r)
  | "I" :: c :: n :: r -> let (a, r) = take_n ty (int_of_string n) r in (C.TInst (cid c, a), r)
  | "L" :: c :: v :: r -> (C.TLit (cid c, z_of_int (int_of_string v)), r)
  | "U" :: n :: r -> let (a, r) = take_n ty (int_of_string n) r in (C.TUnion a, r)
  | "T" :: n :: r -> let (a, r) = take_n ty (int_of_string n) r in (C.TTuple a, r)
  | _ -> failwith "ty"
let rec show (t : C.ty) : string = match t with
  | C.TAny -> "A" | C.TNever -> "N" | C.TNone -> "O"
  | C.TInst (c, a) -> String.concat " " (["I"; string_of_int (int_of_pos c); string_of_int (List.length a)] @ List.map show a)
  | C.TLit (c, v) -> Printf.sprintf "L %d %d" (int_of_pos c) (int_of_z v)
  | C.TUnion a -> String.concat " " (["U"; string_of_int (List.length a)] @ List.map show a)
  | C.TTuple a -> String.concat " " (["T"; string_of_int (List.length a)] @ List.map show a)
let ob = function None -> "none" | Some true -> "true" | Some false -> "false"
let oty = function None -> "none" | Some t -> show t
let one f ws = match ws with x :: r -> (f x, r) | [] -> failwith "one"
let counted f ws = match ws with n :: r -> take_n f (int_of_string n) r | [] -> failwith "counted"
let expect w ws = match ws with x :: r when x = w -> r | _ -> failwith ("expect " ^ w)
let var = function "i" -> C.Inv | "c" -> C.Cov | "n" -> C.Contra | _ -> failwith "var"
let spec ws = match ws with
  | "P" :: i :: r -> (C.AP (nat_of_int (int_of_string i)), r)
  | "C" :: r -> let (t, r) = ty r in (C.AC t, r)
  | _ -> failwith "spec"
let amap_entry ws = match ws with
  | d :: r -> let (specs, r) = counted spec r in ((cid d, specs), r)
  | [] -> failwith "amap"
let classes : (C.positive * C.cls) list ref = ref []
let table : C.ctable option ref = ref None
let fuel = ref (nat_of_int 64)
let kind s = { C.k_proper = s.[0] = '1'; C.k_nopromo = s.[1] = '1'; C.k_notparams = s.[2] = '1' }
let ct () = match !table with Some t -> t | None -> failwith "no table"
let handle (ws : string list) : string = match ws with
  | "class" :: c :: r ->
      let r = expect "mro" r in let (mro, r) = counted (one cid) r in
      let r = expect "var" r in let (vs, r) = counted (one var) r in
      let r = expect "bases" r in let (bs, r) = counted (one cid) r in
      let r = expect "promote" r in let (ps, r) = counted (one cid) r in
      let r = expect "enum" r in
      let (en, r) = (match r with
        | "-1" :: r -> (None, r)
        | _ -> let (ms, r) = counted (one (fun s -> z_of_int (int_of_string s))) r in (Some ms, r)) in
      let r = expect "proto" r in
      let (pr, r) = one (fun s -> s = "1") r in
      let r = expect "amap" r in let (am, _) = counted amap_entry r in
      classes := !classes @ [(cid c, { C.c_mro = mro; C.c_var = vs; C.c_bases = bs; C.c_amap = am;
                                       C.c_promote = ps; C.c_enum = en; C.c_protocol = pr })];
      "ok"
  | "table" :: o :: t :: b :: s :: r ->
      let (tl, _) = counted (one cid) r in
      table := Some { C.classes = !classes; C.k_object = cid o; C.k_tuple = cid t; C.k_bool = cid b;
                      C.k_sized = cid s; C.k_tuplelike = tl };
      classes := []; "ok"
  | ["fuel"; n] -> fuel := nat_of_int (int_of_string n); "ok"
  | "sub" :: k :: r -> let (l, r) = ty r in let (rr, _) = ty r in
      ob (C.sub (ct ()) C.no_cache !fuel (kind k) l rr)
  | "same" :: r -> let (l, r) = ty r in let (rr, _) = ty r in ob (C.is_same_type (ct ()) !fuel l rr)
  | "join" :: r -> let (l, r) = ty r in let (rr, _) = ty r in oty (C.join_types (ct ()) !fuel l rr)
  | "meet" :: r -> let (l, r) = ty r in let (rr, _) = ty r in oty (C.meet_types (ct ()) !fuel l rr)
  | "simpl" :: r -> let (items, _) = counted ty r in oty (C.make_simplified_union (ct ()) !fuel items)
  | ["chains"; n] -> if C.chains_ok (ct ()) (nat_of_int (int_of_string n)) then "true" else "false"
  | ["wfcontr"] -> if C.wf_contr (ct ()) then "true" else "false"
  | "covt" :: r -> let (t, _) = ty r in if C.covt (ct ()) t then "true" else "false"
  | "litsok" :: r -> let (t, _) = ty r in if C.lits_ok (ct ()) t then "true" else "false"
  | "nocontr" :: r -> let (t, _) = ty r in if C.no_contr (ct ()) t then "true" else "false"
  | ["wfgen"] -> if C.wf_gen (ct ()) then "true" else "false"
  | ["tableguard"] -> if C.table_guard (ct ()) then "true" else "false"
  | "typeguard" :: r -> let (t, _) = ty r in if C.type_guard (ct ()) t then "true" else "false"
  | "transguard" :: r -> let (a, r) = ty r in let (b, r) = ty r in let (c, _) = ty r in
      if C.trans_guard (ct ()) a b c then "true" else "false"
  | "meetguard" :: r -> let (a, r) = ty r in let (b, _) = ty r in if C.meet_guard (ct ()) a b then "true" else "false"
  | "frag2" :: r -> let (t, _) = ty r in if C.frag2 (ct ()) t then "true" else "false"
  | ["wf"] -> if C.wf_ct (ct ()) then "true" else "false"
  | "fragup" :: r -> let (t, _) = ty r in if C.frag_up (ct ()) t then "true" else "false"
  | "frag1" :: r -> let (t, _) = ty r in if C.frag1 (ct ()) t then "true" else "false"
  | "anyfree" :: r -> let (t, _) = ty r in if C.any_free t then "true" else "false"
  | _ -> "!BAD"
let () = main handle
