module C = C01
include Zio_inc
(* ---- conversions *)
let rec nat_of_int n = if n <= 0 then C.O else C.S (nat_of_int (n - 1))
let rec int_of_nat = function C.O -> 0 | C.S n -> 1 + int_of_nat n
(* ---- token reader *)
let toks : string list ref = ref []
let next () = match !toks with t :: r -> toks := r; t | [] -> failwith "eof"
let nat () = nat_of_int (int_of_string (next ()))
let int () = int_of_string (next ())
let rec many n f = if n <= 0 then [] else let x = f () in x :: many (n - 1) f
let rec ty () = match next () with
  | "i" -> C.TInt | "b" -> C.TBool | "s" -> C.TStr | "n" -> C.TNone
  | "C" -> C.TInst (nat ())
  | "U" -> let k = int () in C.TUnion (many k ty)
  | "T" -> let k = int () in C.TTuple (many k ty)
  | t -> failwith ("ty " ^ t)
let cref () = match next () with
  | "ki" -> C.CInt | "kb" -> C.CBool | "ks" -> C.CStr | "kc" -> C.CUser (nat ()) | t -> failwith ("cref " ^ t)
let binop () = match next () with
  | "+" -> C.BAdd | "-" -> C.BSub | "*" -> C.BMul | "=" -> C.BEq | "<" -> C.BLt | t -> failwith ("op " ^ t)
let rec expr () = match next () with
  | "v" -> C.EVar (nat ())
  | "I" -> C.EInt (z_of_text (next ()))
  | "B" -> C.EBool (next () = "1")
  | "N" -> C.ENone
  | "S" -> let k = int () in C.EStr (many k nat)
  | "new" -> let c = nat () in let k = int () in C.ENew (c, many k expr)
  | "attr" -> let e = expr () in let a = nat () in C.EAttr (e, a)
  | "cm" -> let e = expr () in let m = nat () in let k = int () in C.ECallM (e, m, many k expr)
  | "cf" -> let f = nat () in let k = int () in C.ECallF (f, many k expr)
  | "bin" -> let o = binop () in let a = expr () in let b = expr () in C.EBin (o, a, b)
  | "isn" -> C.EIsNone (expr ())
  | "inn" -> C.EIsNotNone (expr ())
  | "isi" -> let e = expr () in let k = cref () in C.EIsInst (e, k)
  | "isl" -> let e = expr () in let k = int () in C.EIsInstL (e, many k cref)
  | "not" -> C.ENot (expr ())
  | "and" -> let a = expr () in let b = expr () in C.EAnd (a, b)
  | "or" -> let a = expr () in let b = expr () in C.EOr (a, b)
  | "tup" -> let k = int () in C.ETuple (many k expr)
  | "idx" -> let e = expr () in let i = nat () in C.EIndex (e, i)
  | "if" -> let c = expr () in let a = expr () in let b = expr () in C.ECond (c, a, b)
  | "rev" -> let l = nat () in let e = expr () in C.EReveal (l, e)
  | t -> failwith ("expr " ^ t)
let rec stmt () = match next () with
  | "as" -> let x = nat () in let e = expr () in C.SAssign (x, e)
  | "df" -> let x = nat () in let e = expr () in C.SDef (x, e)
  | "de" -> let x = nat () in let t = ty () in let e = expr () in C.SDecl (x, t, e)
  | "sif" -> let c = expr () in let a = stmt () in let b = stmt () in C.SIf (c, a, b)
  | "wh" -> let c = expr () in let b = stmt () in let e = stmt () in C.SWhile (c, b, e)
  | "for" -> let x = nat () in let r = (next () = "1") in let e = expr () in let b = stmt () in let els = stmt () in C.SFor (x, r, e, b, els)
  | "brk" -> C.SBreak
  | "cont" -> C.SContinue
  | "raise" -> let c = nat () in let k = int () in C.SRaise (c, many k expr)
  | "try" -> let b = stmt () in let c = nat () in
      let x = (match next () with "xs" -> Some (nat ()) | _ -> None) in
      let h = stmt () in let els = stmt () in C.STry (b, c, x, h, els)
  | "fin" -> let b = stmt () in let f = stmt () in C.SFinally (b, f)
  | "ret" -> C.SReturn (expr ())
  | "ast" -> C.SAssert (expr ())
  | "pass" -> C.SPass
  | "seq" -> let a = stmt () in let b = stmt () in C.SSeq (a, b)
  | "ex" -> C.SExpr (expr ())
  | "lab" -> let l = nat () in let s = stmt () in C.SLab (l, s)
  | t -> failwith ("stmt " ^ t)
let param () = let x = nat () in let t = ty () in (x, t)
let fdecl () = match next () with
  | "fun" -> let line = nat () in let k = int () in let ps = many k param in let r = ty () in let b = stmt () in
      { C.f_params = ps; C.f_ret = r; C.f_body = b; C.f_line = line }
  | t -> failwith ("fdecl " ^ t)
let named_f () = let x = nat () in let f = fdecl () in (x, f)
let cdecl () = match next () with
  | "cls" -> let c = nat () in let line = nat () in let k = int () in let mro = many k nat in
      let kf = int () in let fs = many kf param in let km = int () in let ms = many km named_f in
      (c, { C.c_mro = mro; C.c_fields = fs; C.c_methods = ms; C.c_line = line })
  | t -> failwith ("cdecl " ^ t)
let prog () = match next () with
  | "prog" -> let kc = int () in let cs = many kc cdecl in let kf = int () in let fs = many kf named_f in
      { C.p_classes = cs; C.p_funcs = fs }
  | t -> failwith ("prog " ^ t)
let rec value () = match next () with
  | "i" -> C.VInt (z_of_text (next ()))
  | "b" -> C.VBool (next () = "1")
  | "s" -> let k = int () in C.VStr (many k nat)
  | "n" -> C.VNone
  | "t" -> let k = int () in C.VTuple (many k value)
  | "o" -> let c = nat () in let k = int () in C.VObj (c, many k (fun () -> let a = nat () in let v = value () in (a, v)))
  | t -> failwith ("value " ^ t)
(* ---- printers (canonical: union members sorted) *)
let rec ty_s = function
  | C.TInt -> "int" | C.TBool -> "bool" | C.TStr -> "str" | C.TNone -> "None"
  | C.TInst c -> "C" ^ string_of_int (int_of_nat c)
  | C.TUnion [] -> "Never"
  | C.TUnion ts -> "Union[" ^ String.concat "," (List.sort_uniq compare (List.map ty_s ts)) ^ "]"
  | C.TTuple ts -> "Tuple[" ^ String.concat "," (List.map ty_s ts) ^ "]"
let rec val_s = function
  | C.VInt z -> "i" ^ text_of_z z
  | C.VBool b -> if b then "b1" else "b0"
  | C.VStr s -> "s[" ^ String.concat "," (List.map (fun c -> string_of_int (int_of_nat c)) s) ^ "]"
  | C.VNone -> "n"
  | C.VTuple vs -> "t(" ^ String.concat "," (List.map val_s vs) ^ ")"
  | C.VObj (c, fs) -> "o" ^ string_of_int (int_of_nat c) ^ "{" ^
      String.concat "," (List.map (fun (a, v) -> string_of_int (int_of_nat a) ^ "=" ^ val_s v) fs) ^ "}"
let exn_s = function
  | C.TypeError -> "TypeError" | C.AttributeError -> "AttributeError" | C.NameError -> "NameError"
  | C.IndexError -> "IndexError" | C.AssertionError -> "AssertionError" | C.Unmodelled -> "Unmodelled"
  | C.UserExn w -> "User " ^ val_s w
let res_s = function
  | C.Ok _ -> "A" | C.Rej None -> "R0" | C.Rej (Some l) -> "R" ^ string_of_int (int_of_nat l) | C.Unsup w -> "U" ^ string_of_int (int_of_nat w)
let ann_s = function
  | C.AReveal (l, t) -> "r" ^ string_of_int (int_of_nat l) ^ ":" ^ ty_s t
  | C.ADead l -> "d" ^ string_of_int (int_of_nat l)
let handle ws =
  toks := ws;
  match next () with
  | "check" -> let p = prog () in
      String.concat " " (List.map res_s (C.check_defs p false)) ^ " | " ^
      String.concat " " (List.map res_s (C.check_defs p true)) ^ " | " ^
      (if C.check_prog p then "1" else "0") ^ (if C.check_prog_certified p then "1" else "0")
  | "annot" -> let p = prog () in String.concat " " (List.map ann_s (C.annot_prog p))
  | "run" -> let p = prog () in let fuel = nat () in let g = nat () in let k = int () in let vs = many k value in
      (match C.call_fun p fuel g vs with
       | C.Val v -> "V " ^ val_s v | C.Exn e -> "E " ^ exn_s e | C.NoFuel -> "F")
  | "sub" -> let p = prog () in let a = ty () in let b = ty () in if C.is_subtype p a b then "1" else "0"
  | "union" -> let p = prog () in let k = int () in ty_s (C.mk_union p (many k ty))
  | t -> "!BAD " ^ t
let () = main handle
