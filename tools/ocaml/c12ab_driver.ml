(* driver for the extracted C12 (a)/(b) models: I/O only (decimal ints, no Z) *)
module C = C12ab
let rec nat_of_int n = if n <= 0 then C.O else C.S (nat_of_int (n - 1))
let rec int_of_nat = function C.O -> 0 | C.S n -> 1 + int_of_nat n
let ints sep s = if s = "" then [] else List.map int_of_string (String.split_on_char sep s)
let nats sep s = List.map nat_of_int (ints sep s)
let res_s = function
  | C.Ok l -> "ok:" ^ String.concat "," (List.map (fun n -> string_of_int (int_of_nat n)) l)
  | C.Fail -> "fail" | C.OutOfFuel -> "oof"
(* a formal: kind letter P(os) O(pt) S(tar) N(amed) M(named_opt) K(star2) followed by the name id, or _ for None *)
let formal_of (w : string) : C.formal =
  let k = match w.[0] with 'P' -> C.ARG_POS | 'O' -> C.ARG_OPT | 'S' -> C.ARG_STAR | 'N' -> C.ARG_NAMED
    | 'M' -> C.ARG_NAMED_OPT | 'K' -> C.ARG_STAR2 | _ -> failwith "kind" in
  let nm = String.sub w 1 (String.length w - 1) in
  { C.fkind = k; C.fname = (if nm = "_" then None else Some (nat_of_int (int_of_string nm))) }
let actual_s = function C.APos i -> string_of_int (int_of_nat i) | C.AKw (i, _) -> string_of_int (int_of_nat i)
let handle (ws : string list) : string = match ws with
  | ["bind"; fs; np; kw] ->
      (* bind <formals,comma separated or -> <npos> <keyword name ids, comma separated or -> *)
      let formals = if fs = "-" then [] else List.map formal_of (String.split_on_char ',' fs) in
      let c = { C.npos = nat_of_int (int_of_string np); C.kws = (if kw = "-" then [] else nats ',' kw) } in
      let f2a = C.map_actuals_to_formals formals c in
      "M " ^ (if C.mypy_accepts formals c then "1" else "0")
      ^ " C " ^ (match C.cpython_bind formals c with C.BindOk -> "1" | C.TypeError -> "0")
      ^ " W " ^ (if C.shape formals then "1" else "0")
      ^ " F =" ^ String.concat "" (List.map (fun l -> String.concat "," (List.map actual_s l) ^ ";") f2a)
  | ["mro"; tbl] ->
      (* tbl = bases of class 0;bases of class 1;...   each a comma-separated list of class indexes *)
      let table = List.map (nats ',') (String.split_on_char ';' tbl) in
      let n = List.length table in
      let one f = String.concat "|" (List.init n (fun c -> res_s (f table (nat_of_int c)))) in
      "M " ^ one C.mypy_mro ^ " C " ^ one C.cpython_mro ^ " W " ^ (if C.wf_tableb table then "1" else "0")
  | ["binds"; fs; ps; ks] ->
      (* binds <formals> <P|S<len>,...> <N<id>|T<id>.<id>...,...> *)
      let formals = if fs = "-" then [] else List.map formal_of (String.split_on_char ',' fs) in
      let pit w = if w = "P" then C.PPos else C.PStar (nat_of_int (int_of_string (String.sub w 1 (String.length w - 1)))) in
      let kit w = let r = String.sub w 1 (String.length w - 1) in
        if w.[0] = 'N' then C.KName (nat_of_int (int_of_string r)) else C.KTD (nats '.' r) in
      let c = { C.pitems = (if ps = "-" then [] else List.map pit (String.split_on_char ',' ps));
                C.kitems = (if ks = "-" then [] else List.map kit (String.split_on_char ',' ks)) } in
      let f2a = C.map_actuals_to_formals_s formals c in
      let b x = if x then "1" else "0" in
      "M " ^ b (C.mypy_accepts_s formals c)
      ^ " C " ^ (match C.cpython_bind_s formals c with C.BindOk -> "1" | C.TypeError -> "0")
      ^ " W " ^ b (C.shape formals) ^ b (C.no_L1 formals c) ^ b (C.no_L2 formals c) ^ b (C.no_L3 c)
      ^ " F =" ^ String.concat "" (List.map (fun l -> String.concat "," (List.map (fun a -> string_of_int (int_of_nat (C.idx a))) l) ^ ";") f2a)
  | ["mrolast"; tbl] ->
      let table = List.map (nats ',') (String.split_on_char ';' tbl) in
      let c = nat_of_int (List.length table - 1) in
      "M " ^ res_s (C.mypy_mro table c) ^ " C " ^ res_s (C.cpython_mro table c) ^ " W " ^ (if C.wf_tableb table then "1" else "0")
  | ["merge"; seqs] ->
      let ss = List.map (nats ',') (String.split_on_char ';' seqs) in
      "M " ^ res_s (C.merge ss) ^ " C " ^ res_s (C.pmerge [] ss)
  | _ -> "!BAD"
let () =
  try while true do
    let l = input_line stdin in
    let ws = List.filter (fun w -> w <> "") (String.split_on_char ' ' l) in
    (try print_endline (handle ws) with e -> print_endline ("!ERR " ^ Printexc.to_string e))
  done with End_of_file -> ()
