module C = C12
include Zio_inc
let exn_s = function C.ZeroDivisionError -> "ZeroDivisionError" | C.ValueError -> "ValueError"
  | C.OverflowError -> "OverflowError" | C.AssertionError -> "AssertionError" | C.TypeError -> "TypeError"
let val_s = function C.VInt z -> "I " ^ text_of_z z | C.VFloat (C.FTrueDivInt (a, b)) -> "F " ^ text_of_z a ^ " " ^ text_of_z b
let fres_s = function C.Folded v -> val_s v | C.NotFolded -> "N" | C.Crash e -> "C " ^ exn_s e
let ob = function None -> "none" | Some true -> "true" | Some false -> "false"
let idx = function
  | "i" :: i :: rest -> (C.IdxInt (z_of_text i), rest)
  | "s" :: lo :: hi :: rest -> (C.IdxSlice (opt_z lo, opt_z hi), rest)
  | _ -> failwith "idx"
let thing = function
  | "k" :: k :: [] -> C.ThInt (z_of_text k)
  | "t" :: ws -> C.ThTuple (zlist ws)
  | _ -> failwith "thing"
let handle = function
  | ["fold"; op; l; r] -> fres_s (C.constant_fold_binary_int_op (coq_string op) (z_of_text l) (z_of_text r))
  | ["foldd"; op; l; r] -> fres_s (C.constant_fold_binary_op_int (coq_string op) (z_of_text l) (z_of_text r))
  | ["unary"; op; v] -> fres_s (C.constant_fold_unary_op_int (coq_string op) (z_of_text v))
  | ["pybin"; op; l; r] -> (match C.py_int_binop (coq_string op) (z_of_text l) (z_of_text r) with
      | None -> "none" | Some (C.ROk v) -> val_s v | Some (C.RRaise e) -> "C " ^ exn_s e)
  | "consider" :: maj :: min :: op :: rest ->
      let (i, rest) = idx rest in
      text_of_z (C.consider (z_of_text maj) (z_of_text min) i (coq_string op) (thing rest))
  | "runtime" :: maj :: min :: mic :: op :: rest ->
      let (i, rest) = idx rest in
      ob (C.runtime_test (C.vinfo (z_of_text maj) (z_of_text min) (z_of_text mic) (C.Zpos C.XH) C.Z0) i (coq_string op) (thing rest))
  | "f5" :: maj :: min :: op :: rest ->
      let (i, rest) = idx rest in
      ob (Some (C.f5_class (z_of_text maj) (z_of_text min) i (coq_string op) (thing rest)))
  | ["platform"; p; op; lit] -> text_of_z (C.consider_platform_cmp (coq_string p) (coq_string op) (coq_string lit))
  | ["or"; a; b] -> text_of_z (C.or_table (z_of_text a) (z_of_text b))
  | ["and"; a; b] -> text_of_z (C.and_table (z_of_text a) (z_of_text b))
  | ["not"; a] -> text_of_z (C.inverted (z_of_text a))
  | _ -> "!BAD"
let () = main handle
