module C = C12
include Zio_inc
let exn_s = function C.ZeroDivisionError -> "ZeroDivisionError" | C.ValueError -> "ValueError"
  | C.OverflowError -> "OverflowError" | C.AssertionError -> "AssertionError" | C.TypeError -> "TypeError"
let val_s = function C.VInt z -> "I " ^ text_of_z z | C.VFloat (C.FTrueDivInt (a, b)) -> "F " ^ text_of_z a ^ " " ^ text_of_z b
  | C.VFloat _ -> "F?"
let fres_s = function C.Folded v -> val_s v | C.NotFolded -> "N" | C.Crash e -> "C " ^ exn_s e
(* strings / bytes travel as hex text ("-" = empty) *)
let unhex (h : string) : string = if h = "-" then "" else String.init (String.length h / 2) (fun i -> Char.chr (int_of_string ("0x" ^ String.sub h (2 * i) 2)))
let hex (s : string) : string = if s = "" then "-" else String.concat "" (List.map (fun c -> Printf.sprintf "%02x" (Char.code c)) (List.init (String.length s) (String.get s)))
let rec ocaml_string (s : C.string) : string = match s with
  | C.EmptyString -> ""
  | C.String (C.Ascii (b0, b1, b2, b3, b4, b5, b6, b7), r) ->
      let v = List.fold_left (fun acc (b, i) -> if b then acc lor (1 lsl i) else acc) 0 [(b0,0);(b1,1);(b2,2);(b3,3);(b4,4);(b5,5);(b6,6);(b7,7)] in
      String.make 1 (Char.chr v) ^ ocaml_string r
let rec pos_of_int n = if n = 1 then C.XH else if n land 1 = 0 then C.XO (pos_of_int (n lsr 1)) else C.XI (pos_of_int (n lsr 1))
let n_of_int n = if n = 0 then C.N0 else C.Npos (pos_of_int n)
let rec int_of_pos = function C.XH -> 1 | C.XO p -> 2 * int_of_pos p | C.XI p -> 2 * int_of_pos p + 1
let int_of_n = function C.N0 -> 0 | C.Npos p -> int_of_pos p
let bytes_of (h : string) : C.n list = let s = unhex h in List.init (String.length s) (fun i -> n_of_int (Char.code s.[i]))
let hex_of_bytes (l : C.n list) : string = hex (String.concat "" (List.map (fun n -> String.make 1 (Char.chr (int_of_n n))) l))
let os = function None -> "N" | Some s -> "S " ^ hex (ocaml_string s)
let obs = function None -> "N" | Some l -> "B " ^ hex_of_bytes l
let oz = function None -> "raise" | Some z -> text_of_z z
let ob = function None -> "none" | Some true -> "true" | Some false -> "false"
let idx = function
  | "i" :: i :: rest -> (C.IdxInt (z_of_text i), rest)
  | "s" :: lo :: hi :: rest -> (C.IdxSlice (opt_z lo, opt_z hi), rest)
  | _ -> failwith "idx"
let thing = function
  | "k" :: k :: [] -> C.ThInt (z_of_text k)
  | "t" :: ws -> C.ThTuple (zlist ws)
  | _ -> failwith "thing"
let handle = function
  | ["fold"; op; l; r] -> fres_s (C.constant_fold_binary_int_op (coq_string op) (z_of_text l) (z_of_text r))
  | ["foldd"; op; l; r] -> fres_s (C.constant_fold_binary_op_int (coq_string op) (z_of_text l) (z_of_text r))
  | ["unary"; op; v] -> fres_s (C.constant_fold_unary_op_int (coq_string op) (z_of_text v))
  | ["pybin"; op; l; r] -> (match C.py_int_binop (coq_string op) (z_of_text l) (z_of_text r) with
      | None -> "none" | Some (C.ROk v) -> val_s v | Some (C.RRaise e) -> "C " ^ exn_s e)
  | "consider" :: maj :: min :: op :: rest ->
      (* the REGENERATED decision core (Gen.Reach.consider_core) *)
      let (i, rest) = idx rest in
      oz (C.consider_core [z_of_text maj; z_of_text min] i (coq_string op) (thing rest))
  | "considerf" :: maj :: min :: op :: rest ->
      (* operands the other way round: op = the written operator, reversed through the generated reverse_op table *)
      let (i, rest) = idx rest in
      (match C.reverse_op (coq_string op) with
       | None -> text_of_z (C.consider (z_of_text maj) (z_of_text min) i (coq_string op) (thing rest))  (* unknown operator: guard *)
       | Some r -> oz (C.consider_core [z_of_text maj; z_of_text min] i r (thing rest)))
  | "runtimef" :: maj :: min :: mic :: op :: rest ->
      let (i, rest) = idx rest in
      ob (C.runtime_test_flipped (C.vinfo (z_of_text maj) (z_of_text min) (z_of_text mic) (C.Zpos C.XH) C.Z0) i (coq_string op) (thing rest))
  | "f5f" :: maj :: min :: op :: rest ->
      let (i, rest) = idx rest in
      (match C.reverse_op (coq_string op) with
       | None -> "false"
       | Some r -> ob (Some (C.f5_class (z_of_text maj) (z_of_text min) i r (thing rest))))
  | "runtime" :: maj :: min :: mic :: op :: rest ->
      let (i, rest) = idx rest in
      ob (C.runtime_test (C.vinfo (z_of_text maj) (z_of_text min) (z_of_text mic) (C.Zpos C.XH) C.Z0) i (coq_string op) (thing rest))
  | "f5" :: maj :: min :: op :: rest ->
      let (i, rest) = idx rest in
      ob (Some (C.f5_class (z_of_text maj) (z_of_text min) i (coq_string op) (thing rest)))
  | ["foldstr"; "ss"; op; l; r] -> os (C.constant_fold_binary_op_str_str (coq_string op) (coq_string (unhex l)) (coq_string (unhex r)))
  | ["foldstr"; "si"; op; l; r] -> os (C.constant_fold_binary_op_str_int (coq_string op) (coq_string (unhex l)) (z_of_text r))
  | ["foldstr"; "is"; op; l; r] -> os (C.constant_fold_binary_op_int_str (coq_string op) (z_of_text l) (coq_string (unhex r)))
  | ["foldbytes"; "bb"; op; l; r] -> obs (C.constant_fold_binary_op_extended_bytes_bytes (coq_string op) (bytes_of l) (bytes_of r))
  | ["foldbytes"; "bi"; op; l; r] -> obs (C.constant_fold_binary_op_extended_bytes_int (coq_string op) (bytes_of l) (z_of_text r))
  | ["foldbytes"; "ib"; op; l; r] -> obs (C.constant_fold_binary_op_extended_int_bytes (coq_string op) (z_of_text l) (bytes_of r))
  | "chain" :: vs ->
      let (bs, e) = C.chain_marks (zlist vs) in
      String.concat "" (List.map (fun b -> if b then "1" else "0") bs) ^ " " ^ (if e then "1" else "0")
  | "cond" :: toks ->
      (* nested condition in postfix: a number = leaf truth value, ! = not, & = and, | = or *)
      let rec go st = function
        | [] -> (match st with [e] -> e | _ -> failwith "cond")
        | "!" :: r -> (match st with e :: s -> go (C.CNot e :: s) r | _ -> failwith "cond")
        | ("&" | "|") as o :: r -> (match st with b :: a :: s -> go (C.COp (coq_string (if o = "&" then "and" else "or"), a, b) :: s) r | _ -> failwith "cond")
        | n :: r -> go (C.CLeaf (z_of_text n, false) :: st) r in
      oz (C.infer_cond (go [] toks))
  | ["platform"; p; op; lit] -> text_of_z (C.platform_cmp_core (coq_string p) (coq_string op) (coq_string lit))
  | ["startswith"; p; lit] -> text_of_z (C.platform_startswith_core (coq_string p) (coq_string lit))
  | ["or"; a; b] -> text_of_z (C.infer_op_table (coq_string "or") (z_of_text a) (z_of_text b))
  | ["and"; a; b] -> text_of_z (C.infer_op_table (coq_string "and") (z_of_text a) (z_of_text b))
  | ["not"; a] -> oz (C.inverted_truth_mapping (z_of_text a))
  | _ -> "!BAD"
let () = main handle
