(* I/O-only driver for the extracted C05 models (Vtable.v, PassValidators.v).
   One request per input line, one answer line per request.  Numbers are decimal. *)
module C = C05
(* (zio.ml is not included: this model has no Z / string values) *)
let words (l : string) : string list = List.filter (fun w -> w <> "") (String.split_on_char ' ' l)
let main (handle : string list -> string) : unit =
  try while true do
    let l = input_line stdin in
    (try print_endline (handle (words l)) with e -> print_endline ("!ERR " ^ Printexc.to_string e))
  done with End_of_file -> ()

let rec pos_of_int (n : int) : C.positive =
  if n <= 1 then C.XH else if n land 1 = 1 then C.XI (pos_of_int (n lsr 1)) else C.XO (pos_of_int (n lsr 1))
let rec int_of_pos (p : C.positive) : int =
  match p with C.XH -> 1 | C.XO q -> 2 * int_of_pos q | C.XI q -> 2 * int_of_pos q + 1
let rec int_of_nat (n : C.nat) : int = match n with C.O -> 0 | C.S m -> 1 + int_of_nat m

(* token stream *)
let toks : string list ref = ref []
let next () = match !toks with t :: r -> toks := r; t | [] -> failwith "eof"
let int () = int_of_string (next ())
let pos () = let n = int () in if n < 1 then failwith "pos" else pos_of_int n
let rec times n f = if n <= 0 then [] else let x = f () in x :: times (n - 1) f

(* ---- vtables *)
let read_cls () : C.cls =
  let name = pos () in
  let trait = int () = 1 in
  let b = int () in
  let base = if b = 0 then None else Some (pos_of_int b) in
  let mro = times (int ()) pos in
  let meths = times (int ()) (fun () -> let n = pos () in let s = pos () in (n, s)) in
  let glue = times (int ()) (fun () -> let t = pos () in let n = pos () in (t, n)) in
  { C.c_name = name; c_trait = trait; c_base = base; c_mro = mro; c_methods = meths; c_glue = glue }

let entry_s (e : C.entry) : string =
  let m = match e.C.e_meth with
    | C.Impl (d, n) -> Printf.sprintf "i %d %d" (int_of_pos d) (int_of_pos n)
    | C.Glue (d, t, n) -> Printf.sprintf "g %d %d %d" (int_of_pos d) (int_of_pos t) (int_of_pos n) in
  Printf.sprintf "(%d %d %s)" (int_of_pos e.C.e_cls) (int_of_pos e.C.e_name) m
let entries_s es = String.concat "" (List.map entry_s es)

let do_vt () : string =
  let ct = times (int ()) read_cls in
  let wf = C.wf_ct ct in
  match C.compute_all ct with
  | None -> Printf.sprintf "wf=%d none" (if wf then 1 else 0)
  | Some res ->
    let one (cl : C.cls) =
      let name = cl.C.c_name in
      match List.assoc_opt name (List.map (fun (k, v) -> (k, v)) res) with
      | None -> "?"
      | Some v ->
        let seen = Hashtbl.create 8 in
        let idx = List.filter_map (fun (n, i) ->
            if Hashtbl.mem seen n then None else (Hashtbl.add seen n (); Some (Printf.sprintf "%d:%d" (int_of_pos n) (int_of_nat i))))
            v.C.v_index in
        Printf.sprintf "c %d e %s x %s t %s" (int_of_pos name) (entries_s v.C.v_entries)
          (String.concat "," (List.sort compare idx))
          (String.concat " " (List.map (fun (t, es) -> Printf.sprintf "%d=%s" (int_of_pos t) (entries_s es)) v.C.v_traits)) in
    Printf.sprintf "wf=%d %s" (if wf then 1 else 0) (String.concat " | " (List.map one ct))

(* dispatch query: "vd <table> q  (c p n)*q" -> per query: slot / entry through view / mro_lookup *)
let do_vd () : string =
  let ct = times (int ()) read_cls in
  let qs = times (int ()) (fun () -> let c = pos () in let p = pos () in let n = pos () in (c, p, n)) in
  match C.compute_all ct with
  | None -> "none"
  | Some res ->
    let one (c, p, n) =
      let via = match C.slot_of res p n, C.view ct res c p with
        | Some i, Some es -> (match List.nth_opt es (int_of_nat i) with
            | Some e -> let (d, m) = C.resolve e.C.e_meth in Printf.sprintf "%d.%d" (int_of_pos d) (int_of_pos m)
            | None -> "oob")
        | None, _ -> "noslot"
        | _, None -> "noview" in
      let mro = match C.mro_lookup ct c n with
        | Some (d, m) -> Printf.sprintf "%d.%d" (int_of_pos d) (int_of_pos m) | None -> "nomethod" in
      via ^ "/" ^ mro in
    String.concat " " (List.map one qs)

(* is_method_final queries: "vf <table> q (c n)*" -> 1 / 0 per query *)
let do_vf () : string =
  let ct = times (int ()) read_cls in
  let qs = times (int ()) (fun () -> let c = pos () in let n = pos () in (c, n)) in
  String.concat " " (List.map (fun (c, n) ->
      match C.find_cls ct c with
      | Some cl -> if C.is_method_final ct cl n then "1" else "0"
      | None -> "?") qs)

(* ---- pass validators *)
let operand () : C.operand =
  let t = next () in
  let n = int_of_string (String.sub t 1 (String.length t - 1)) in
  if t.[0] = 'v' then C.OVar (pos_of_int n) else if t.[0] = 'k' then C.OLit (pos_of_int n) else failwith "operand"

let read_op () : C.op =
  match next () with
  | "a" -> let d = pos () in let s = operand () in C.Assign (d, s)
  | "o" -> let d = pos () in let f = pos () in let args = times (int ()) operand in C.Op (d, f, args)
  | _ -> failwith "op"

let read_term () : C.term =
  match next () with
  | "g" -> C.Goto (pos ())
  | "c" -> let k = pos () in let neg = int () = 1 in let v = operand () in let lt = pos () in let lf = pos () in
    C.Branch (k, neg, v, lt, lf)
  | "r" -> C.Return (operand ())
  | "u" -> C.Unreachable
  | _ -> failwith "term"

let read_func () : C.func =
  times (int ()) (fun () ->
      let l = pos () in
      let ops = times (int ()) read_op in
      let t = read_term () in
      (l, { C.b_ops = ops; b_term = t }))

let do_cp () : string =
  let before = read_func () in
  let after = read_func () in
  let h = times (int ()) (fun () -> let y = pos () in let s = operand () in (y, s)) in
  let ann = times (int ()) (fun () -> let l = pos () in let a = times (int ()) pos in (l, a)) in
  if C.validate_copyprop h ann before after then "1" else "0"

let do_fe () : string =
  let before = read_func () in
  let after = read_func () in
  let h = times (int ()) (fun () -> let b = pos () in let l = pos () in (b, l)) in
  if C.validate_flagelim h before after then "1" else "0"

(* ---- argument parsing: "ap <which> <nparams> (kind name posonly)* <npos> <nkws> names..."  which = w|g|p|c *)
let rec nat_of_int (n : int) : C.nat = if n <= 0 then C.O else C.S (nat_of_int (n - 1))
let kind_of = function
  | 0 -> C.ARG_POS | 1 -> C.ARG_OPT | 2 -> C.ARG_STAR | 3 -> C.ARG_NAMED | 4 -> C.ARG_STAR2 | _ -> C.ARG_NAMED_OPT
let src_s = function
  | None -> "D" | Some (C.SPos i) -> "P" ^ string_of_int (int_of_nat i) | Some (C.SKw n) -> "K" ^ string_of_int (int_of_nat n)
let do_ap () : string =
  let which = next () in
  let ps = times (int ()) (fun () ->
      let k = kind_of (int ()) in let n = nat_of_int (int ()) in let po = int () = 1 in
      { C.pk = k; pname = n; posonly = po }) in
  let np = nat_of_int (int ()) in
  let kws = times (int ()) (fun () -> nat_of_int (int ())) in
  let c = { C.npos = np; kws = kws } in
  if which = "c" then (match C.cpython_bind (List.map C.to_formal ps) c with C.BindOk -> "ok" | C.TypeError -> "T")
  else
    let r = match which with
      | "w" -> C.parse_wrapper ps c
      | "g" -> C.parse_general (C.make_parser ps) np kws
      | _ -> C.py_bind ps c in
    match r with
    | None -> "T"
    | Some b ->
      let slot (p : C.param) =
        match p.C.pk with
        | C.ARG_STAR -> "(" ^ String.concat "," (List.map (fun i -> "P" ^ string_of_int (int_of_nat i)) b.C.b_star) ^ ")"
        | C.ARG_STAR2 -> "{" ^ String.concat "," (List.map (fun n -> string_of_int (int_of_nat n)) b.C.b_kwstar) ^ "}"
        | _ -> src_s (C.slot_of0 b.C.b_slots p.C.pname) in
      String.concat "|" (List.map slot ps)

(* ---- guarded blocks (uninit validator):
   gfunc  = <nblocks> (label <ngops> gop* term)*
   gop    = p <op> | U d | G k neg operand exit | I B | S B i | C B i | T B i exit *)
let read_gop () : C.gop =
  match next () with
  | "p" -> C.GOp (read_op ())
  | "U" -> C.GUndef (pos ())
  | "G" -> let k = pos () in let neg = int () = 1 in let v = operand () in let ex = pos () in C.GGuard (k, neg, v, ex)
  | "I" -> C.GBmInit (pos ())
  | "S" -> let b = pos () in let i = nat_of_int (int ()) in C.GBmSet (b, i)
  | "C" -> let b = pos () in let i = nat_of_int (int ()) in C.GBmClr (b, i)
  | "T" -> let b = pos () in let i = nat_of_int (int ()) in let ex = pos () in C.GBmGuard (b, i, ex)
  | "H" -> let k1 = pos () in let n1 = int () = 1 in let v1 = operand () in let inner = times (int ()) read_op in
    let k2 = pos () in let n2 = int () = 1 in let v2 = operand () in let ex = pos () in
    C.GGuard2 (k1, n1, v1, inner, k2, n2, v2, ex)
  | _ -> failwith "gop"
let read_gfunc () : C.gfunc =
  times (int ()) (fun () ->
      let l = pos () in
      let ops = times (int ()) read_gop in
      let t = read_term () in
      (l, { C.g_ops = ops; g_term = t }))
let plist () = times (int ()) pos
let do_un () : string =
  let tracked = plist () in
  let args = plist () in
  let bmt = times (int ()) (fun () -> let r = pos () in let b = pos () in let i = nat_of_int (int ()) in (r, (b, i))) in
  let defk = plist () in
  let iserrk = plist () in
  let raise_ = plist () in
  let ann = times (int ()) (fun () -> let l = pos () in let a = plist () in (l, a)) in
  let h = { C.u_tracked = tracked; u_args = args; u_bmt = bmt; u_defk = defk; u_iserrk = iserrk; u_raise = raise_; u_ann = ann } in
  let before = read_gfunc () in
  let after = read_gfunc () in
  if C.validate_uninit h before after then "1" else "0"

(* ---- exceptions validator: "xc <0 | 1 dl gblock> <nerr syms> xfunc gfunc"
   xfunc = <nblocks> (label handler(0=none) <nops> (op ek)* term)*
   ek = n | m k | f k | a k z | v <nprobes> op* k1 op k2 *)
let read_gblock () : C.gblock =
  let ops = times (int ()) read_gop in
  let t = read_term () in { C.g_ops = ops; g_term = t }
let read_ek () : C.ekind =
  match next () with
  | "n" -> C.ENever
  | "m" -> C.EMagic (pos ())
  | "f" -> C.EFalse (pos ())
  | "a" -> let k = pos () in let z = pos () in C.EAlways (k, z)
  | "v" -> let ps = times (int ()) read_op in let k1 = pos () in let call = read_op () in let k2 = pos () in C.EOverlap (ps, k1, call, k2)
  | _ -> failwith "ek"
let do_xc () : string =
  let df = if int () = 0 then None else (let dl = pos () in let b = read_gblock () in Some (dl, b)) in
  let errsyms = plist () in
  let before = times (int ()) (fun () ->
      let l = pos () in
      let h = int () in
      let ops = times (int ()) (fun () -> let o = read_op () in let e = read_ek () in { C.x_op = o; x_ek = e }) in
      let t = read_term () in
      (l, { C.xb_ops = ops; xb_term = t; xb_handler = (if h = 0 then None else Some (pos_of_int h)) })) in
  let after = read_gfunc () in
  if C.validate_exceptions df errsyms before after then "1" else "0"

let handle (ws : string list) : string =
  match ws with
  | "vt" :: r -> toks := r; do_vt ()
  | "vd" :: r -> toks := r; do_vd ()
  | "vf" :: r -> toks := r; do_vf ()
  | "cp" :: r -> toks := r; do_cp ()
  | "fe" :: r -> toks := r; do_fe ()
  | "ap" :: r -> toks := r; do_ap ()
  | "un" :: r -> toks := r; do_un ()
  | "xc" :: r -> toks := r; do_xc ()
  | _ -> "!BAD"
let () = main handle
