#!/venv/bin/python
"""merge_findings.py: merge reviewed per-property findings files (notes/Cxx-findings.json etc.) into known_findings.json.
Run by the lead after reviewing an agent's report; never run by a check."""
import json, sys, re, os
root = os.path.dirname(os.path.dirname(os.path.abspath(__file__)))
p = os.path.join(root, "known_findings.json"); d = json.load(open(p)); F = d["findings"]
added = 0
for f in sys.argv[1:]:
    prop = re.search(r"(C\d\d)", os.path.basename(f)).group(1)
    x = json.load(open(f))
    if isinstance(x, dict):
        x = x.get("findings") or x.get("entries") or []
    for e in x:
        if not isinstance(e, dict) or "key" not in e:
            continue
        st = e.get("status", "known")
        cur = next((g for g in F if g["property"] == prop and g["key"] == e["key"]), None)
        if cur is None:
            g = {"property": prop, "status": st if st in ("known", "fixed") else "known", "key": e["key"],
                 "what": e.get("what") or e.get("description") or ""}
            if e.get("commit"): g["commit"] = e["commit"]
            F.append(g); added += 1
        elif st == "fixed" and cur.get("status") != "fixed":
            cur["status"] = "fixed"; cur["commit"] = e.get("commit", cur.get("commit", "")); cur["what"] = "fixed: property=%s %s %s" % (prop, cur["commit"], cur["what"])
json.dump(d, open(p, "w"), indent=1)
print("added", added, "total", len(F))
