#!/venv/bin/python
"""Regenerate MANIFEST.json from the table below (keeps the file valid at all times)."""
import json, os
ROOT = os.path.dirname(os.path.dirname(os.path.abspath(__file__)))
props = [json.loads(l) for l in open(os.path.join(ROOT, "properties.jsonl"))]

# property -> (category, text, note, technique, design_ref); absent = not yet claimed
CLAIMS = {
 "C12": ("proof",
         "Coq theorems over models regenerated from mypy/constant_fold.py and mypy/reachability.py (int folding = CPython's int semantics for all operands, no exception escapes; version/platform tests equal the run-time value for every interpreter of the target, with the exact characterisation of the one refuted class F5), hand models of call binding and C3 MRO proved equal to the transcribed CPython rule; models tied to /repo by translator + exhaustive correspondence against the implementation and CPython",
         "Coq 8.16.1 kernel, vm_compute; translator tools/py2gallina.py; ExtrOcamlBasic extraction + OCaml drivers; CPython 3.12.1 (eval, type(), real calls) as run-time oracle; floats not modelled; arity theorem covers positional+keyword actuals only (*tuple/**TypedDict actuals not modelled); CPython pmerge/initialize_locals transcribed by hand and tied to CPython behaviourally; known finding F5 (version_info compared with a literal equal to the target prefix) is characterised exactly by theorem version_test_exact",
         "Coq proof over translated model + exhaustive correspondence vs implementation and CPython", "6/C12"),

 "C07": ("proof",
         "Coq theorems over an operational model of mypy's parallel scheduler (coordinator ready / not_ready_count / queue / free-workers bookkeeping; worker interface->commit->reply->implementation->commit->reply; shared store), for every DAG, every N and every schedule: a completed parallel run leaves exactly the sequential interfaces and diagnostics (also as the cache map); SCCs are submitted only when their deps are done; workers only read committed (= sequential) interfaces; every SCC is processed once; no deadlock; every run has at most 8*|SCCs| events. The model is tied to /repo by trace validation of every parallel run's coordinator/worker event log against the model's step function, plus a -n N vs sequential output and cache-map oracle under seeded schedule perturbation",
         "Coq 8.16.1, no axioms; analysis abstract (Section functions of sources and committed interfaces of transitive deps, monitored by the S oracle); batching policy abstracted to any non-empty subset of the queue (theorems hold for all); blockers and worker crashes not modelled; instrumentation external (tools/shim/c07 sitecustomize, PYTHON_MYPY_VERIF=1), it raises WORKER_START_TIMEOUT",
         "global-invariant proof over an event-step model + trace validation against the real scheduler + differential oracle", "6/C07"),

 "C15": ("proof",
         "Coq theorems for ALL integer operands (every short/long boundary): each tagged-int primitive of CPy.h/int_ops.c (add, subtract, multiply, floor-divide, remainder, negate, invert, and/or/xor, lshift, rshift, all comparisons incl. the lowering) returns the canonical tagged representation of Python's result or raises the same exception; int->i64/i32/i16/u8 conversions reject exactly the out-of-range values; fixed-width + - * // % and in-range shifts agree with Python when the exact result fits; u8 wraps mod 256; native shifts with out-of-range counts are REFUTED (witness replayed). The hand model is tied on every run to a C extension compiled from /repo/mypyc/lib-rt exposing each primitive on raw tagged words and to a freshly mypyc-compiled module (451 one-operation functions, opt 0 and 3), compared three ways with CPython",
         "Coq 8.16.1, no axioms; hand model of the C code (no verified C semantics: correspondence on boundary^2 + random operands is the tie); floats (true division, int<->float, float ops) have no model: compared by float.hex() compiled vs lib-rt primitive vs CPython only; 4 known findings (native shift count >= width / negative, int true division double rounding, int-float comparison)",
         "Coq proof (lia + euclidean division, bit lemmas) over hand model + correspondence against freshly compiled C and mypyc code + differential search vs CPython", "6/C15"),
 "C03": ("proof",
         "Coq theorems over a model of mypy/server/update.py: find_targets_recursive returns exactly the targets reachable through the dependency map (any map); propagate_changes_using_dependencies reaches a consistent state; update of a changed/added/deleted module equals a full check and re-establishes the invariant, lifted by induction over ALL finite edit histories (stale_errors_removed, no_error_missed); the file-system watcher reports exactly the changed paths under the mtime discipline. deps.py / astdiff completeness are explicit contracts, monitored on the implementation (a target whose fresh result changed must have been reprocessed). Tied by replaying every real propagate call (observed deps map and answers) on the Coq loop, and by comparing the in-process daemon with a fresh non-incremental build after every step of generated and test-suite edit histories (one scenario per dependency kind of deps.py)",
         "Coq 8.16.1, no axioms; deps_complete / diff_complete / check_module_consistent are contracts (monitored, not proved); theorem conditional on the update returning (MAX_ITER not hit, no blocker); 29 known divergences of the unchanged daemon from a fresh run are listed in known_findings.json (status mismatches, lost used-before-def/has-type, note formatting, order within file, three daemon crashes, one missed propagation)",
         "Coq invariant/worklist proofs + vm_compute trace validation of real update.py runs + differential oracle with shrinking", "6/C03"),

 "C08": ("proof",
         "Coq model of mypy's is_subtype / is_proper_subtype / is_same_type / join / meet / make_simplified_union / subtype caches over arbitrary class tables (Any, Never, None, generic instances with variance and promotions, literals, unions, tuples). Proved at full strength: reflexivity, proper=>subtype, answers independent of fuel and of any sound cache. Proved on the nominal fragments F1/F1up under wf_ct and chains_ok (both evaluated on the real class table every run): transitivity, join upper bounds, meet lower bounds, meet commutativity, simplified-union equivalence under permutation, fuel sufficiency. REFUTED with witnesses replayed on real mypy each run: transitivity (single-member enum literal), meet lower bound (contravariant generic + promotion), join commutativity (base order). Tied by exhaustive pair correspondence of every operation on a universe built by a real mypy build (0 mismatches), and a law search on real mypy over exotic kinds",
         "Coq 8.16.1, no axioms; hand model tied by correspondence only; laws on generic instances with variance, tuples and bool/enum contraction not proved; cache_transparent state machine proved only for union-free keys; 46 known law/kind violation classes of the unchanged tree listed in known_findings.json (keys = law + multiset of type kinds)",
         "hand model + extracted-OCaml exhaustive correspondence + order-theoretic proof on a fragment + law search", "6/C08"),
 "C18": ("proof",
         "Coq theorems over a model of find_sources.py / modulefinder.py (user paths) / load_graph duplicate checks, for all directory trees and depths: crawl_find_inverse (the module name assigned to a file resolves, on the search path mypy derives, to that file, its sibling stub, the package beside a module file, or in namespace mode the directory beside it), duplicate detection exact, per-file listing order-independent, directory walk = per-file crawl on trees without a module beside a same-named directory (dir_eq_files_no_shadow); the strict forms are refuted by machine-checked witnesses. Tied by exhaustive small-scope correspondence: every enumerated tree x option combination x cwd against real create_source_list / find_module / find_modules_recursive (0 mismatches over ~700k answers per quick run) and differential command lines DIR vs FILES vs -p",
         "Coq 8.16.1, no axioms; hand model tied by correspondence only; user paths only (no site-packages, typeshed, exclude, case-insensitive fs); dir_eq_package stated and model-checked on bounded trees, not proved; 2 known findings (module beside same-named directory)",
         "extracted Coq model vs in-process mypy on enumerated directory trees + induction proofs + differential command-line runs", "6/C18"),

 "C13": ("proof",
         "Coq theorems over the Errors state machine with predicates regenerated from mypy/errors.py, util.py and main.py: for all report streams and configurations an ignore comment removes exactly the non-blocking errors (and their notes) whose origin span hits its line and whose code matches (ignore_exact / ignore_delta), blockers are never ignored, unused-ignore is reported iff the ignore absorbed nothing (for coded ignores per listed code), disabling a code removes exactly the diagnostics carrying it (given the file's ignores are registered; necessity of that hypothesis proved: known finding), and the exit status is 0 iff no error-severity line, 2 iff a blocker, else 1 (exit_code_truth, which builds only on the repaired count_stats; the refutation of the previous substring version is kept). Tied by translator self-correspondence, real Errors objects driven with generated streams (vm_compute), and metamorphic runs of real mypy on the check-* corpus x 11 ignore annotation kinds x disable/enable of each code",
         "Coq 8.16.1, no axioms; translator tools/extractors/t13.py (py2gallina subclass); model is per file, without ErrorWatchers, many-errors hiding and pretty/json rendering; 1 known finding (disabled code still reported before ignores are registered); F1 fixed in /repo",
         "Coq proof over translated + hand model + correspondence vs driven implementation + metamorphic search", "6/C13"),
 "C17": ("proof",
         "Coq theorems: per-module option resolution (build_per_module_cache, clone_for_module, apply_changes, command line over config, inline last) equals the documented precedence for all section lists, modules of any depth and options (resolve_eq_spec, codes_eq_spec, clone_is_chain); the glob matcher equals its declarative semantics; finite table theorems over flag tables regenerated from main.py/config_parser.py: every boolean spelling on the command line and in config normalises to the same (dest, value); --strict = strict=True and its precedence; list-valued options read identically from CLI / ini / toml; inline-comment acceptance. Three documented rules are refuted with witnesses replayed on mypy (repeated pattern, leading *, bare *). Tied by exhaustive small-scope correspondence against clone_for_module / compile_glob / process_options over all four config sources, and source-equivalence + precedence runs of real mypy on witness programs",
         "Coq 8.16.1, no axioms; hand model + T-generated tables (t17.py pins invert_flag_name, set_strict_flags, conversion functions by AST/text and fails closed); regex engine, configparser, tomllib are monitored contracts; expand_path / split_and_match_files not modelled; 4 known findings",
         "induction over sorted insertion / refinement to fold + vm_compute reflection over generated tables + exhaustive correspondence", "6/C17"),
 "C06": ("proof",
         "Verified translation validation: a reference-count / definedness checker written in Gallina is proved sound for ALL control-flow graphs and ALL paths (checker_sound, annotation_check_sound: accepted => on every path no release of an unowned reference, no dec/inc of NULL, released or uninitialised values, no read of undefined / released values, no use of a structurally borrowed value after its owner's last release, no overwritten owned reference, nothing still owned at Return), plus a second verified checker for always-defined attribute claims (always_defined_check_sound). Extracted to OCaml and run on EVERY FuncIR the real mypyc pipeline produces from the repository's test programs and generated programs on each run (after refcount insertion; after spill for generator bodies), cross-checked by an independent Python re-implementation; dynamic monitor (18 compiled functions x 1000 runs incl. raising paths, UnboundLocalError/AttributeError cases, crash probes)",
         "Coq 8.16.1, no axioms; per-name token semantics, not a heap model; later passes (lowering, copy propagation, flag elimination), codegen and the C primitives are outside this check (steals/is_borrowed/error_kind declarations trusted, monitored dynamically); idioms handled by explicit counted exceptions listed in notes/C06.md; 1 known finding (generator close() NULL decref), 1 fixed (spill of a borrowed value)",
         "Coq-verified validator extracted and run on every real FuncIR + dynamic refcount monitor", "6/C06"),
}
NOT_YET = "model and theorems for this property are not built yet in this round (see DESIGN.md section 6 for the plan); not claimed until the Coq development and its tie exist"

checks = []
na = []
for p in props:
    i = p["id"]
    if i in CLAIMS:
        cat, text, note, tech, ref = CLAIMS[i]
        checks.append({
            "property_id": i,
            "quick_cmd": f"bin/check {i} --tier quick",
            "thorough_cmd": f"bin/check {i} --tier thorough",
            "evidence_file": f"evidence/{i}.json",
            "replay_cmd_template": f"bin/check {i} --replay {{path}}",
            "engine": "coq-pipeline",
            "level_claimed": {"category": cat, "text": text, "design_ref": ref},
            "level_note": note,
            "technique": tech,
        })
    else:
        na.append({"property_id": i, "reason": NOT_YET})
hooks_file = os.path.join(ROOT, "tools", "hooks.json")
hooks = json.load(open(hooks_file)) if os.path.exists(hooks_file) else {"source_commits": []}
m = {
 "version": 1,
 "setup_cmd": "bin/setup",
 "hooks": {"guard": "PYTHON_MYPY_VERIF",
           "enable": "no source hooks in /repo: instrumentation is external (tools/shim on PYTHONPATH of child processes, active only when PYTHON_MYPY_VERIF=1)",
           "baseline_off_cmd": "cd /repo && env -u PYTHON_MYPY_VERIF /venv/bin/python -m pytest -ra -q -p no:cacheprovider --timeout=900 --continue-on-collection-errors -n 16",
           "source_commits": hooks["source_commits"], "add_only": True},
 "engines": [{"name": "coq-pipeline", "path": "bin/check", "serves_properties": sorted(CLAIMS),
              "kind_free_text": "T translate from /repo -> P coq build -> A axiom audit -> C correspondence model vs implementation -> S search with the property's oracle"}],
 "checks": checks,
 "not_applicable": na,
 "notes": "fix: commits in /repo are listed in known_findings.json (status fixed). See DESIGN.md.",
}
json.dump(m, open(os.path.join(ROOT, "MANIFEST.json"), "w"), indent=1)
print("claimed:", sorted(CLAIMS), "not claimed:", [x["property_id"] for x in na])
